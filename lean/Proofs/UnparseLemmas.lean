import Spec.Unparse
import Proofs.TextLemmas

namespace NS

set_option linter.unusedSimpArgs false
set_option linter.unusedVariables false

/-! ### shapes -/

theorem up_shape {t : Tok} {k : TK} {x : List Char} (h : t.shape = (k, x)) :
    t.kind = k ∧ t.text = x := by
  simpa [Tok.shape] using h

theorem up_kw {t : Tok} {k : TK} {s : String} (h : t.shape = kw k s) : t.kind = k :=
  (up_shape h).1

/-- numbers of a list of shapes are in range -/
def up_nr (l : List Shape) : Bool :=
  l.all (fun s => s.1 != .number || (numberTokenValue s.2).isSome)

theorem up_nr_nil : up_nr [] = true := rfl

theorem up_nr_append (a b : List Shape) : up_nr (a ++ b) = (up_nr a && up_nr b) := by
  simp [up_nr, List.all_append]

theorem up_nr_cons (s : Shape) (b : List Shape) :
    up_nr (s :: b) = ((s.1 != .number || (numberTokenValue s.2).isSome) && up_nr b) := by
  simp [up_nr]

theorem up_nr_kw (k : TK) (s : String) (b : List Shape) (hk : k ≠ .number) :
    up_nr (kw k s :: b) = up_nr b := by
  simp [up_nr, kw, hk]

theorem up_numbersInRange (ts : List Tok) : numbersInRange ts = up_nr (ts.map Tok.shape) := by
  simp [numbersInRange, up_nr, List.all_map, Tok.shape, Function.comp_def]

/-! ### literals -/

theorem up_natText_ne (n : Nat) : natText n ≠ [] := by
  intro h
  have := tx_parseNat_toDigits n
  rw [natText] at h
  simp [parseNat?, h] at this

theorem up_natText_digits (n : Nat) : (natText n).all isDigit = true :=
  tx_all_isDigit_toDigits n

theorem up_natText_val (n : Nat) : digitsVal (natText n) = n := tx_digitsVal_toDigits n

theorem up_ntv_digits (ds : List Char) (h : ds.all isDigit = true) :
    numberTokenValue ds =
      if - (2 ^ 63 : Int) ≤ (digitsVal ds : Int) ∧ (digitsVal ds : Int) < (2 ^ 63 : Int)
      then some (digitsVal ds : Int) else none := by
  unfold numberTokenValue
  cases ds with
  | nil => rfl
  | cons c t =>
    by_cases hc : c = '-'
    · subst hc
      simp only [List.all_cons, Bool.and_eq_true] at h
      exact absurd h.1 (by decide)
    · simp only []
      split
      · rename_i heq
        simp at heq
        exact absurd heq.1 hc
      · rfl

theorem up_ntv_neg (ds : List Char) :
    numberTokenValue ('-' :: ds) =
      if - (2 ^ 63 : Int) ≤ - (digitsVal ds : Int) ∧ - (digitsVal ds : Int) < (2 ^ 63 : Int)
      then some (- (digitsVal ds : Int)) else none := by
  unfold numberTokenValue
  rfl

theorem up_numberTokenValue (n : Int) (h : - (2 ^ 63 : Int) ≤ n ∧ n < (2 ^ 63 : Int)) :
    numberTokenValue (intText n) = some n := by
  unfold intText
  by_cases hn : n < 0
  · rw [if_pos hn, up_ntv_neg, up_natText_val]
    have : - ((n.natAbs : Nat) : Int) = n := by omega
    rw [this]
    rw [if_pos h]
  · rw [if_neg hn, up_ntv_digits _ (up_natText_digits _), up_natText_val]
    have : ((n.toNat : Nat) : Int) = n := by omega
    rw [this]
    rw [if_pos h]

theorem up_ratioLiteral (n d : Nat) :
    ratioLiteral (natText n ++ '/' :: natText d) = some (n, d) := by
  have := tx_ratioLiteral (natText n) (natText d) (up_natText_ne n) (up_natText_digits n)
    (up_natText_ne d) (up_natText_digits d) false false
  simpa [up_natText_val] using this

/-! ### the first token of an expression -/

def up_exprHead (k : TK) : Bool :=
  k = .varName || k = .asset || k = .account || k = .string || k = .number || k = .ratio ||
  k = .lbracket

theorem up_expr_head : ∀ e : Expr, e.Printable →
    ∃ s tl, e.toks = s :: tl ∧ up_exprHead s.1 = true := by
  intro e
  induction e with
  | nil => intro h; exact absurd h (by simp [Expr.Printable])
  | monetaryNil => intro h; exact absurd h (by simp [Expr.Printable])
  | var r n => intro _; exact ⟨_, _, rfl, rfl⟩
  | asset r n => intro _; exact ⟨_, _, rfl, rfl⟩
  | account r n => intro _; exact ⟨_, _, rfl, rfl⟩
  | str r n => intro _; exact ⟨_, _, rfl, rfl⟩
  | number r n => intro _; exact ⟨_, _, rfl, rfl⟩
  | ratio r n d => intro _; exact ⟨_, _, rfl, rfl⟩
  | monetary r a b _ _ =>
    intro _
    refine ⟨kw .lbracket "[", a.toks ++ b.toks ++ [kw .rbracket "]"], ?_, rfl⟩
    simp [Expr.toks]
  | «infix» r op l r' ihl _ =>
    intro h
    obtain ⟨s, tl, hs, hk⟩ := ihl h.1
    refine ⟨s, tl ++ [match op with | .plus => kw .plus "+" | .minus => kw .minus "-"] ++ r'.toks, ?_, hk⟩
    cases op <;> simp [Expr.toks, hs]

theorem up_toks_head {e : Expr} (he : e.Printable) {ts : List Tok}
    (h : ts.map Tok.shape = e.toks) :
    ∃ t ts', ts = t :: ts' ∧ up_exprHead t.kind = true := by
  obtain ⟨s, tl, hs, hk⟩ := up_expr_head e he
  rw [hs] at h
  obtain ⟨t, ts', rfl, ht, _⟩ := List.map_eq_cons_iff.1 h
  refine ⟨t, ts', rfl, ?_⟩
  have : t.kind = s.1 := by rw [← ht]; rfl
  rw [this]; exact hk

/-! ### expressions -/

def up_PrimOk (e : Expr) : Prop :=
  ∀ (ts rest : List Tok) (f : Nat), ts.map Tok.shape = e.toks → 2 * ts.length ≤ f →
    ∃ e' stop, pPrimary f (ts ++ rest) = some (e', stop, rest) ∧ e'.skel = e.skel

def up_SpineOk (e : Expr) : Prop :=
  ∀ (first : Tok) (ts' rest : List Tok) (f : Nat), (first :: ts').map Tok.shape = e.toks →
    2 * (ts'.length + 1) ≤ f →
    ∃ g e' stop, f ≤ g + (ts'.length + 1) ∧ e'.skel = e.skel ∧
      pExpr (f + 1) (first :: (ts' ++ rest)) = pInfixTail g first e' stop rest

def up_ExprOk (e : Expr) : Prop :=
  ∀ (ts rest : List Tok) (f : Nat), ts.map Tok.shape = e.toks →
    (∀ t, rest.head? = some t → t.kind ≠ .plus ∧ t.kind ≠ .minus) → 2 * ts.length + 2 ≤ f →
    ∃ e' stop, pExpr f (ts ++ rest) = some (e', stop, rest) ∧ e'.skel = e.skel

theorem up_spine_expr {e : Expr} (he : e.Printable) (h : up_SpineOk e) : up_ExprOk e := by
  intro ts rest f hts hrest hf
  obtain ⟨first, ts', rfl, _⟩ := up_toks_head he hts
  obtain ⟨f0, rfl⟩ : ∃ f0, f = f0 + 1 := ⟨f - 1, by simp at hf; omega⟩
  simp only [List.length_cons] at hf
  obtain ⟨g, e', stop, hg, hsk, hp⟩ := h first ts' rest f0 hts (by omega)
  obtain ⟨g', rfl⟩ : ∃ g', g = g' + 1 := ⟨g - 1, by omega⟩
  refine ⟨e', stop, ?_, hsk⟩
  rw [List.cons_append, hp]
  cases rest with
  | nil => simp [pInfixTail]
  | cons op r =>
    have := hrest op rfl
    simp [pInfixTail, this.1, this.2]

theorem up_prim_spine {e : Expr} (h : up_PrimOk e) : up_SpineOk e := by
  intro first ts' rest f hts hf
  obtain ⟨e', stop, hp, hsk⟩ := h (first :: ts') rest f hts (by simpa using hf)
  refine ⟨f, e', stop, by omega, hsk, ?_⟩
  simp only [List.cons_append] at hp
  simp only [pExpr, hp]

theorem up_single {ts : List Tok} {s : Shape} (h : ts.map Tok.shape = [s]) :
    ∃ t, ts = [t] ∧ t.kind = s.1 ∧ t.text = s.2 := by
  obtain ⟨t, ts', rfl, ht, hnil⟩ := List.map_eq_cons_iff.1 h
  simp only [List.map_eq_nil_iff] at hnil
  subst hnil
  exact ⟨t, rfl, (up_shape (x := s.2) (k := s.1) ht).1, (up_shape (x := s.2) (k := s.1) ht).2⟩

theorem up_exprHead_notop {k : TK} (h : up_exprHead k = true) : k ≠ .plus ∧ k ≠ .minus := by
  cases k <;> simp [up_exprHead] at h ⊢

theorem up_head_append {e : Expr} (he : e.Printable) {ts : List Tok}
    (h : ts.map Tok.shape = e.toks) (X : List Tok) :
    ∀ t, (ts ++ X).head? = some t → up_exprHead t.kind = true := by
  obtain ⟨t0, ts', rfl, hk⟩ := up_toks_head he h
  intro t ht
  simp at ht
  subst ht
  exact hk

theorem up_fuel_succ (f : Nat) (h : 1 ≤ f) : ∃ f', f = f' + 1 := ⟨f - 1, by omega⟩

theorem up_expr_all : ∀ e : Expr, e.Printable →
    (e.isInfix = false → up_PrimOk e) ∧ up_SpineOk e := by
  intro e
  induction e with
  | nil => intro h; exact absurd h (by simp [Expr.Printable])
  | monetaryNil => intro h; exact absurd h (by simp [Expr.Printable])
  | var r n =>
    intro _
    have hp : up_PrimOk (.var r n) := by
      intro ts rest f hts hf
      obtain ⟨t, rfl, hk, htx⟩ := up_single hts
      obtain ⟨f', rfl⟩ := up_fuel_succ f (by simp only [List.length_cons, List.length_nil] at hf; omega)
      simp only [List.cons_append, List.nil_append, pPrimary, hk]
      exact ⟨_, _, rfl, by simp [Expr.skel, htx, tokString]⟩
    exact ⟨fun _ => hp, up_prim_spine hp⟩
  | asset r n =>
    intro _
    have hp : up_PrimOk (.asset r n) := by
      intro ts rest f hts hf
      obtain ⟨t, rfl, hk, htx⟩ := up_single hts
      obtain ⟨f', rfl⟩ := up_fuel_succ f (by simp only [List.length_cons, List.length_nil] at hf; omega)
      simp only [List.cons_append, List.nil_append, pPrimary, hk]
      exact ⟨_, _, rfl, by simp [Expr.skel, htx, tokString]⟩
    exact ⟨fun _ => hp, up_prim_spine hp⟩
  | account r n =>
    intro _
    have hp : up_PrimOk (.account r n) := by
      intro ts rest f hts hf
      obtain ⟨t, rfl, hk, htx⟩ := up_single hts
      obtain ⟨f', rfl⟩ := up_fuel_succ f (by simp only [List.length_cons, List.length_nil] at hf; omega)
      simp only [List.cons_append, List.nil_append, pPrimary, hk]
      exact ⟨_, _, rfl, by simp [Expr.skel, htx, tokString]⟩
    exact ⟨fun _ => hp, up_prim_spine hp⟩
  | str r n =>
    intro _
    have hp : up_PrimOk (.str r n) := by
      intro ts rest f hts hf
      obtain ⟨t, rfl, hk, htx⟩ := up_single hts
      obtain ⟨f', rfl⟩ := up_fuel_succ f (by simp only [List.length_cons, List.length_nil] at hf; omega)
      simp only [List.cons_append, List.nil_append, pPrimary, hk]
      exact ⟨_, _, rfl, by simp [Expr.skel, htx, tokString]⟩
    exact ⟨fun _ => hp, up_prim_spine hp⟩
  | number r n =>
    intro hn
    have hp : up_PrimOk (.number r n) := by
      intro ts rest f hts hf
      obtain ⟨t, rfl, hk, htx⟩ := up_single hts
      obtain ⟨f', rfl⟩ := up_fuel_succ f (by simp only [List.length_cons, List.length_nil] at hf; omega)
      have hv : numberTokenValue t.text = some n := by rw [htx]; exact up_numberTokenValue n hn
      simp only [List.cons_append, List.nil_append, pPrimary, hk, hv]
      exact ⟨_, _, rfl, by simp [Expr.skel]⟩
    exact ⟨fun _ => hp, up_prim_spine hp⟩
  | ratio r n d =>
    intro _
    have hp : up_PrimOk (.ratio r n d) := by
      intro ts rest f hts hf
      obtain ⟨t, rfl, hk, htx⟩ := up_single hts
      obtain ⟨f', rfl⟩ := up_fuel_succ f (by simp only [List.length_cons, List.length_nil] at hf; omega)
      have hv : portionExpr t = some (.ratio (rangeOf t t) n d) := by
        simp only [portionExpr, hk, htx, ↓reduceIte, up_ratioLiteral]
      simp only [List.cons_append, List.nil_append, pPrimary, hk, hv]
      exact ⟨_, _, rfl, by simp [Expr.skel]⟩
    exact ⟨fun _ => hp, up_prim_spine hp⟩
  | monetary r a b iha ihb =>
    intro h
    obtain ⟨ha, hb⟩ := h
    have hEa := up_spine_expr ha (iha ha).2
    have hEb := up_spine_expr hb (ihb hb).2
    have hp : up_PrimOk (.monetary r a b) := by
      intro ts rest f hts hf
      simp only [Expr.toks, List.cons_append, List.append_assoc] at hts
      obtain ⟨t, ts1, rfl, ht, h1⟩ := List.map_eq_cons_iff.1 hts
      obtain ⟨ta, ts2, rfl, hta, h2⟩ := List.map_eq_append_iff.1 h1
      obtain ⟨tb, ts3, rfl, htb, h3⟩ := List.map_eq_append_iff.1 h2
      obtain ⟨rb, rfl, hrk, _⟩ := up_single h3
      have hk := up_kw ht
      simp only [List.length_cons, List.length_append, List.length_nil] at hf
      obtain ⟨f', rfl⟩ := up_fuel_succ f (by omega)
      obtain ⟨a', sa, hpa, hska⟩ := hEa ta (tb ++ (rb :: rest)) f' hta
        (fun t ht => up_exprHead_notop (up_head_append hb htb _ t ht)) (by omega)
      obtain ⟨b', sb, hpb, hskb⟩ := hEb tb (rb :: rest) f' htb
        (by intro t ht; simp at ht; subst ht; simp [hrk, kw]) (by omega)
      simp only [List.cons_append, List.append_assoc, List.nil_append, pPrimary, hk, hpa, hpb,
        expect, hrk, kw, ↓reduceIte]
      exact ⟨_, _, rfl, by simp [Expr.skel, hska, hskb]⟩
    exact ⟨fun _ => hp, up_prim_spine hp⟩
  | «infix» r op l r' ihl ihr =>
    intro h
    obtain ⟨hl, hr, hri⟩ := h
    refine ⟨fun hi => by simp [Expr.isInfix] at hi, ?_⟩
    have hSl := (ihl hl).2
    have hPr := (ihr hr).1 hri
    intro first ts' rest f hts hf
    simp only [Expr.toks, List.append_assoc, List.cons_append, List.nil_append] at hts
    obtain ⟨tl, ts2, htseq, htl, h2⟩ := List.map_eq_append_iff.1 hts
    obtain ⟨top, tr, rfl, htop, htr⟩ := List.map_eq_cons_iff.1 h2
    obtain ⟨t0, tl', rfl, _⟩ := up_toks_head hl htl
    simp only [List.cons_append, List.cons.injEq] at htseq
    obtain ⟨rfl, rfl⟩ := htseq
    obtain ⟨tr0, tr', rfl, _⟩ := up_toks_head hr htr
    simp only [List.length_append, List.length_cons] at hf ⊢
    obtain ⟨g, l', sl, hg, hskl, hpl⟩ := hSl first tl' (top :: (tr0 :: tr' ++ rest)) f htl (by omega)
    obtain ⟨g', rfl⟩ := up_fuel_succ g (by omega)
    obtain ⟨r'', sr, hpr, hskr⟩ := hPr (tr0 :: tr') rest g' htr (by simp only [List.length_cons]; omega)
    have hopk : (top.kind = .plus ∨ top.kind = .minus) ∧
        (if top.kind = .plus then InfixOp.plus else InfixOp.minus) = op := by
      cases op
      · have := up_kw htop; simp [this]
      · have := up_kw htop; simp [this]
    refine ⟨g', .infix (rangeOf first sr) op l' r'', sr, by omega, by simp [Expr.skel, hskl, hskr], ?_⟩
    rw [List.append_assoc, List.cons_append, hpl]
    simp only [pInfixTail, hopk.1, hopk.2, ↓reduceIte, hpr]

theorem up_expr {e : Expr} (he : e.Printable) : up_ExprOk e :=
  up_spine_expr he (up_expr_all e he).2

/-! ### numbers in range, on the tree -/

theorem up_expr_nr : ∀ e : Expr, e.Printable → up_nr e.toks = true := by
  intro e
  induction e with
  | nil => intro h; exact absurd h (by simp [Expr.Printable])
  | monetaryNil => intro h; exact absurd h (by simp [Expr.Printable])
  | number r n => intro h; simp [Expr.toks, up_nr, up_numberTokenValue n h]
  | monetary r a b iha ihb =>
    intro h
    simp [Expr.toks, up_nr_append, up_nr_cons, up_nr_nil, kw, iha h.1, ihb h.2]
  | «infix» r op l r' ihl ihr =>
    intro h
    cases op <;> simp [Expr.toks, up_nr_append, up_nr_cons, up_nr_nil, kw, ihl h.1, ihr h.2.1]
  | _ => intro _; simp [Expr.toks, up_nr]

theorem up_allot_nr : ∀ a : AllotVal, a.Printable → up_nr a.toks = true := by
  intro a h
  cases a with
  | nil => exact absurd h (by simp [AllotVal.Printable])
  | remaining r => simp [AllotVal.toks, up_nr, kw]
  | portion e => 
    cases e <;> simp [AllotVal.Printable] at h <;> simp [AllotVal.toks, Expr.toks, up_nr]

mutual
theorem up_source_nr : ∀ s : Source, s.Printable → up_nr s.toks = true
  | .nil, h => absurd h (by simp [Source.Printable])
  | .account e, h => by simpa [Source.toks] using up_expr_nr e (by simpa [Source.Printable] using h)
  | .overdraft _ addr none, h => by
      simp only [Source.Printable] at h
      simp [Source.toks, up_nr_append, up_nr_cons, up_nr_nil, kw, up_expr_nr addr h]
  | .overdraft _ addr (some b), h => by
      simp only [Source.Printable] at h
      simp [Source.toks, up_nr_append, up_nr_cons, up_nr_nil, kw, up_expr_nr addr h.1, up_expr_nr b h.2]
  | .inorder _ srcs, h => by
      simp only [Source.Printable] at h
      simp [Source.toks, up_nr_append, up_nr_cons, up_nr_nil, kw, up_sources_nr srcs h]
  | .capped _ cap src, h => by
      simp only [Source.Printable] at h
      simp [Source.toks, up_nr_append, up_nr_cons, up_nr_nil, kw, up_expr_nr cap h.1, up_source_nr src h.2]
  | .allotment _ items, h => by
      simp only [Source.Printable] at h
      simp [Source.toks, up_nr_append, up_nr_cons, up_nr_nil, kw, up_srcItems_nr items h.2]
theorem up_sources_nr : ∀ ss : List Source, SourcesPrintable ss → up_nr (sourcesToks ss) = true
  | [], _ => by simp [sourcesToks, up_nr]
  | s :: ss, h => by
      simp only [SourcesPrintable] at h
      simp [sourcesToks, up_nr_append, up_source_nr s h.1, up_sources_nr ss h.2]
theorem up_srcItems_nr : ∀ is : List SrcItem, SrcItemsPrintable is → up_nr (srcItemsToks is) = true
  | [], _ => by simp [srcItemsToks, up_nr]
  | (.mk _ a src) :: rest, h => by
      simp only [SrcItemsPrintable] at h
      simp [srcItemsToks, up_nr_append, up_nr_cons, up_nr_nil, kw, up_allot_nr a h.1, up_source_nr src h.2.1, up_srcItems_nr rest h.2.2]
end

mutual
theorem up_dest_nr : ∀ d : Dest, d.Printable → up_nr d.toks = true
  | .nil, h => absurd h (by simp [Dest.Printable])
  | .account e, h => by simpa [Dest.toks] using up_expr_nr e (by simpa [Dest.Printable] using h)
  | .inorder _ cs k, h => by
      simp only [Dest.Printable] at h
      simp [Dest.toks, up_nr_append, up_nr_cons, up_nr_nil, kw, up_clauses_nr cs h.2.1, up_kod_nr k h.2.2]
  | .allotment _ items, h => by
      simp only [Dest.Printable] at h
      simp [Dest.toks, up_nr_append, up_nr_cons, up_nr_nil, kw, up_dstItems_nr items h.2]
theorem up_kod_nr : ∀ k : KoD, k.Printable → up_nr k.toks = true
  | .nil, h => absurd h (by simp [KoD.Printable])
  | .kept _, _ => by simp [KoD.toks, up_nr, kw]
  | .to d, h => by
      simp only [KoD.Printable] at h
      simp [KoD.toks, up_nr_cons, kw, up_dest_nr d h]
theorem up_clauses_nr : ∀ cs : List DestClause, ClausesPrintable cs → up_nr (clausesToks cs) = true
  | [], _ => by simp [clausesToks, up_nr]
  | (.mk _ cap k) :: rest, h => by
      simp only [ClausesPrintable] at h
      simp [clausesToks, up_nr_append, up_nr_cons, up_nr_nil, kw, up_expr_nr cap h.1, up_kod_nr k h.2.1,
        up_clauses_nr rest h.2.2]
theorem up_dstItems_nr : ∀ is : List DestItem, DstItemsPrintable is → up_nr (dstItemsToks is) = true
  | [], _ => by simp [dstItemsToks, up_nr]
  | (.mk _ a k) :: rest, h => by
      simp only [DstItemsPrintable] at h
      simp [dstItemsToks, up_nr_append, up_nr_cons, up_nr_nil, kw, up_allot_nr a h.1, up_kod_nr k h.2.1,
        up_dstItems_nr rest h.2.2]
end

theorem up_exprs_nr : ∀ es : List Expr, ExprsPrintable es → up_nr (exprsToks es) = true
  | [], _ => by simp [exprsToks, up_nr]
  | [e], h => by simpa [exprsToks] using up_expr_nr e h.1
  | e :: e2 :: es, h => by
      simp only [ExprsPrintable] at h
      have := up_exprs_nr (e2 :: es) (by simpa [ExprsPrintable] using h.2)
      simp [exprsToks, up_nr_append, up_nr_cons, kw, up_expr_nr e h.1] 
      simpa [exprsToks] using this

theorem up_fnNameTok_nr (n : String) : (fnNameTok n).1 ≠ .number := by
  unfold fnNameTok; split <;> simp

theorem up_fnCall_nr (c : FnCall) (h : c.Printable) : up_nr c.toks = true := by
  have := up_fnNameTok_nr c.name
  simp [FnCall.toks, up_nr_append, up_nr_cons, up_nr_nil, kw, this, up_exprs_nr c.args h]

theorem up_sentValue_nr (sv : SentValue) (h : sv.Printable) : up_nr sv.toks = true := by
  cases sv with
  | nil => exact absurd h (by simp [SentValue.Printable])
  | lit r m => simpa [SentValue.toks] using up_expr_nr m h
  | all r a =>
    simp only [SentValue.Printable] at h
    simp [SentValue.toks, up_nr_append, up_nr_cons, up_nr_nil, kw, up_expr_nr a h]

theorem up_statement_nr (s : Statement) (h : s.Printable) : up_nr s.toks = true := by
  cases s with
  | nil => exact absurd h (by simp [Statement.Printable])
  | fnCallNil => exact absurd h (by simp [Statement.Printable])
  | send r sv src dst =>
    simp only [Statement.Printable] at h
    simp [Statement.toks, up_nr_append, up_nr_cons, up_nr_nil, kw, up_sentValue_nr sv h.1,
      up_source_nr src h.2.1, up_dest_nr dst h.2.2]
  | save r sv e =>
    simp only [Statement.Printable] at h
    simp [Statement.toks, up_nr_append, up_nr_cons, up_nr_nil, kw, up_sentValue_nr sv h.1,
      up_expr_nr e h.2]
  | fnCall c => simpa [Statement.toks] using up_fnCall_nr c h

theorem up_varDecl_nr (d : VarDecl) (h : d.Printable) : up_nr d.toks = true := by
  obtain ⟨r, name, type, origin⟩ := d
  obtain ⟨h1, h2, h3⟩ := h
  cases name with
  | none => simp at h2
  | some nm =>
    cases type with
    | none => simp at h1
    | some ty =>
      cases origin with
      | none => simp [VarDecl.toks, up_nr]
      | some c =>
        have := up_fnCall_nr c (h3 c rfl)
        simp [VarDecl.toks, up_nr_cons, kw, this]

theorem up_flatMap_nr {α : Type} (tk : α → List Shape) : ∀ l : List α,
    (∀ x ∈ l, up_nr (tk x) = true) → up_nr (l.flatMap tk) = true
  | [], _ => by simp [up_nr]
  | x :: l, h => by
      simp [List.flatMap_cons, up_nr_append, h x (by simp), up_flatMap_nr tk l (fun y hy => h y (by simp [hy]))]

theorem up_program_nr (p : Program) (h : p.Printable) : up_nr p.toks = true := by
  have h1 := up_flatMap_nr VarDecl.toks p.vars (fun d hd => up_varDecl_nr d (h.1 d hd))
  have h2 := up_flatMap_nr Statement.toks p.stmts (fun s hs => up_statement_nr s (h.2 s hs))
  unfold Program.toks
  split <;> simp [up_nr_append, up_nr_cons, up_nr_nil, kw, h1, h2]

/-! ### generic helpers on heads -/

theorem up_head_map {ts : List Tok} {s : Shape} {tl : List Shape}
    (h : ts.map Tok.shape = s :: tl) (X : List Tok) :
    ∀ t, (ts ++ X).head? = some t → t.kind = s.1 := by
  obtain ⟨t0, ts', rfl, ht, _⟩ := List.map_eq_cons_iff.1 h
  intro t ht'
  simp at ht'
  subst ht'
  rw [← ht]; rfl

theorem up_expect_hit {k : TK} {t : Tok} (r : List Tok) (h : t.kind = k) :
    expect k (t :: r) = some (t, r) := by
  simp [expect, h]

theorem up_expect_miss {k : TK} {r : List Tok} (h : ∀ t, r.head? = some t → t.kind ≠ k) :
    expect k r = none := by
  cases r with
  | nil => rfl
  | cons t r => simp [expect, h t rfl]

/-! ### function calls -/

def up_argsTailToks : List Expr → List Shape
  | [] => []
  | e :: es => kw .comma "," :: e.toks ++ up_argsTailToks es

theorem up_exprsToks_cons : ∀ (e : Expr) (es : List Expr),
    exprsToks (e :: es) = e.toks ++ up_argsTailToks es
  | e, [] => by simp [exprsToks, up_argsTailToks]
  | e, e2 :: es => by
      have := up_exprsToks_cons e2 es
      simp only [exprsToks, up_argsTailToks]
      rw [this, List.cons_append]

theorem up_argsTail : ∀ (es : List Expr), ExprsPrintable es →
    ∀ (ts rest : List Tok) (f : Nat), ts.map Tok.shape = up_argsTailToks es →
    (∀ t, rest.head? = some t → t.kind ≠ .comma ∧ t.kind ≠ .plus ∧ t.kind ≠ .minus) →
    2 * ts.length + 2 ≤ f →
    ∃ es', pArgsTail f (ts ++ rest) = some (es', rest) ∧ es'.map Expr.skel = es.map Expr.skel
  | [], _, ts, rest, f, hts, hrest, hf => by
      simp only [up_argsTailToks, List.map_eq_nil_iff] at hts
      subst hts
      obtain ⟨f', rfl⟩ := up_fuel_succ f (by omega)
      simp only [List.nil_append, pArgsTail, up_expect_miss (fun t ht => (hrest t ht).1)]
      exact ⟨[], rfl, rfl⟩
  | e :: es, h, ts, rest, f, hts, hrest, hf => by
      simp only [ExprsPrintable] at h
      simp only [up_argsTailToks, List.cons_append] at hts
      obtain ⟨c, ts1, rfl, hc, h1⟩ := List.map_eq_cons_iff.1 hts
      obtain ⟨te, ts2, rfl, hte, h2⟩ := List.map_eq_append_iff.1 h1
      have hck := up_kw hc
      simp only [List.length_cons, List.length_append] at hf
      obtain ⟨f', rfl⟩ := up_fuel_succ f (by omega)
      have hstop : ∀ t, (ts2 ++ rest).head? = some t → t.kind ≠ .plus ∧ t.kind ≠ .minus := by
        cases es with
        | nil =>
          simp only [up_argsTailToks, List.map_eq_nil_iff] at h2
          subst h2
          intro t ht
          exact (hrest t ht).2
        | cons e2 es2 =>
          intro t ht
          have := up_head_map (by simpa [up_argsTailToks] using h2) rest t ht
          simp [this, kw]
      obtain ⟨e', se, hpe, hske⟩ := up_expr h.1 te (ts2 ++ rest) f' hte hstop (by omega)
      obtain ⟨es', hpa, hsks⟩ := up_argsTail es h.2 ts2 rest f' h2 hrest (by omega)
      simp only [List.cons_append, List.append_assoc, pArgsTail, up_expect_hit _ hck, hpe, hpa]
      exact ⟨_, rfl, by simp [hske, hsks]⟩

theorem up_fnNameTok {t : Tok} {n : String} (h : t.shape = fnNameTok n) :
    (t.kind = .ident ∨ t.kind = .kwOverdraft) ∧ t.text = n.toList := by
  unfold fnNameTok at h
  split at h
  · obtain ⟨h1, h2⟩ := up_shape h; exact ⟨Or.inr h1, h2⟩
  · obtain ⟨h1, h2⟩ := up_shape h; exact ⟨Or.inl h1, h2⟩

theorem up_fnCall (c : FnCall) (hc : c.Printable) (ts rest : List Tok) (f : Nat)
    (hts : ts.map Tok.shape = c.toks) (hf : 2 * ts.length + 2 ≤ f) :
    ∃ c' stop, pFnCall f (ts ++ rest) = some (c', stop, rest) ∧ c'.skel = c.skel := by
  obtain ⟨cr, ccr, name, args⟩ := c
  simp only [FnCall.toks, List.cons_append] at hts
  obtain ⟨nm, ts1, rfl, hnm, h1⟩ := List.map_eq_cons_iff.1 hts
  obtain ⟨lp, ts2, rfl, hlp, h2⟩ := List.map_eq_cons_iff.1 h1
  obtain ⟨targs, ts3, rfl, hargs, h3⟩ := List.map_eq_append_iff.1 h2
  obtain ⟨rp, rfl, hrp, _⟩ := up_single h3
  obtain ⟨hnk, hnt⟩ := up_fnNameTok hnm
  have hlk := up_kw hlp
  simp only [kw] at hrp
  simp only [List.length_cons, List.length_append, List.length_nil] at hf
  cases args with
  | nil =>
    simp only [exprsToks, List.map_eq_nil_iff] at hargs
    subst hargs
    simp only [List.cons_append, List.nil_append, pFnCall, hnk, hlk, and_self, ↓reduceIte,
      up_expect_hit _ hrp]
    exact ⟨_, _, rfl, by simp [FnCall.skel, tokString, hnt]⟩
  | cons e es =>
    have hp : e.Printable ∧ ExprsPrintable es := hc
    rw [up_exprsToks_cons] at hargs
    obtain ⟨te, ts4, rfl, hte, h4⟩ := List.map_eq_append_iff.1 hargs
    simp only [List.length_append] at hf
    have hmiss : expect .rparen ((te ++ ts4) ++ ([rp] ++ rest)) = none := by
      apply up_expect_miss
      intro t ht
      rw [List.append_assoc] at ht
      have := up_head_append hp.1 hte _ t ht
      revert this
      cases t.kind <;> simp [up_exprHead]
    have hstop : ∀ t, (ts4 ++ (rp :: rest)).head? = some t → t.kind ≠ .plus ∧ t.kind ≠ .minus := by
      cases es with
      | nil =>
        simp only [up_argsTailToks, List.map_eq_nil_iff] at h4
        subst h4
        intro t ht
        simp at ht; subst ht; simp [hrp]
      | cons e2 es2 =>
        intro t ht
        have := up_head_map (by simpa [up_argsTailToks] using h4) _ t ht
        simp [this, kw]
    obtain ⟨e', se, hpe, hske⟩ := up_expr hp.1 te (ts4 ++ (rp :: rest)) f hte hstop (by omega)
    obtain ⟨es', hpa, hsks⟩ := up_argsTail es hp.2 ts4 (rp :: rest) f h4
      (by intro t ht; simp at ht; subst ht; simp [hrp]) (by omega)
    simp only [List.cons_append, List.append_assoc, List.nil_append] at hmiss ⊢
    simp only [pFnCall, hnk, hlk, and_self, ↓reduceIte, hmiss, hpe, hpa, up_expect_hit _ hrp]
    exact ⟨_, _, rfl, by simp [FnCall.skel, tokString, hnt, hske, hsks]⟩

/-! ### allotment heads -/

theorem up_exprHead_facts {k : TK} (h : up_exprHead k = true) :
    isPrimaryStart k = true ∧ isSourceStart k = true ∧ k ≠ .lbrace ∧ k ≠ .kwMax ∧ k ≠ .kwFrom ∧
    k ≠ .rparen ∧ k ≠ .star ∧ k ≠ .plus ∧ k ≠ .minus ∧ k ≠ .kwAllowing ∧ k ≠ .rbrace ∧ k ≠ .eq := by
  revert h; cases k <;> decide

theorem up_sourceStart_facts {k : TK} (h : isSourceStart k = true) :
    k ≠ .kwFrom ∧ k ≠ .plus ∧ k ≠ .minus ∧ k ≠ .kwAllowing ∧ k ≠ .rbrace := by
  revert h; cases k <;> decide

theorem up_allotHead_facts {k : TK} (h : isAllotHead k = true) :
    k ≠ .kwMax ∧ k ≠ .plus ∧ k ≠ .minus ∧ k ≠ .kwAllowing ∧ k ≠ .rbrace ∧ k ≠ .lbrace := by
  revert h; cases k <;> decide

theorem up_allot (a : AllotVal) (h : a.Printable) {ts : List Tok}
    (hts : ts.map Tok.shape = a.toks) :
    ∃ t, ts = [t] ∧ isAllotHead t.kind = true ∧
      ∃ av, allotOfTok t = some av ∧ av.skel = a.skel := by
  cases a with
  | nil => exact absurd h (by simp [AllotVal.Printable])
  | remaining r =>
    obtain ⟨t, rfl, hk, _⟩ := up_single hts
    simp only [kw] at hk
    exact ⟨t, rfl, by rw [hk]; rfl, .remaining (rangeOf t t), by simp [allotOfTok, hk], rfl⟩
  | portion e =>
    cases e with
    | var r n =>
      obtain ⟨t, rfl, hk, htx⟩ := up_single hts
      simp only at hk htx
      refine ⟨t, rfl, by rw [hk]; rfl, .portion (.var (rangeOf t t) (tokString t.text.tail)),
        by simp [allotOfTok, hk], ?_⟩
      simp [AllotVal.skel, Expr.skel, htx, tokString]
    | ratio r n d =>
      obtain ⟨t, rfl, hk, htx⟩ := up_single hts
      simp only at hk htx
      have hv : portionExpr t = some (.ratio (rangeOf t t) n d) := by
        simp only [portionExpr, hk, htx, ↓reduceIte, up_ratioLiteral]
      refine ⟨t, rfl, by rw [hk]; rfl, .portion (.ratio (rangeOf t t) n d),
        by simp [allotOfTok, hk, hv], ?_⟩
      simp [AllotVal.skel, Expr.skel]
    | _ => exact absurd h (by simp [AllotVal.Printable])

theorem up_allot_shape (a : AllotVal) (h : a.Printable) :
    ∃ s, a.toks = [s] ∧ isAllotHead s.1 = true := by
  cases a with
  | nil => exact absurd h (by simp [AllotVal.Printable])
  | remaining r => exact ⟨_, rfl, rfl⟩
  | portion e =>
    cases e with
    | var r n => exact ⟨_, rfl, rfl⟩
    | ratio r n d => exact ⟨_, rfl, rfl⟩
    | _ => exact absurd h (by simp [AllotVal.Printable])

/-! ### sources: first tokens -/

theorem up_source_head (s : Source) (h : s.Printable) :
    ∃ a tl, s.toks = a :: tl ∧ isSourceStart a.1 = true := by
  cases s with
  | nil => exact absurd h (by simp [Source.Printable])
  | account e =>
    obtain ⟨a, tl, ha, hk⟩ := up_expr_head e (by simpa [Source.Printable] using h)
    exact ⟨a, tl, by simp [Source.toks, ha], (up_exprHead_facts hk).2.1⟩
  | overdraft r addr b =>
    cases b with
    | none =>
      obtain ⟨a, tl, ha, hk⟩ := up_expr_head addr (by simpa [Source.Printable] using h)
      exact ⟨a, _, by simp [Source.toks, ha]; rfl, (up_exprHead_facts hk).2.1⟩
    | some b =>
      simp only [Source.Printable] at h
      obtain ⟨a, tl, ha, hk⟩ := up_expr_head addr h.1
      exact ⟨a, _, by simp [Source.toks, ha]; rfl, (up_exprHead_facts hk).2.1⟩
  | inorder r srcs =>
    exact ⟨kw .lbrace "{", sourcesToks srcs ++ [kw .rbrace "}"], by simp [Source.toks], rfl⟩
  | capped r cap src =>
    exact ⟨kw .kwMax "max", cap.toks ++ kw .kwFrom "from" :: src.toks, by simp [Source.toks], rfl⟩
  | allotment r items =>
    exact ⟨kw .lbrace "{", srcItemsToks items ++ [kw .rbrace "}"], by simp [Source.toks], rfl⟩

theorem up_source_toks_head {s : Source} (hp : s.Printable) {ts : List Tok}
    (hts : ts.map Tok.shape = s.toks) :
    ∃ t ts', ts = t :: ts' ∧ isSourceStart t.kind = true := by
  obtain ⟨a, tl, ha, hk⟩ := up_source_head s hp
  rw [ha] at hts
  obtain ⟨t, ts', rfl, ht, _⟩ := List.map_eq_cons_iff.1 hts
  refine ⟨t, ts', rfl, ?_⟩
  have : t.kind = a.1 := by rw [← ht]; rfl
  rw [this]; exact hk

/-- the token list starts like an allotment: a head, then `from` -/
def up_allotStart (l : List Shape) : Prop :=
  ∃ a fr tl, l = a :: fr :: tl ∧ isAllotHead a.1 = true ∧ fr.1 = .kwFrom

theorem up_single_noAllotStart (s : Shape) (after : List Shape)
    (h : ∀ x, after.head? = some x → x.1 ≠ .kwFrom) : ¬ up_allotStart (s :: after) := by
  rintro ⟨a, fr, tl, heq, _, hfr⟩
  simp only [List.cons.injEq] at heq
  exact h fr (by rw [heq.2]; rfl) hfr

theorem up_head_noAllotStart (s : Shape) (l : List Shape) (h : isAllotHead s.1 = false) :
    ¬ up_allotStart (s :: l) := by
  rintro ⟨a, fr, tl, heq, ha, _⟩
  simp only [List.cons.injEq] at heq
  rw [← heq.1, h] at ha
  exact absurd ha (by decide)

theorem up_expr_noAllotStart : ∀ e : Expr, e.Printable → ∀ after : List Shape,
    (∀ x, after.head? = some x → x.1 ≠ .kwFrom) → ¬ up_allotStart (e.toks ++ after) := by
  intro e
  induction e with
  | nil => intro h; exact absurd h (by simp [Expr.Printable])
  | monetaryNil => intro h; exact absurd h (by simp [Expr.Printable])
  | monetary r a b _ _ =>
    intro _ after _
    simp only [Expr.toks, List.cons_append]
    exact up_head_noAllotStart _ _ rfl
  | «infix» r op l r' ihl _ =>
    intro h after _
    simp only [Expr.toks, List.append_assoc, List.cons_append, List.nil_append]
    apply ihl h.1
    intro x hx
    simp at hx
    subst hx
    cases op <;> simp [kw]
  | _ =>
    intro _ after hafter
    simp only [Expr.toks, List.cons_append, List.nil_append]
    exact up_single_noAllotStart _ _ hafter

theorem up_source_noAllotStart (s : Source) (h : s.Printable) (after : List Shape)
    (hafter : ∀ x, after.head? = some x → x.1 ≠ .kwFrom) : ¬ up_allotStart (s.toks ++ after) := by
  cases s with
  | nil => exact absurd h (by simp [Source.Printable])
  | account e =>
    simp only [Source.Printable] at h
    simpa [Source.toks] using up_expr_noAllotStart e h after hafter
  | overdraft r addr b =>
    cases b with
    | none =>
      simp only [Source.Printable] at h
      simp only [Source.toks, List.append_assoc]
      apply up_expr_noAllotStart addr h
      intro x hx; simp at hx; subst hx; simp [kw]
    | some b =>
      simp only [Source.Printable] at h
      simp only [Source.toks, List.append_assoc]
      apply up_expr_noAllotStart addr h.1
      intro x hx; simp at hx; subst hx; simp [kw]
  | inorder r srcs =>
    simp only [Source.toks, List.cons_append]
    exact up_head_noAllotStart _ _ rfl
  | capped r cap src =>
    simp only [Source.toks, List.cons_append]
    exact up_head_noAllotStart _ _ rfl
  | allotment r items =>
    simp only [Source.toks, List.cons_append]
    exact up_head_noAllotStart _ _ rfl

theorem up_sources_head_after (ss : List Source) (h : SourcesPrintable ss) (X : List Shape) :
    ∀ x, (sourcesToks ss ++ kw .rbrace "}" :: X).head? = some x →
      (isSourceStart x.1 = true ∨ x.1 = .rbrace) := by
  cases ss with
  | nil => intro x hx; simp [sourcesToks] at hx; subst hx; exact Or.inr rfl
  | cons s ss' =>
    simp only [SourcesPrintable] at h
    obtain ⟨a, tl, ha, hk⟩ := up_source_head s h.1
    intro x hx
    simp [sourcesToks, ha] at hx
    subst hx
    exact Or.inl hk

theorem up_sources_noAllotStart (ss : List Source) (h : SourcesPrintable ss) (X : List Shape) :
    ¬ up_allotStart (sourcesToks ss ++ kw .rbrace "}" :: X) := by
  cases ss with
  | nil =>
    simp only [sourcesToks, List.nil_append]
    exact up_head_noAllotStart _ _ rfl
  | cons s ss' =>
    simp only [SourcesPrintable] at h
    simp only [sourcesToks, List.append_assoc]
    apply up_source_noAllotStart s h.1
    intro x hx
    rcases up_sources_head_after ss' h.2 X x hx with h1 | h1
    · exact (up_sourceStart_facts h1).1
    · rw [h1]; decide

theorem up_srcItems_allotStart (items : List SrcItem) (hne : items ≠ [])
    (h : SrcItemsPrintable items) (X : List Shape) : up_allotStart (srcItemsToks items ++ X) := by
  cases items with
  | nil => exact absurd rfl hne
  | cons it its =>
    obtain ⟨r, a, src⟩ := it
    simp only [SrcItemsPrintable] at h
    obtain ⟨s, hs, hk⟩ := up_allot_shape a h.1
    exact ⟨s, kw .kwFrom "from", _, by simp [srcItemsToks, hs]; rfl, hk, rfl⟩

theorem up_srcItems_toks_head {items : List SrcItem} (hne : items ≠ [])
    (h : SrcItemsPrintable items) {ts : List Tok} (hts : ts.map Tok.shape = srcItemsToks items) :
    ∃ t ts', ts = t :: ts' ∧ isAllotHead t.kind = true := by
  obtain ⟨a, fr, tl, heq, hk, _⟩ := up_srcItems_allotStart items hne h []
  rw [List.append_nil] at heq
  rw [heq] at hts
  obtain ⟨t, ts', rfl, ht, _⟩ := List.map_eq_cons_iff.1 hts
  refine ⟨t, ts', rfl, ?_⟩
  have : t.kind = a.1 := by rw [← ht]; rfl
  rw [this]; exact hk

theorem up_pSource_inorder (f : Nat) (t : Tok) (rest : List Tok) (hk : t.kind = .lbrace)
    (h : ¬ up_allotStart (rest.map Tok.shape)) :
    pSource (f + 1) (t :: rest) = pSrcInorder f t rest := by
  simp only [pSource, hk, ↓reduceIte]
  cases rest with
  | nil => rfl
  | cons a r =>
    cases r with
    | nil => rfl
    | cons fr r' =>
      have : ¬ (isAllotHead a.kind = true ∧ fr.kind = .kwFrom) :=
        fun hc => h ⟨a.shape, fr.shape, _, rfl, hc.1, hc.2⟩
      simp only [this, ↓reduceIte]

theorem up_pSource_allot (f : Nat) (t : Tok) (rest : List Tok) (hk : t.kind = .lbrace)
    (h : up_allotStart (rest.map Tok.shape)) :
    pSource (f + 1) (t :: rest) =
      match pSrcItems f rest with
      | some (items, r1) =>
          match expect .rbrace r1 with
          | some (rb, r2) => some (.allotment (rangeOf t rb) items, rb, r2)
          | none => none
      | none => none := by
  obtain ⟨a, fr, tl, heq, ha, hfr⟩ := h
  obtain ⟨ta, r1, rfl, hta, h1⟩ := List.map_eq_cons_iff.1 heq
  obtain ⟨tf, r2, rfl, htf, _⟩ := List.map_eq_cons_iff.1 h1
  have hak : isAllotHead ta.kind = true := by
    have : ta.kind = a.1 := by rw [← hta]; rfl
    rw [this]; exact ha
  have hfk : tf.kind = .kwFrom := by
    have : tf.kind = fr.1 := by rw [← htf]; rfl
    rw [this]; exact hfr
  simp only [pSource, hk, ↓reduceIte, hak, hfk, and_self]
  cases pSrcItems f (ta :: tf :: r2) with
  | none => rfl
  | some x =>
    obtain ⟨items, r1⟩ := x
    simp only []
    cases expect .rbrace r1 with
    | none => rfl
    | some y => rfl

/-! ### sources -/

def up_stopE (rest : List Tok) : Prop :=
  ∀ t, rest.head? = some t → t.kind ≠ .plus ∧ t.kind ≠ .minus

def up_stopS (rest : List Tok) : Prop :=
  ∀ t, rest.head? = some t → t.kind ≠ .plus ∧ t.kind ≠ .minus ∧ t.kind ≠ .kwAllowing

theorem up_stopE_cons {t : Tok} (r : List Tok) (h : t.kind ≠ .plus ∧ t.kind ≠ .minus) :
    up_stopE (t :: r) := by
  intro x hx; simp at hx; subst hx; exact h

theorem up_stopS_cons {t : Tok} (r : List Tok)
    (h : t.kind ≠ .plus ∧ t.kind ≠ .minus ∧ t.kind ≠ .kwAllowing) : up_stopS (t :: r) := by
  intro x hx; simp at hx; subst hx; exact h

theorem up_stopS_E {rest : List Tok} (h : up_stopS rest) : up_stopE rest :=
  fun t ht => ⟨(h t ht).1, (h t ht).2.1⟩

theorem up_sources_stopS {ss : List Source} (h : SourcesPrintable ss) {ts : List Tok}
    (hts : ts.map Tok.shape = sourcesToks ss) {rb : Tok} (hrb : rb.kind = .rbrace)
    (rest : List Tok) : up_stopS (ts ++ rb :: rest) := by
  cases ss with
  | nil =>
    simp only [sourcesToks, List.map_eq_nil_iff] at hts
    subst hts
    exact up_stopS_cons _ (by simp [hrb])
  | cons s ss' =>
    simp only [SourcesPrintable] at h
    simp only [sourcesToks] at hts
    obtain ⟨t1, t2, rfl, h1, h2⟩ := List.map_eq_append_iff.1 hts
    obtain ⟨t, t1', rfl, hk⟩ := up_source_toks_head h.1 h1
    have := up_sourceStart_facts hk
    exact up_stopS_cons _ ⟨this.2.1, this.2.2.1, this.2.2.2.1⟩

theorem up_srcItems_stopS {items : List SrcItem} (h : SrcItemsPrintable items) {ts : List Tok}
    (hts : ts.map Tok.shape = srcItemsToks items) {rb : Tok} (hrb : rb.kind = .rbrace)
    (rest : List Tok) : up_stopS (ts ++ rb :: rest) := by
  cases items with
  | nil =>
    simp only [srcItemsToks, List.map_eq_nil_iff] at hts
    subst hts
    exact up_stopS_cons _ (by simp [hrb])
  | cons it its =>
    obtain ⟨t, ts', rfl, hk⟩ := up_srcItems_toks_head (by simp) h hts
    have := up_allotHead_facts hk
    exact up_stopS_cons _ ⟨this.2.1, this.2.2.1, this.2.2.2.1⟩

theorem up_source_all : ∀ f : Nat,
    (∀ s : Source, s.Printable → ∀ ts rest : List Tok, ts.map Tok.shape = s.toks → up_stopS rest →
      2 * ts.length + 3 ≤ f →
      ∃ s' stop, pSource f (ts ++ rest) = some (s', stop, rest) ∧ s'.skel = s.skel) ∧
    (∀ ss : List Source, SourcesPrintable ss → ∀ (lb : Tok) (ts : List Tok) (rb : Tok)
      (rest : List Tok), ts.map Tok.shape = sourcesToks ss → rb.kind = .rbrace →
      2 * ts.length + 5 ≤ f →
      ∃ ss', pSrcInorder f lb (ts ++ rb :: rest) = some (.inorder (rangeOf lb rb) ss', rb, rest) ∧
        sourcesSkel ss' = sourcesSkel ss) ∧
    (∀ ss : List Source, SourcesPrintable ss → ∀ (ts : List Tok) (rb : Tok) (rest : List Tok),
      ts.map Tok.shape = sourcesToks ss → rb.kind = .rbrace → 2 * ts.length + 4 ≤ f →
      ∃ ss', pSources f (ts ++ rb :: rest) = some (ss', rb :: rest) ∧
        sourcesSkel ss' = sourcesSkel ss) ∧
    (∀ items : List SrcItem, items ≠ [] → SrcItemsPrintable items →
      ∀ (ts : List Tok) (rb : Tok) (rest : List Tok),
      ts.map Tok.shape = srcItemsToks items → rb.kind = .rbrace → 2 * ts.length + 3 ≤ f →
      ∃ items', pSrcItems f (ts ++ rb :: rest) = some (items', rb :: rest) ∧
        srcItemsSkel items' = srcItemsSkel items) := by
  intro f
  induction f with
  | zero =>
    refine ⟨?_, ?_, ?_, ?_⟩
    · intro s _ ts rest _ _ hf; omega
    · intro ss _ lb ts rb rest _ _ hf; omega
    · intro ss _ ts rb rest _ _ hf; omega
    · intro items _ _ ts rb rest _ _ hf; omega
  | succ f ih =>
    obtain ⟨ihS, ihI, ihSs, ihIt⟩ := ih
    refine ⟨?_, ?_, ?_, ?_⟩
    · -- pSource
      intro s hp ts rest hts hrest hf
      cases s with
      | nil => exact absurd hp (by simp [Source.Printable])
      | account e =>
        simp only [Source.Printable] at hp
        simp only [Source.toks] at hts
        obtain ⟨t, ts', rfl, hh⟩ := up_toks_head hp hts
        obtain ⟨e', se, hpe, hske⟩ := up_expr hp (t :: ts') rest f hts (up_stopS_E hrest) (by omega)
        have hnb := up_exprHead_facts hh
        simp only [List.cons_append] at hpe ⊢
        simp only [pSource, hnb.2.2.1, hnb.2.2.2.1, ↓reduceIte, hpe,
          up_expect_miss (fun x hx => (hrest x hx).2.2)]
        exact ⟨_, _, rfl, by simp [Source.skel, hske]⟩
      | overdraft r addr b =>
        cases b with
        | none =>
          simp only [Source.Printable] at hp
          simp only [Source.toks] at hts
          obtain ⟨ta, ts2, rfl, hta, h2⟩ := List.map_eq_append_iff.1 hts
          obtain ⟨al, ts3, rfl, hal, h3⟩ := List.map_eq_cons_iff.1 h2
          obtain ⟨un, ts4, rfl, hun, h4⟩ := List.map_eq_cons_iff.1 h3
          obtain ⟨ov, rfl, hov, _⟩ := up_single h4
          have halk := up_kw hal
          have hunk := up_kw hun
          simp only [kw] at hov
          simp only [List.length_append, List.length_cons, List.length_nil] at hf
          obtain ⟨e', se, hpe, hske⟩ := up_expr hp ta (al :: un :: ov :: rest) f hta
            (up_stopE_cons _ (by simp [halk])) (by omega)
          obtain ⟨t, ta', rfl, hh⟩ := up_toks_head hp hta
          have hnb := up_exprHead_facts hh
          simp only [List.cons_append, List.append_assoc, List.nil_append] at hpe ⊢
          simp only [pSource, hnb.2.2.1, hnb.2.2.2.1, ↓reduceIte, hpe, up_expect_hit _ halk,
            hunk, hov, and_self]
          exact ⟨_, _, rfl, by simp [Source.skel, hske]⟩
        | some b =>
          simp only [Source.Printable] at hp
          simp only [Source.toks, List.append_assoc, List.cons_append, List.nil_append] at hts
          obtain ⟨ta, ts2, rfl, hta, h2⟩ := List.map_eq_append_iff.1 hts
          obtain ⟨al, ts3, rfl, hal, h3⟩ := List.map_eq_cons_iff.1 h2
          obtain ⟨ov, ts4, rfl, hov, h4⟩ := List.map_eq_cons_iff.1 h3
          obtain ⟨up, ts5, rfl, hup, h5⟩ := List.map_eq_cons_iff.1 h4
          obtain ⟨tt, tb, rfl, htt, htb⟩ := List.map_eq_cons_iff.1 h5
          have halk := up_kw hal
          have hovk := up_kw hov
          have hupk := up_kw hup
          have httk := up_kw htt
          simp only [List.length_append, List.length_cons] at hf
          obtain ⟨e', se, hpe, hske⟩ := up_expr hp.1 ta (al :: ov :: up :: tt :: (tb ++ rest)) f hta
            (up_stopE_cons _ (by simp [halk])) (by omega)
          obtain ⟨b', sb, hpb, hskb⟩ := up_expr hp.2 tb rest f htb (up_stopS_E hrest) (by omega)
          obtain ⟨t, ta', rfl, hh⟩ := up_toks_head hp.1 hta
          have hnb := up_exprHead_facts hh
          simp only [List.cons_append, List.append_assoc, List.nil_append] at hpe ⊢
          simp only [pSource, hnb.2.2.1, hnb.2.2.2.1, ↓reduceIte, hpe, up_expect_hit _ halk,
            hovk, reduceCtorEq, false_and, up_expect_hit _ hupk, up_expect_hit _ httk, hpb]
          exact ⟨_, _, rfl, by simp [Source.skel, hske, hskb]⟩
      | inorder r srcs =>
        simp only [Source.Printable] at hp
        simp only [Source.toks, List.cons_append] at hts
        obtain ⟨lb, ts1, rfl, hlb, h1⟩ := List.map_eq_cons_iff.1 hts
        obtain ⟨tss, ts2, rfl, htss, h2⟩ := List.map_eq_append_iff.1 h1
        obtain ⟨rb, rfl, hrb, _⟩ := up_single h2
        have hlk := up_kw hlb
        simp only [kw] at hrb
        simp only [List.length_append, List.length_cons, List.length_nil] at hf
        obtain ⟨ss', hpi, hsk⟩ := ihI srcs hp lb tss rb rest htss hrb (by omega)
        have hno : ¬ up_allotStart ((tss ++ rb :: rest).map Tok.shape) := by
          rw [List.map_append, htss, List.map_cons]
          have : rb.shape = kw .rbrace "}" := by
            have := up_single h2
            simpa using h2
          rw [this]
          exact up_sources_noAllotStart srcs hp _
        simp only [List.cons_append, List.append_assoc, List.nil_append]
        rw [up_pSource_inorder f lb _ hlk hno, hpi]
        exact ⟨_, _, rfl, by simp [Source.skel, hsk]⟩
      | capped r cap src =>
        simp only [Source.Printable] at hp
        simp only [Source.toks, List.cons_append] at hts
        obtain ⟨mx, ts1, rfl, hmx, h1⟩ := List.map_eq_cons_iff.1 hts
        obtain ⟨tc, ts2, rfl, htc, h2⟩ := List.map_eq_append_iff.1 h1
        obtain ⟨fr, tsrc, rfl, hfr, hsrc⟩ := List.map_eq_cons_iff.1 h2
        have hmk := up_kw hmx
        have hfk := up_kw hfr
        simp only [List.length_append, List.length_cons] at hf
        obtain ⟨c', sc, hpc, hskc⟩ := up_expr hp.1 tc (fr :: (tsrc ++ rest)) f htc
          (up_stopE_cons _ (by simp [hfk])) (by omega)
        obtain ⟨s', ss, hps, hsks⟩ := ihS src hp.2 tsrc rest hsrc hrest (by omega)
        simp only [List.cons_append, List.append_assoc, List.nil_append] at hpc ⊢
        simp only [pSource, hmk, reduceCtorEq, ↓reduceIte, hpc, up_expect_hit _ hfk, hps]
        exact ⟨_, _, rfl, by simp [Source.skel, hskc, hsks]⟩
      | allotment r items =>
        simp only [Source.Printable] at hp
        simp only [Source.toks, List.cons_append] at hts
        obtain ⟨lb, ts1, rfl, hlb, h1⟩ := List.map_eq_cons_iff.1 hts
        obtain ⟨tis, ts2, rfl, htis, h2⟩ := List.map_eq_append_iff.1 h1
        obtain ⟨rb, rfl, hrb, _⟩ := up_single h2
        have hlk := up_kw hlb
        simp only [kw] at hrb
        simp only [List.length_append, List.length_cons, List.length_nil] at hf
        obtain ⟨is', hpi, hsk⟩ := ihIt items hp.1 hp.2 tis rb rest htis hrb (by omega)
        have hyes : up_allotStart ((tis ++ rb :: rest).map Tok.shape) := by
          rw [List.map_append, htis]
          exact up_srcItems_allotStart items hp.1 hp.2 _
        simp only [List.cons_append, List.append_assoc, List.nil_append]
        rw [up_pSource_allot f lb _ hlk hyes, hpi]
        simp only [up_expect_hit _ hrb]
        exact ⟨_, _, rfl, by simp [Source.skel, hsk]⟩
    · -- pSrcInorder
      intro ss hp lb ts rb rest hts hrb hf
      obtain ⟨ss', hps, hsk⟩ := ihSs ss hp ts rb rest hts hrb (by omega)
      simp only [pSrcInorder, hps, up_expect_hit _ hrb]
      exact ⟨_, rfl, hsk⟩
    · -- pSources
      intro ss hp ts rb rest hts hrb hf
      cases ss with
      | nil =>
        simp only [sourcesToks, List.map_eq_nil_iff] at hts
        subst hts
        have : isSourceStart rb.kind = false := by rw [hrb]; rfl
        simp only [List.nil_append, pSources, this, Bool.false_eq_true, ↓reduceIte]
        exact ⟨_, rfl, rfl⟩
      | cons s ss' =>
        simp only [SourcesPrintable] at hp
        simp only [sourcesToks] at hts
        obtain ⟨t1, t2, rfl, h1, h2⟩ := List.map_eq_append_iff.1 hts
        simp only [List.length_append] at hf
        obtain ⟨t, t1', rfl, hk⟩ := up_source_toks_head hp.1 h1
        simp only [List.length_cons] at hf
        obtain ⟨s', st, hps, hsks⟩ := ihS s hp.1 (t :: t1') (t2 ++ rb :: rest) h1
          (up_sources_stopS hp.2 h2 hrb rest) (by simp only [List.length_cons]; omega)
        obtain ⟨ss'', hpss, hskss⟩ := ihSs ss' hp.2 t2 rb rest h2 hrb (by omega)
        simp only [List.cons_append, List.append_assoc] at hps ⊢
        simp only [pSources, hk, ↓reduceIte, hps, hpss]
        exact ⟨_, rfl, by simp [sourcesSkel, hsks, hskss]⟩
    · -- pSrcItems
      intro items hne hp ts rb rest hts hrb hf
      cases items with
      | nil => exact absurd rfl hne
      | cons it its =>
        obtain ⟨r, a, src⟩ := it
        simp only [SrcItemsPrintable] at hp
        simp only [srcItemsToks, List.append_assoc, List.cons_append] at hts
        obtain ⟨ta, ts2, rfl, hta, h2⟩ := List.map_eq_append_iff.1 hts
        obtain ⟨fr, ts3, rfl, hfr, h3⟩ := List.map_eq_cons_iff.1 h2
        obtain ⟨tsrc, tits, rfl, hsrc, hits⟩ := List.map_eq_append_iff.1 h3
        obtain ⟨ta0, rfl, hak, av, hav, hska⟩ := up_allot a hp.1 hta
        have hfk := up_kw hfr
        simp only [List.length_append, List.length_cons, List.length_nil] at hf
        obtain ⟨s', st, hps, hsks⟩ := ihS src hp.2.1 tsrc (tits ++ rb :: rest) hsrc
          (up_srcItems_stopS hp.2.2 hits hrb rest) (by omega)
        cases its with
        | nil =>
          simp only [srcItemsToks, List.map_eq_nil_iff] at hits
          subst hits
          have hnb : isAllotHead rb.kind = false := by rw [hrb]; rfl
          simp only [List.cons_append, List.append_assoc, List.nil_append] at hps ⊢
          simp only [pSrcItems, hav, up_expect_hit _ hfk, hps, hnb, Bool.false_eq_true, ↓reduceIte]
          exact ⟨_, rfl, by simp [srcItemsSkel, hska, hsks]⟩
        | cons it2 its2 =>
          obtain ⟨is', hpi, hski⟩ := ihIt (it2 :: its2) (by simp) hp.2.2 tits rb rest hits hrb
            (by omega)
          obtain ⟨a2, tits', rfl, hk2⟩ := up_srcItems_toks_head (by simp) hp.2.2 hits
          simp only [List.cons_append, List.append_assoc, List.nil_append] at hps hpi ⊢
          simp only [pSrcItems, hav, up_expect_hit _ hfk, hps, hk2, ↓reduceIte, hpi]
          exact ⟨_, rfl, by simp [srcItemsSkel, hska, hsks, hski]⟩

/-! ### destinations -/

theorem up_kod_toks_head {k : KoD} (hp : k.Printable) {ts : List Tok}
    (hts : ts.map Tok.shape = k.toks) :
    ∃ t ts', ts = t :: ts' ∧ (t.kind = .kwKept ∨ t.kind = .kwTo) := by
  cases k with
  | nil => exact absurd hp (by simp [KoD.Printable])
  | kept r =>
    simp only [KoD.toks] at hts
    obtain ⟨t, ts', rfl, ht, _⟩ := List.map_eq_cons_iff.1 hts
    exact ⟨t, ts', rfl, Or.inl (up_kw ht)⟩
  | «to» d =>
    simp only [KoD.toks] at hts
    obtain ⟨t, ts', rfl, ht, _⟩ := List.map_eq_cons_iff.1 hts
    exact ⟨t, ts', rfl, Or.inr (up_kw ht)⟩

theorem up_kod_stopE {k : KoD} (hp : k.Printable) {ts : List Tok}
    (hts : ts.map Tok.shape = k.toks) (X : List Tok) : up_stopE (ts ++ X) := by
  obtain ⟨t, ts', rfl, hk⟩ := up_kod_toks_head hp hts
  rcases hk with hk | hk <;> exact up_stopE_cons _ (by simp [hk])

theorem up_clauses_toks_head {cs : List DestClause} (hne : cs ≠ []) {ts : List Tok}
    (hts : ts.map Tok.shape = clausesToks cs) :
    ∃ t ts', ts = t :: ts' ∧ t.kind = .kwMax := by
  cases cs with
  | nil => exact absurd rfl hne
  | cons c cs' =>
    obtain ⟨r, cap, k⟩ := c
    simp only [clausesToks, List.cons_append] at hts
    obtain ⟨t, ts', rfl, ht, _⟩ := List.map_eq_cons_iff.1 hts
    exact ⟨t, ts', rfl, up_kw ht⟩

theorem up_clauses_stopE {cs : List DestClause} {ts : List Tok}
    (hts : ts.map Tok.shape = clausesToks cs) {rm : Tok} (hrm : rm.kind = .kwRemaining)
    (rest : List Tok) : up_stopE (ts ++ rm :: rest) := by
  cases cs with
  | nil =>
    simp only [clausesToks, List.map_eq_nil_iff] at hts
    subst hts
    exact up_stopE_cons _ (by simp [hrm])
  | cons c cs' =>
    obtain ⟨t, ts', rfl, hk⟩ := up_clauses_toks_head (by simp) hts
    exact up_stopE_cons _ (by simp [hk])

theorem up_dstItems_toks_head {items : List DestItem} (hne : items ≠ [])
    (h : DstItemsPrintable items) {ts : List Tok} (hts : ts.map Tok.shape = dstItemsToks items) :
    ∃ t ts', ts = t :: ts' ∧ isAllotHead t.kind = true := by
  cases items with
  | nil => exact absurd rfl hne
  | cons it its =>
    obtain ⟨r, a, k⟩ := it
    simp only [DstItemsPrintable] at h
    obtain ⟨s, hs, hk⟩ := up_allot_shape a h.1
    simp only [dstItemsToks, hs, List.cons_append, List.nil_append] at hts
    obtain ⟨t, ts', rfl, ht, _⟩ := List.map_eq_cons_iff.1 hts
    refine ⟨t, ts', rfl, ?_⟩
    have : t.kind = s.1 := by rw [← ht]; rfl
    rw [this]; exact hk

theorem up_dstItems_stopE {items : List DestItem} (h : DstItemsPrintable items) {ts : List Tok}
    (hts : ts.map Tok.shape = dstItemsToks items) {rb : Tok} (hrb : rb.kind = .rbrace)
    (rest : List Tok) : up_stopE (ts ++ rb :: rest) := by
  cases items with
  | nil =>
    simp only [dstItemsToks, List.map_eq_nil_iff] at hts
    subst hts
    exact up_stopE_cons _ (by simp [hrb])
  | cons it its =>
    obtain ⟨t, ts', rfl, hk⟩ := up_dstItems_toks_head (by simp) h hts
    have := up_allotHead_facts hk
    exact up_stopE_cons _ ⟨this.2.1, this.2.2.1⟩

theorem up_dest_all : ∀ f : Nat,
    (∀ d : Dest, d.Printable → ∀ ts rest : List Tok, ts.map Tok.shape = d.toks → up_stopE rest →
      2 * ts.length + 3 ≤ f →
      ∃ d' stop, pDest f (ts ++ rest) = some (d', stop, rest) ∧ d'.skel = d.skel) ∧
    (∀ k : KoD, k.Printable → ∀ ts rest : List Tok, ts.map Tok.shape = k.toks → up_stopE rest →
      2 * ts.length + 3 ≤ f →
      ∃ k' stop, pKoD f (ts ++ rest) = some (k', stop, rest) ∧ k'.skel = k.skel) ∧
    (∀ cs : List DestClause, ClausesPrintable cs → ∀ (ts : List Tok) (rm : Tok) (rest : List Tok),
      ts.map Tok.shape = clausesToks cs → rm.kind = .kwRemaining → 2 * ts.length + 3 ≤ f →
      ∃ cs', pClauses f (ts ++ rm :: rest) = some (cs', rm :: rest) ∧
        clausesSkel cs' = clausesSkel cs) ∧
    (∀ items : List DestItem, items ≠ [] → DstItemsPrintable items →
      ∀ (ts : List Tok) (rb : Tok) (rest : List Tok),
      ts.map Tok.shape = dstItemsToks items → rb.kind = .rbrace → 2 * ts.length + 3 ≤ f →
      ∃ items', pDstItems f (ts ++ rb :: rest) = some (items', rb :: rest) ∧
        dstItemsSkel items' = dstItemsSkel items) := by
  intro f
  induction f with
  | zero =>
    refine ⟨?_, ?_, ?_, ?_⟩
    · intro d _ ts rest _ _ hf; omega
    · intro k _ ts rest _ _ hf; omega
    · intro cs _ ts rm rest _ _ hf; omega
    · intro items _ _ ts rb rest _ _ hf; omega
  | succ f ih =>
    obtain ⟨ihD, ihK, ihC, ihIt⟩ := ih
    refine ⟨?_, ?_, ?_, ?_⟩
    · -- pDest
      intro d hp ts rest hts hrest hf
      cases d with
      | nil => exact absurd hp (by simp [Dest.Printable])
      | account e =>
        simp only [Dest.Printable] at hp
        simp only [Dest.toks] at hts
        obtain ⟨t, ts', rfl, hh⟩ := up_toks_head hp hts
        obtain ⟨e', se, hpe, hske⟩ := up_expr hp (t :: ts') rest f hts hrest (by omega)
        have hnb := up_exprHead_facts hh
        simp only [List.cons_append] at hpe ⊢
        simp only [pDest, hnb.2.2.1, ↓reduceIte, hpe]
        exact ⟨_, _, rfl, by simp [Dest.skel, hske]⟩
      | inorder r cs k =>
        simp only [Dest.Printable] at hp
        simp only [Dest.toks, List.cons_append, List.append_assoc] at hts
        obtain ⟨lb, ts1, rfl, hlb, h1⟩ := List.map_eq_cons_iff.1 hts
        obtain ⟨tcs, ts2, rfl, htcs, h2⟩ := List.map_eq_append_iff.1 h1
        obtain ⟨rm, ts3, rfl, hrm, h3⟩ := List.map_eq_cons_iff.1 h2
        obtain ⟨tk, ts4, rfl, htk, h4⟩ := List.map_eq_append_iff.1 h3
        obtain ⟨rb, rfl, hrb, _⟩ := up_single h4
        have hlk := up_kw hlb
        have hrmk := up_kw hrm
        simp only [kw] at hrb
        simp only [List.length_append, List.length_cons, List.length_nil] at hf
        obtain ⟨cs', hpc, hskc⟩ := ihC cs hp.2.1 tcs rm (tk ++ rb :: rest) htcs hrmk (by omega)
        obtain ⟨k', sk, hpk, hskk⟩ := ihK k hp.2.2 tk (rb :: rest) htk
          (up_stopE_cons _ (by simp [hrb])) (by omega)
        obtain ⟨mx, tcs', rfl, hmk⟩ := up_clauses_toks_head hp.1 htcs
        simp only [List.cons_append, List.append_assoc, List.nil_append] at hpc ⊢
        simp only [pDest, hlk, ↓reduceIte, hmk, hpc, up_expect_hit _ hrmk, hpk,
          up_expect_hit _ hrb]
        exact ⟨_, _, rfl, by simp [Dest.skel, hskc, hskk]⟩
      | allotment r items =>
        simp only [Dest.Printable] at hp
        simp only [Dest.toks, List.cons_append] at hts
        obtain ⟨lb, ts1, rfl, hlb, h1⟩ := List.map_eq_cons_iff.1 hts
        obtain ⟨tis, ts2, rfl, htis, h2⟩ := List.map_eq_append_iff.1 h1
        obtain ⟨rb, rfl, hrb, _⟩ := up_single h2
        have hlk := up_kw hlb
        simp only [kw] at hrb
        simp only [List.length_append, List.length_cons, List.length_nil] at hf
        obtain ⟨is', hpi, hsk⟩ := ihIt items hp.1 hp.2 tis rb rest htis hrb (by omega)
        obtain ⟨a, tis', rfl, hak⟩ := up_dstItems_toks_head hp.1 hp.2 htis
        have hnm := (up_allotHead_facts hak).1
        simp only [List.cons_append, List.append_assoc, List.nil_append] at hpi ⊢
        simp only [pDest, hlk, ↓reduceIte, hnm, hak, hpi, up_expect_hit _ hrb]
        exact ⟨_, _, rfl, by simp [Dest.skel, hsk]⟩
    · -- pKoD
      intro k hp ts rest hts hrest hf
      cases k with
      | nil => exact absurd hp (by simp [KoD.Printable])
      | kept r =>
        obtain ⟨t, rfl, hk, _⟩ := up_single hts
        simp only [kw] at hk
        simp only [List.cons_append, List.nil_append, pKoD, hk, ↓reduceIte]
        exact ⟨_, _, rfl, rfl⟩
      | «to» d =>
        simp only [KoD.Printable] at hp
        simp only [KoD.toks] at hts
        obtain ⟨tt, td, rfl, htt, htd⟩ := List.map_eq_cons_iff.1 hts
        have httk := up_kw htt
        simp only [List.length_cons] at hf
        obtain ⟨d', sd, hpd, hskd⟩ := ihD d hp td rest htd hrest (by omega)
        simp only [List.cons_append, pKoD, httk, reduceCtorEq, ↓reduceIte, hpd]
        exact ⟨_, _, rfl, by simp [KoD.skel, hskd]⟩
    · -- pClauses
      intro cs hp ts rm rest hts hrm hf
      cases cs with
      | nil =>
        simp only [clausesToks, List.map_eq_nil_iff] at hts
        subst hts
        simp only [List.nil_append, pClauses, hrm, reduceCtorEq, ↓reduceIte]
        exact ⟨_, rfl, rfl⟩
      | cons c cs' =>
        obtain ⟨r, cap, k⟩ := c
        simp only [ClausesPrintable] at hp
        simp only [clausesToks, List.cons_append, List.append_assoc] at hts
        obtain ⟨mx, ts1, rfl, hmx, h1⟩ := List.map_eq_cons_iff.1 hts
        obtain ⟨tcap, ts2, rfl, htcap, h2⟩ := List.map_eq_append_iff.1 h1
        obtain ⟨tk, tcs, rfl, htk, htcs⟩ := List.map_eq_append_iff.1 h2
        have hmk := up_kw hmx
        simp only [List.length_append, List.length_cons] at hf
        obtain ⟨kt, tk', hkeq, _⟩ := up_kod_toks_head hp.2.1 htk
        have hklen : 1 ≤ tk.length := by rw [hkeq]; simp
        obtain ⟨c', sc, hpc, hskc⟩ := up_expr hp.1 tcap (tk ++ (tcs ++ rm :: rest)) f htcap
          (up_kod_stopE hp.2.1 htk _) (by omega)
        obtain ⟨k', sk, hpk, hskk⟩ := ihK k hp.2.1 tk (tcs ++ rm :: rest) htk
          (up_clauses_stopE htcs hrm rest) (by omega)
        obtain ⟨cs'', hpcs, hskcs⟩ := ihC cs' hp.2.2 tcs rm rest htcs hrm (by omega)
        simp only [List.cons_append, List.append_assoc, List.nil_append] at hpc ⊢
        simp only [pClauses, hmk, ↓reduceIte, hpc, hpk, hpcs]
        exact ⟨_, rfl, by simp [clausesSkel, hskc, hskk, hskcs]⟩
    · -- pDstItems
      intro items hne hp ts rb rest hts hrb hf
      cases items with
      | nil => exact absurd rfl hne
      | cons it its =>
        obtain ⟨r, a, k⟩ := it
        simp only [DstItemsPrintable] at hp
        simp only [dstItemsToks, List.append_assoc] at hts
        obtain ⟨ta, ts2, rfl, hta, h2⟩ := List.map_eq_append_iff.1 hts
        obtain ⟨tk, tits, rfl, htk, hits⟩ := List.map_eq_append_iff.1 h2
        obtain ⟨ta0, rfl, hak, av, hav, hska⟩ := up_allot a hp.1 hta
        simp only [List.length_append, List.length_cons, List.length_nil] at hf
        obtain ⟨k', sk, hpk, hskk⟩ := ihK k hp.2.1 tk (tits ++ rb :: rest) htk
          (up_dstItems_stopE hp.2.2 hits hrb rest) (by omega)
        cases its with
        | nil =>
          simp only [dstItemsToks, List.map_eq_nil_iff] at hits
          subst hits
          have hnb : isAllotHead rb.kind = false := by rw [hrb]; rfl
          simp only [List.cons_append, List.append_assoc, List.nil_append] at hpk ⊢
          simp only [pDstItems, hav, hpk, hnb, Bool.false_eq_true, ↓reduceIte]
          exact ⟨_, rfl, by simp [dstItemsSkel, hska, hskk]⟩
        | cons it2 its2 =>
          obtain ⟨is', hpi, hski⟩ := ihIt (it2 :: its2) (by simp) hp.2.2 tits rb rest hits hrb
            (by omega)
          obtain ⟨a2, tits', rfl, hk2⟩ := up_dstItems_toks_head (by simp) hp.2.2 hits
          simp only [List.cons_append, List.append_assoc, List.nil_append] at hpk hpi ⊢
          simp only [pDstItems, hav, hpk, hk2, ↓reduceIte, hpi]
          exact ⟨_, rfl, by simp [dstItemsSkel, hska, hskk, hski]⟩

/-! ### sent values -/

theorem up_expr_bracket : ∀ e : Expr, e.Printable → ∀ s tl, e.toks = s :: tl → s.1 = .lbracket →
    ∃ (a b : Expr) (tl' : List Shape), a.Printable ∧ b.Printable ∧ tl = a.toks ++ (b.toks ++ tl') := by
  intro e
  induction e with
  | nil => intro h; exact absurd h (by simp [Expr.Printable])
  | monetaryNil => intro h; exact absurd h (by simp [Expr.Printable])
  | monetary r a b _ _ =>
    intro h s tl heq _
    simp only [Expr.toks, List.cons_append, List.append_assoc, List.cons.injEq] at heq
    exact ⟨a, b, _, h.1, h.2, heq.2.symm⟩
  | «infix» r op l r' ihl _ =>
    intro h s tl heq hs
    obtain ⟨s0, tl0, hl0, _⟩ := up_expr_head l h.1
    simp only [Expr.toks, hl0, List.cons_append, List.append_assoc, List.cons.injEq] at heq
    obtain ⟨a, b, tl', ha, hb, htl⟩ := ihl h.1 s0 tl0 hl0 (by rw [heq.1]; exact hs)
    obtain ⟨rfl, rfl⟩ := heq
    refine ⟨a, b, ?_, ha, hb, ?_⟩
    rotate_left
    · rw [htl, List.append_assoc, List.append_assoc]
  | _ =>
    intro _ s tl heq hs
    simp only [Expr.toks, List.cons.injEq] at heq
    rw [← heq.1] at hs
    exact absurd hs (by simp)

theorem up_sentValue (sv : SentValue) (hp : sv.Printable) (ts rest : List Tok) (f : Nat)
    (hts : ts.map Tok.shape = sv.toks) (hrest : up_stopE rest) (hf : 2 * ts.length + 2 ≤ f) :
    ∃ sv' stop, pSentValue f (ts ++ rest) = some (sv', stop, rest) ∧ sv'.skel = sv.skel := by
  cases sv with
  | nil => exact absurd hp (by simp [SentValue.Printable])
  | lit r m =>
    simp only [SentValue.Printable] at hp
    simp only [SentValue.toks] at hts
    obtain ⟨e', se, hpe, hske⟩ := up_expr hp ts rest f hts hrest hf
    obtain ⟨s, tl, hm, _⟩ := up_expr_head m hp
    rw [hm] at hts
    obtain ⟨t, ts', rfl, ht, htl⟩ := List.map_eq_cons_iff.1 hts
    simp only [List.cons_append] at hpe ⊢
    by_cases hb : t.kind = .lbracket
    · have hs : s.1 = .lbracket := by rw [← ht]; exact hb
      obtain ⟨a, b, tl', ha, hb', rfl⟩ := up_expr_bracket m hp s _ hm hs
      obtain ⟨ta, ts2, rfl, hta, h2⟩ := List.map_eq_append_iff.1 htl
      obtain ⟨tb, tr, rfl, htb, _⟩ := List.map_eq_append_iff.1 h2
      simp only [List.length_cons, List.length_append] at hf
      obtain ⟨a', sa, hpa, hska⟩ := up_expr ha ta (tb ++ (tr ++ rest)) f hta
        (fun x hx => up_exprHead_notop (up_head_append hb' htb _ x hx)) (by omega)
      have hmiss : expect .star (tb ++ (tr ++ rest)) = none :=
        up_expect_miss (fun x hx => (up_exprHead_facts (up_head_append hb' htb _ x hx)).2.2.2.2.2.2.1)
      simp only [List.append_assoc] at hpe ⊢
      simp only [pSentValue, hb, ↓reduceIte, hpa, hmiss, hpe]
      exact ⟨_, _, rfl, by simp [SentValue.skel, hske]⟩
    · simp only [pSentValue, hb, ↓reduceIte, hpe]
      exact ⟨_, _, rfl, by simp [SentValue.skel, hske]⟩
  | all r a =>
    simp only [SentValue.Printable] at hp
    simp only [SentValue.toks, List.cons_append] at hts
    obtain ⟨lb, ts1, rfl, hlb, h1⟩ := List.map_eq_cons_iff.1 hts
    obtain ⟨ta, ts2, rfl, hta, h2⟩ := List.map_eq_append_iff.1 h1
    obtain ⟨st, ts3, rfl, hst, h3⟩ := List.map_eq_cons_iff.1 h2
    obtain ⟨rb, rfl, hrb, _⟩ := up_single h3
    have hlk := up_kw hlb
    have hsk := up_kw hst
    simp only [kw] at hrb
    simp only [List.length_cons, List.length_append, List.length_nil] at hf
    obtain ⟨a', sa, hpa, hska⟩ := up_expr hp ta (st :: rb :: rest) f hta
      (up_stopE_cons _ (by simp [hsk])) (by omega)
    simp only [List.cons_append, List.append_assoc, List.nil_append]
    simp only [pSentValue, hlk, ↓reduceIte, hpa, up_expect_hit _ hsk, up_expect_hit _ hrb]
    exact ⟨_, _, rfl, by simp [SentValue.skel, hska]⟩

/-! ### statements -/

theorem up_statement (s : Statement) (hp : s.Printable) (ts rest : List Tok) (f : Nat)
    (hts : ts.map Tok.shape = s.toks) (hrest : up_stopE rest) (hf : 2 * ts.length + 3 ≤ f) :
    ∃ s' stop, pStatement f (ts ++ rest) = some (s', stop, rest) ∧ s'.skel = s.skel := by
  cases s with
  | nil => exact absurd hp (by simp [Statement.Printable])
  | fnCallNil => exact absurd hp (by simp [Statement.Printable])
  | send r sv src dst =>
    simp only [Statement.Printable] at hp
    simp only [Statement.toks, List.cons_append, List.append_assoc, List.nil_append] at hts
    obtain ⟨sd, ts1, rfl, hsd, h1⟩ := List.map_eq_cons_iff.1 hts
    obtain ⟨tsv, ts2, rfl, htsv, h2⟩ := List.map_eq_append_iff.1 h1
    obtain ⟨lp, ts3, rfl, hlp, h3⟩ := List.map_eq_cons_iff.1 h2
    obtain ⟨so, ts4, rfl, hso, h4⟩ := List.map_eq_cons_iff.1 h3
    obtain ⟨e1, ts5, rfl, he1, h5⟩ := List.map_eq_cons_iff.1 h4
    obtain ⟨tsrc, ts6, rfl, htsrc, h6⟩ := List.map_eq_append_iff.1 h5
    obtain ⟨de, ts7, rfl, hde, h7⟩ := List.map_eq_cons_iff.1 h6
    obtain ⟨e2, ts8, rfl, he2, h8⟩ := List.map_eq_cons_iff.1 h7
    obtain ⟨tdst, ts9, rfl, htdst, h9⟩ := List.map_eq_append_iff.1 h8
    obtain ⟨rp, rfl, hrp, _⟩ := up_single h9
    have hsdk := up_kw hsd
    have hlpk := up_kw hlp
    have hsok := up_kw hso
    have he1k := up_kw he1
    have hdek := up_kw hde
    have he2k := up_kw he2
    simp only [kw] at hrp
    simp only [List.length_cons, List.length_append, List.length_nil] at hf
    obtain ⟨sv', s1, hpsv, hsksv⟩ := up_sentValue sv hp.1 tsv
      (lp :: so :: e1 :: (tsrc ++ (de :: e2 :: (tdst ++ (rp :: rest))))) f htsv
      (up_stopE_cons _ (by simp [hlpk])) (by omega)
    obtain ⟨src', s2, hpsrc, hsksrc⟩ := (up_source_all f).1 src hp.2.1 tsrc
      (de :: e2 :: (tdst ++ (rp :: rest))) htsrc (up_stopS_cons _ (by simp [hdek])) (by omega)
    obtain ⟨dst', s3, hpdst, hskdst⟩ := (up_dest_all f).1 dst hp.2.2 tdst (rp :: rest) htdst
      (up_stopE_cons _ (by simp [hrp])) (by omega)
    simp only [List.cons_append, List.append_assoc, List.nil_append]
    simp only [pStatement, hsdk, ↓reduceIte, bind, hpsv, Option.bind_some, up_expect_hit _ hlpk,
      up_expect_hit _ hsok, up_expect_hit _ he1k, hpsrc, up_expect_hit _ hdek,
      up_expect_hit _ he2k, hpdst, up_expect_hit _ hrp]
    exact ⟨_, _, rfl, by simp [Statement.skel, hsksv, hsksrc, hskdst]⟩
  | save r sv e =>
    simp only [Statement.Printable] at hp
    simp only [Statement.toks, List.cons_append] at hts
    obtain ⟨sa, ts1, rfl, hsa, h1⟩ := List.map_eq_cons_iff.1 hts
    obtain ⟨tsv, ts2, rfl, htsv, h2⟩ := List.map_eq_append_iff.1 h1
    obtain ⟨fr, te, rfl, hfr, hte⟩ := List.map_eq_cons_iff.1 h2
    have hsak := up_kw hsa
    have hfrk := up_kw hfr
    simp only [List.length_cons, List.length_append] at hf
    obtain ⟨sv', s1, hpsv, hsksv⟩ := up_sentValue sv hp.1 tsv (fr :: (te ++ rest)) f htsv
      (up_stopE_cons _ (by simp [hfrk])) (by omega)
    obtain ⟨e', s2, hpe, hske⟩ := up_expr hp.2 te rest f hte hrest (by omega)
    simp only [List.cons_append, List.append_assoc, List.nil_append]
    simp only [pStatement, hsak, reduceCtorEq, ↓reduceIte, hpsv, up_expect_hit _ hfrk, hpe]
    exact ⟨_, _, rfl, by simp [Statement.skel, hsksv, hske]⟩
  | fnCall c =>
    simp only [Statement.Printable] at hp
    simp only [Statement.toks] at hts
    obtain ⟨c', sc, hpc, hskc⟩ := up_fnCall c hp ts rest f hts (by omega)
    have hts' := hts
    simp only [FnCall.toks] at hts'
    obtain ⟨nm, ts1, rfl, hnm, _⟩ := List.map_eq_cons_iff.1 hts'
    obtain ⟨hnk, _⟩ := up_fnNameTok hnm
    have hns : nm.kind ≠ .kwSend ∧ nm.kind ≠ .kwSave := by
      rcases hnk with h | h <;> simp [h]
    simp only [List.cons_append] at hpc ⊢
    simp only [pStatement, hns.1, hns.2, ↓reduceIte, hpc]
    exact ⟨_, _, rfl, by simp [Statement.skel, hskc]⟩

/-! ### statement lists -/

theorem up_tok_head_of_shape {ts : List Tok} {s : Shape} {tl : List Shape}
    (hts : ts.map Tok.shape = s :: tl) : ∃ t ts', ts = t :: ts' ∧ t.kind = s.1 := by
  obtain ⟨t, ts', rfl, ht, _⟩ := List.map_eq_cons_iff.1 hts
  exact ⟨t, ts', rfl, by rw [← ht]; rfl⟩

def up_stmtStart (k : TK) : Prop := k = .kwSend ∨ k = .kwSave ∨ k = .ident ∨ k = .kwOverdraft

theorem up_stmt_head (s : Statement) (hp : s.Printable) :
    ∃ a tl, s.toks = a :: tl ∧ up_stmtStart a.1 := by
  cases s with
  | nil => exact absurd hp (by simp [Statement.Printable])
  | fnCallNil => exact absurd hp (by simp [Statement.Printable])
  | send r sv src dst =>
    exact ⟨kw .kwSend "send", _, by simp only [Statement.toks, List.cons_append]; rfl, Or.inl rfl⟩
  | save r sv e =>
    exact ⟨kw .kwSave "save", _, by simp only [Statement.toks]; rfl, Or.inr (Or.inl rfl)⟩
  | fnCall c =>
    refine ⟨fnNameTok c.name, _, by simp only [Statement.toks, FnCall.toks]; rfl, ?_⟩
    unfold fnNameTok
    split
    · exact Or.inr (Or.inr (Or.inr rfl))
    · exact Or.inr (Or.inr (Or.inl rfl))

theorem up_flatMap_length {α : Type} (tk : α → List Shape) : ∀ l : List α,
    (∀ x ∈ l, 1 ≤ (tk x).length) → l.length ≤ (l.flatMap tk).length
  | [], _ => by simp
  | x :: l, h => by
      have h1 := h x (by simp)
      have h2 := up_flatMap_length tk l (fun y hy => h y (by simp [hy]))
      simp only [List.flatMap_cons, List.length_append, List.length_cons]
      omega

theorem up_stmts_stopE {ss : List Statement} (hp : ∀ s ∈ ss, s.Printable) {ts : List Tok}
    (hts : ts.map Tok.shape = ss.flatMap Statement.toks) : up_stopE ts := by
  cases ss with
  | nil =>
    simp only [List.flatMap_nil, List.map_eq_nil_iff] at hts
    subst hts
    intro t ht; simp at ht
  | cons s ss' =>
    obtain ⟨a, tl, ha, hk⟩ := up_stmt_head s (hp s (by simp))
    simp only [List.flatMap_cons, ha, List.cons_append] at hts
    obtain ⟨t, ts', rfl, htk⟩ := up_tok_head_of_shape hts
    apply up_stopE_cons
    rw [htk]
    rcases hk with h | h | h | h <;> simp [h]

theorem up_statements (f : Nat) : ∀ (ss : List Statement), (∀ s ∈ ss, s.Printable) →
    ∀ (n : Nat) (ts : List Tok), ts.map Tok.shape = ss.flatMap Statement.toks →
    ss.length < n → 2 * ts.length + 3 ≤ f →
    ∃ ss', pStatements f n ts = some ss' ∧ ss'.map Statement.skel = ss.map Statement.skel
  | [], _, n, ts, hts, hn, _ => by
      simp only [List.flatMap_nil, List.map_eq_nil_iff] at hts
      subst hts
      obtain ⟨n', rfl⟩ := up_fuel_succ n (by omega)
      exact ⟨[], by simp [pStatements], rfl⟩
  | s :: ss, hp, n, ts, hts, hn, hf => by
      simp only [List.flatMap_cons] at hts
      obtain ⟨t1, t2, rfl, h1, h2⟩ := List.map_eq_append_iff.1 hts
      simp only [List.length_cons] at hn
      obtain ⟨n', rfl⟩ := up_fuel_succ n (by omega)
      simp only [List.length_append] at hf
      obtain ⟨s', st, hps, hsk⟩ := up_statement s (hp s (by simp)) t1 t2 f h1
        (up_stmts_stopE (fun x hx => hp x (by simp [hx])) h2) (by omega)
      obtain ⟨ss', hpss, hsks⟩ := up_statements f ss (fun x hx => hp x (by simp [hx])) n' t2 h2
        (by omega) (by omega)
      obtain ⟨a, tl, ha, _⟩ := up_stmt_head s (hp s (by simp))
      rw [ha] at h1
      obtain ⟨t, t1', rfl, _⟩ := up_tok_head_of_shape h1
      simp only [List.cons_append] at hps ⊢
      simp only [pStatements, hps, hpss]
      exact ⟨_, rfl, by simp [hsk, hsks]⟩

/-! ### declarations -/

theorem up_varDecl_head (d : VarDecl) (hp : d.Printable) :
    ∃ a tl, d.toks = a :: tl ∧ a.1 = .ident := by
  obtain ⟨r, name, type, origin⟩ := d
  obtain ⟨h1, h2, _⟩ := hp
  cases name with
  | none => simp at h2
  | some nm =>
    cases type with
    | none => simp at h1
    | some ty => exact ⟨_, _, by simp only [VarDecl.toks]; rfl, rfl⟩

theorem up_varDecl (d : VarDecl) (hp : d.Printable) (ts rest : List Tok) (f : Nat)
    (hts : ts.map Tok.shape = d.toks) (hrest : ∀ t, rest.head? = some t → t.kind ≠ .eq)
    (hf : 2 * ts.length + 2 ≤ f) :
    ∃ d' stop, pVarDecl f (ts ++ rest) = some (d', stop, rest) ∧ d'.skel = d.skel := by
  obtain ⟨r, name, type, origin⟩ := d
  obtain ⟨h1, h2, h3⟩ := hp
  cases name with
  | none => simp at h2
  | some nm =>
    cases type with
    | none => simp at h1
    | some ty =>
      obtain ⟨nr, n⟩ := nm
      obtain ⟨tr, t⟩ := ty
      cases origin with
      | none =>
        simp only [VarDecl.toks] at hts
        obtain ⟨tty, ts1, rfl, hty, h4⟩ := List.map_eq_cons_iff.1 hts
        obtain ⟨tnm, rfl, hnk, hnt⟩ := up_single h4
        obtain ⟨htk, htt⟩ := up_shape hty
        simp only at hnk hnt
        simp only [List.cons_append, List.nil_append, pVarDecl, htk, hnk, and_self, ↓reduceIte,
          up_expect_miss hrest]
        exact ⟨_, _, rfl, by simp [VarDecl.skel, tokString, htt, hnt]⟩
      | some c =>
        simp only [VarDecl.toks] at hts
        obtain ⟨tty, ts1, rfl, hty, h4⟩ := List.map_eq_cons_iff.1 hts
        obtain ⟨tnm, ts2, rfl, hnm, h5⟩ := List.map_eq_cons_iff.1 h4
        obtain ⟨teq, tc, rfl, heq, hc⟩ := List.map_eq_cons_iff.1 h5
        obtain ⟨htk, htt⟩ := up_shape hty
        obtain ⟨hnk, hnt⟩ := up_shape hnm
        have hek := up_kw heq
        simp only [List.length_cons] at hf
        obtain ⟨c', sc, hpc, hskc⟩ := up_fnCall c (h3 c rfl) tc rest f hc (by omega)
        simp only [List.cons_append, pVarDecl, htk, hnk, and_self, ↓reduceIte,
          up_expect_hit _ hek, hpc]
        exact ⟨_, _, rfl, by simp [VarDecl.skel, tokString, htt, hnt, hskc]⟩

theorem up_varDecls_stop {ds : List VarDecl} (hp : ∀ d ∈ ds, d.Printable) {ts : List Tok}
    (hts : ts.map Tok.shape = ds.flatMap VarDecl.toks) {rb : Tok} (hrb : rb.kind = .rbrace)
    (rest : List Tok) : ∀ t, (ts ++ rb :: rest).head? = some t → t.kind ≠ .eq := by
  cases ds with
  | nil =>
    simp only [List.flatMap_nil, List.map_eq_nil_iff] at hts
    subst hts
    intro t ht; simp at ht; subst ht; simp [hrb]
  | cons d ds' =>
    obtain ⟨a, tl, ha, hk⟩ := up_varDecl_head d (hp d (by simp))
    simp only [List.flatMap_cons, ha, List.cons_append] at hts
    obtain ⟨t, ts', rfl, htk⟩ := up_tok_head_of_shape hts
    intro x hx; simp at hx; subst hx; simp [htk, hk]

theorem up_varDecls (f : Nat) : ∀ (ds : List VarDecl), (∀ d ∈ ds, d.Printable) →
    ∀ (n : Nat) (ts : List Tok) (rb : Tok) (rest : List Tok),
    ts.map Tok.shape = ds.flatMap VarDecl.toks → rb.kind = .rbrace →
    ds.length < n → 2 * ts.length + 2 ≤ f →
    ∃ ds', pVarDecls f n (ts ++ rb :: rest) = some (ds', rest) ∧
      ds'.map VarDecl.skel = ds.map VarDecl.skel
  | [], _, n, ts, rb, rest, hts, hrb, hn, _ => by
      simp only [List.flatMap_nil, List.map_eq_nil_iff] at hts
      subst hts
      obtain ⟨n', rfl⟩ := up_fuel_succ n (by omega)
      exact ⟨[], by simp [pVarDecls, hrb], rfl⟩
  | d :: ds, hp, n, ts, rb, rest, hts, hrb, hn, hf => by
      simp only [List.flatMap_cons] at hts
      obtain ⟨t1, t2, rfl, h1, h2⟩ := List.map_eq_append_iff.1 hts
      simp only [List.length_cons] at hn
      obtain ⟨n', rfl⟩ := up_fuel_succ n (by omega)
      simp only [List.length_append] at hf
      obtain ⟨d', st, hpd, hsk⟩ := up_varDecl d (hp d (by simp)) t1 (t2 ++ rb :: rest) f h1
        (up_varDecls_stop (fun x hx => hp x (by simp [hx])) h2 hrb rest) (by omega)
      obtain ⟨ds', hpds, hsks⟩ := up_varDecls f ds (fun x hx => hp x (by simp [hx])) n' t2 rb rest
        h2 hrb (by omega) (by omega)
      obtain ⟨a, tl, ha, hk⟩ := up_varDecl_head d (hp d (by simp))
      rw [ha] at h1
      obtain ⟨t, t1', rfl, htk⟩ := up_tok_head_of_shape h1
      have hnr : t.kind ≠ .rbrace := by rw [htk, hk]; simp
      simp only [List.cons_append, List.append_assoc] at hpd ⊢
      simp only [pVarDecls, hnr, ↓reduceIte, hpd, hpds]
      exact ⟨_, rfl, by simp [hsk, hsks]⟩

/-! ### whole scripts -/

theorem up_parseTokens_novars (ts : List Tok) (h : ∀ t, ts.head? = some t → t.kind ≠ .kwVars) :
    parseTokens ts =
      (pStatements (4 * ts.length + 8) (ts.length + 1) ts).map (fun ss => ⟨[], ss⟩) := by
  unfold parseTokens
  cases ts with
  | nil => rfl
  | cons v r =>
    cases r with
    | nil => rfl
    | cons lb r' =>
      have := h v rfl
      simp only [this, ↓reduceIte]

theorem up_stmts_length (ss : List Statement) (hp : ∀ s ∈ ss, s.Printable) :
    ss.length ≤ (ss.flatMap Statement.toks).length :=
  up_flatMap_length _ ss (fun s hs => by
    obtain ⟨a, tl, ha, _⟩ := up_stmt_head s (hp s hs)
    rw [ha]; simp)

theorem up_varDecls_length (ds : List VarDecl) (hp : ∀ d ∈ ds, d.Printable) :
    ds.length ≤ (ds.flatMap VarDecl.toks).length :=
  up_flatMap_length _ ds (fun d hd => by
    obtain ⟨a, tl, ha, _⟩ := up_varDecl_head d (hp d hd)
    rw [ha]; simp)

theorem up_stmts_notVars {ss : List Statement} (hp : ∀ s ∈ ss, s.Printable) {ts : List Tok}
    (hts : ts.map Tok.shape = ss.flatMap Statement.toks) :
    ∀ t, ts.head? = some t → t.kind ≠ .kwVars := by
  cases ss with
  | nil =>
    simp only [List.flatMap_nil, List.map_eq_nil_iff] at hts
    subst hts
    intro t ht; simp at ht
  | cons s ss' =>
    obtain ⟨a, tl, ha, hk⟩ := up_stmt_head s (hp s (by simp))
    simp only [List.flatMap_cons, ha, List.cons_append] at hts
    obtain ⟨t, ts', rfl, htk⟩ := up_tok_head_of_shape hts
    intro x hx; simp at hx; subst hx
    rw [htk]
    rcases hk with h | h | h | h <;> simp [h]

theorem up_program (p : Program) (hp : p.Printable) (ts : List Tok)
    (h : ts.map Tok.shape = p.toks) :
    (parseTokens ts).map Program.skel = some p.skel := by
  obtain ⟨vars, stmts⟩ := p
  obtain ⟨hv, hs⟩ := hp
  simp only at hv hs
  have hlen : ts.length = (Program.toks ⟨vars, stmts⟩).length := by rw [← h]; simp
  by_cases hvn : vars = []
  · subst hvn
    simp only [Program.toks, ↓reduceIte, List.nil_append] at h hlen
    have hsl := up_stmts_length stmts hs
    rw [up_parseTokens_novars ts (up_stmts_notVars hs h)]
    obtain ⟨ss', hps, hsk⟩ := up_statements (4 * ts.length + 8) stmts hs (ts.length + 1) ts h
      (by omega) (by omega)
    rw [hps]
    simp [Program.skel, hsk]
  · simp only [Program.toks, hvn, ↓reduceIte, List.cons_append, List.append_assoc,
      List.nil_append] at h hlen
    obtain ⟨v, ts1, rfl, hvk, h1⟩ := List.map_eq_cons_iff.1 h
    obtain ⟨lb, ts2, rfl, hlb, h2⟩ := List.map_eq_cons_iff.1 h1
    obtain ⟨tds, ts3, rfl, htds, h3⟩ := List.map_eq_append_iff.1 h2
    obtain ⟨rb, tss, rfl, hrb, htss⟩ := List.map_eq_cons_iff.1 h3
    have hvk' := up_kw hvk
    have hlk := up_kw hlb
    have hrk := up_kw hrb
    have hdl := up_varDecls_length vars hv
    have hsl := up_stmts_length stmts hs
    simp only [List.length_cons, List.length_append] at hlen
    have hl1 : tds.length = (vars.flatMap VarDecl.toks).length := by rw [← htds]; simp
    have hl2 : tss.length = (stmts.flatMap Statement.toks).length := by rw [← htss]; simp
    obtain ⟨ds', hpd, hskd⟩ := up_varDecls (4 * (v :: lb :: (tds ++ rb :: tss)).length + 8) vars hv
      ((v :: lb :: (tds ++ rb :: tss)).length + 1) tds rb tss htds hrk
      (by simp only [List.length_cons, List.length_append]; omega)
      (by simp only [List.length_cons, List.length_append]; omega)
    obtain ⟨ss', hps, hsks⟩ := up_statements (4 * (v :: lb :: (tds ++ rb :: tss)).length + 8) stmts hs
      ((v :: lb :: (tds ++ rb :: tss)).length + 1) tss htss
      (by simp only [List.length_cons, List.length_append]; omega)
      (by simp only [List.length_cons, List.length_append]; omega)
    simp only [parseTokens, hvk', hlk, ↓reduceIte, hpd, hps]
    simp [Program.skel, hskd, hsks]

end NS
