import Spec.Render
import Proofs.LexLemmas

namespace NS

/-! ### `bestOf`: a candidate that beats everything before it and is not beaten after it wins -/

/-- `(k, n)` occurs in the list, everything before it is strictly shorter, nothing after it is longer -/
def rd_wins (k : Option TK) (n : Nat) : List (Option TK × Nat) → Prop
  | [] => False
  | x :: rest => (x.1 = k ∧ x.2 = n ∧ ∀ y ∈ rest, y.2 ≤ n) ∨ (x.2 < n ∧ rd_wins k n rest)

theorem rd_bestOf_le (l : List (Option TK × Nat)) (n : Nat) (h : ∀ y ∈ l, y.2 ≤ n)
    (k' : Option TK) (n' : Nat) (hb : bestOf l = some (k', n')) : n' ≤ n :=
  h (k', n') (lx_bestOf_mem l k' n' hb).1

theorem rd_bestOf_of_wins (k : Option TK) (n : Nat) (hn : n ≠ 0) (l : List (Option TK × Nat))
    (h : rd_wins k n l) : bestOf l = some (k, n) := by
  induction l with
  | nil => exact absurd h (by simp [rd_wins])
  | cons x rest ih =>
    obtain ⟨k0, n0⟩ := x
    simp only [rd_wins] at h
    rcases h with ⟨rfl, rfl, hle⟩ | ⟨hlt, hw⟩
    · unfold bestOf
      split
      · rename_i k' n' hb
        have := rd_bestOf_le rest _ hle k' n' hb
        rw [if_pos ⟨this, hn⟩]
      · rw [if_pos hn]
    · have hb := ih hw
      unfold bestOf
      rw [hb]
      simp only
      rw [if_neg (by omega)]

/-! ### character classes -/

theorem rd_lower_iff (c : Char) : isLowerChar c = true ↔ 97 ≤ c.toNat ∧ c.toNat ≤ 122 := by
  simp only [isLowerChar, Char.le_def, Bool.and_eq_true, decide_eq_true_eq, UInt32.le_iff_toNat_le]
  simp

theorem rd_upper_iff (c : Char) : isUpperChar c = true ↔ 65 ≤ c.toNat ∧ c.toNat ≤ 90 := by
  simp only [isUpperChar, Char.le_def, Bool.and_eq_true, decide_eq_true_eq, UInt32.le_iff_toNat_le]
  simp

theorem rd_digit_iff (c : Char) : isDigit c = true ↔ 48 ≤ c.toNat ∧ c.toNat ≤ 57 := by
  simp only [isDigit, Char.le_def, Bool.and_eq_true, decide_eq_true_eq, UInt32.le_iff_toNat_le]
  simp

theorem rd_ne_of (p : Char → Bool) (c : Char) (hc : p c = true) (k : Char) (hk : p k = false) : k ≠ c := by
  intro e; subst e; rw [hc] at hk; exact absurd hk (by decide)

theorem rd_lower_not_digit (c : Char) (h : isLowerChar c = true) : isDigit c = false := by
  have h1 := (rd_lower_iff c).mp h
  cases hd : isDigit c with
  | false => rfl
  | true => have := (rd_digit_iff c).mp hd; omega

theorem rd_lower_not_upper (c : Char) (h : isLowerChar c = true) : isUpperChar c = false := by
  have h1 := (rd_lower_iff c).mp h
  cases hd : isUpperChar c with
  | false => rfl
  | true => have := (rd_upper_iff c).mp hd; omega

theorem rd_upper_not_lower (c : Char) (h : isUpperChar c = true) : isLowerChar c = false := by
  cases hd : isLowerChar c with
  | false => rfl
  | true => rw [rd_lower_not_upper c hd] at h; exact absurd h (by decide)

theorem rd_upper_not_digit (c : Char) (h : isUpperChar c = true) : isDigit c = false := by
  have h1 := (rd_upper_iff c).mp h
  cases hd : isDigit c with
  | false => rfl
  | true => have := (rd_digit_iff c).mp hd; omega

theorem rd_digit_not_lower (c : Char) (h : isDigit c = true) : isLowerChar c = false := by
  cases hd : isLowerChar c with
  | false => rfl
  | true => rw [rd_lower_not_digit c hd] at h; exact absurd h (by decide)

theorem rd_digit_not_upper (c : Char) (h : isDigit c = true) : isUpperChar c = false := by
  cases hd : isUpperChar c with
  | false => rfl
  | true => rw [rd_upper_not_digit c hd] at h; exact absurd h (by decide)

theorem rd_not_ws (p : Char → Bool) (hp : p ' ' = false ∧ p '\t' = false ∧ p '\r' = false ∧ p '\n' = false)
    (c : Char) (hc : p c = true) : isWsChar c = false := by
  have h1 := rd_ne_of p c hc ' ' hp.1
  have h2 := rd_ne_of p c hc '\t' hp.2.1
  have h3 := rd_ne_of p c hc '\r' hp.2.2.1
  have h4 := rd_ne_of p c hc '\n' hp.2.2.2
  simp [isWsChar, Ne.symm h1, Ne.symm h2, Ne.symm h3, Ne.symm h4]

theorem rd_lower_not_asset (c : Char) (h : isLowerChar c = true) : isAssetChar c = false := by
  have h1 := rd_ne_of isLowerChar c h '/' (by decide)
  simp [isAssetChar, rd_lower_not_upper c h, rd_lower_not_digit c h, Ne.symm h1]

theorem rd_digit_asset (c : Char) (h : isDigit c = true) : isAssetChar c = true := by
  simp [isAssetChar, h]

theorem rd_upper_asset (c : Char) (h : isUpperChar c = true) : isAssetChar c = true := by
  simp [isAssetChar, h]

/-! ### `spanLen` -/

theorem rd_spanLen_append (p : Char → Bool) (t rest : List Char) (ht : t.all p = true) :
    spanLen p (t ++ rest) = t.length + spanLen p rest := by
  induction t with
  | nil => simp
  | cons a t ih =>
    simp only [List.all_cons, Bool.and_eq_true] at ht
    simp only [List.cons_append, spanLen, ht.1, if_true, ih ht.2, List.length_cons]
    omega

theorem rd_spanLen_zero (p : Char → Bool) (c : Char) (t : List Char) (h : p c = false) :
    spanLen p (c :: t) = 0 := by
  simp [spanLen, h]

theorem rd_spanLen_succ (p : Char → Bool) (c : Char) (t : List Char) (h : p c = true) :
    spanLen p (c :: t) = spanLen p t + 1 := by
  simp [spanLen, h]

/-- the text after a token: nothing, or a blank -/
def rd_Blank (rest : List Char) : Prop := rest = [] ∨ ∃ r, rest = ' ' :: r

theorem rd_spanLen_blank (p : Char → Bool) (hp : p ' ' = false) (rest : List Char) (hr : rd_Blank rest) :
    spanLen p rest = 0 := by
  rcases hr with rfl | ⟨r, rfl⟩
  · rfl
  · exact rd_spanLen_zero p _ _ hp

theorem rd_spanLen_all (p : Char → Bool) (hp : p ' ' = false) (t rest : List Char) (ht : t.all p = true)
    (hr : rd_Blank rest) : spanLen p (t ++ rest) = t.length := by
  rw [rd_spanLen_append p t rest ht, rd_spanLen_blank p hp rest hr]; rfl

/-! ### matchers that do not start here -/

theorem rd_mWs_zero (c : Char) (t : List Char) (h : isWsChar c = false) : mWs (c :: t) = 0 :=
  rd_spanLen_zero _ _ _ h

theorem rd_mBlock_zero (c : Char) (t : List Char) (h : '/' ≠ c) : mBlockComment (c :: t) = 0 := by
  unfold mBlockComment
  split
  · rename_i heq; simp at heq; exact absurd heq.1.symm h
  · rfl

theorem rd_mLine_zero (c : Char) (t : List Char) (h : '/' ≠ c) : mLineComment (c :: t) = 0 := by
  unfold mLineComment
  split
  · rename_i heq; simp at heq; exact absurd heq.1.symm h
  · rfl

theorem rd_mLiteral_zero (k : Char) (kw : List Char) (c : Char) (t : List Char) (h : k ≠ c) :
    mLiteral (k :: kw) (c :: t) = 0 := by
  simp [mLiteral, List.isPrefixOf, h]

theorem rd_mRatio_zero (c : Char) (t : List Char) (h : isDigit c = false) : mRatio (c :: t) = 0 := by
  rw [lx_mRatio_eq, rd_spanLen_zero _ _ _ h]; rfl

theorem rd_mPercent_zero (c : Char) (t : List Char) (h : isDigit c = false) : mPercent (c :: t) = 0 := by
  unfold mPercent
  simp only [rd_spanLen_zero _ _ _ h, if_true]

theorem rd_mString_zero (c : Char) (t : List Char) (h : '"' ≠ c) : mString (c :: t) = 0 := by
  unfold mString
  split
  · rename_i heq; simp at heq; exact absurd heq.1.symm h
  · rfl

theorem rd_mIdent_zero (c : Char) (t : List Char) (h : isLowerChar c = false) : mIdent (c :: t) = 0 := by
  simp [mIdent, h]

theorem rd_mNumber_zero (c : Char) (t : List Char) (h1 : '-' ≠ c) (h : isDigit c = false) :
    mNumber (c :: t) = 0 := by
  unfold mNumber
  split
  · rename_i heq; simp at heq; exact absurd heq.1.symm h1
  · exact rd_spanLen_zero _ _ _ h

theorem rd_mVarName_zero (c : Char) (t : List Char) (h : '$' ≠ c) : mVarName (c :: t) = 0 := by
  unfold mVarName
  split
  · rename_i heq; simp at heq; exact absurd heq.1.symm h
  · rfl

theorem rd_mAccount_zero (c : Char) (t : List Char) (h : '@' ≠ c) : mAccount (c :: t) = 0 := by
  unfold mAccount
  split
  · rename_i heq; simp at heq; exact absurd heq.1.symm h
  · rfl

theorem rd_mAsset_zero (c : Char) (t : List Char) (h : isAssetChar c = false) : mAsset (c :: t) = 0 :=
  rd_spanLen_zero _ _ _ h

/-! ### the candidates by the class of the first character -/

theorem rd_kwTexts :
    "vars".toList = ['v','a','r','s'] ∧ "max".toList = ['m','a','x'] ∧ "source".toList = ['s','o','u','r','c','e'] ∧
    "destination".toList = ['d','e','s','t','i','n','a','t','i','o','n'] ∧ "send".toList = ['s','e','n','d'] ∧
    "from".toList = ['f','r','o','m'] ∧ "up".toList = ['u','p'] ∧ "to".toList = ['t','o'] ∧
    "remaining".toList = ['r','e','m','a','i','n','i','n','g'] ∧ "allowing".toList = ['a','l','l','o','w','i','n','g'] ∧
    "unbounded".toList = ['u','n','b','o','u','n','d','e','d'] ∧
    "overdraft".toList = ['o','v','e','r','d','r','a','f','t'] ∧ "kept".toList = ['k','e','p','t'] ∧
    "save".toList = ['s','a','v','e'] := by decide

theorem rd_cands_upper (c : Char) (t : List Char) (hc : isUpperChar c = true) :
    candidates (c :: t) =
      [ (none, 0), (none, 0), (none, 0),
        (some .kwVars, 0), (some .kwMax, 0), (some .kwSource, 0), (some .kwDestination, 0),
        (some .kwSend, 0), (some .kwFrom, 0), (some .kwUp, 0), (some .kwTo, 0),
        (some .kwRemaining, 0), (some .kwAllowing, 0), (some .kwUnbounded, 0), (some .kwOverdraft, 0),
        (some .kwKept, 0), (some .kwSave, 0),
        (some .lparen, 0), (some .rparen, 0), (some .lbracket, 0), (some .rbracket, 0),
        (some .lbrace, 0), (some .rbrace, 0), (some .comma, 0), (some .eq, 0), (some .star, 0),
        (some .minus, 0),
        (some .ratio, 0), (some .percent, 0), (some .string, 0),
        (some .ident, 0), (some .number, 0), (some .varName, 0),
        (some .account, 0), (some .asset, mAsset (c :: t)), (some .plus, 0) ] := by
  have hne := rd_ne_of isUpperChar c hc
  have hws := rd_not_ws isUpperChar (by decide) c hc
  have hd := rd_upper_not_digit c hc
  have hl := rd_upper_not_lower c hc
  obtain ⟨k1, k2, k3, k4, k5, k6, k7, k8, k9, k10, k11, k12, k13, k14⟩ := rd_kwTexts
  simp (disch := first | assumption | (apply hne; decide)) only [candidates, k1, k2, k3, k4, k5, k6, k7, k8,
    k9, k10, k11, k12, k13, k14, rd_mWs_zero, rd_mBlock_zero, rd_mLine_zero, rd_mLiteral_zero,
    rd_mRatio_zero, rd_mPercent_zero, rd_mString_zero, rd_mIdent_zero, rd_mNumber_zero, rd_mVarName_zero,
    rd_mAccount_zero]




theorem rd_cands_digit (c : Char) (t : List Char) (hc : isDigit c = true) :
    candidates (c :: t) =
      [ (none, 0), (none, 0), (none, 0),
        (some .kwVars, 0), (some .kwMax, 0), (some .kwSource, 0), (some .kwDestination, 0),
        (some .kwSend, 0), (some .kwFrom, 0), (some .kwUp, 0), (some .kwTo, 0),
        (some .kwRemaining, 0), (some .kwAllowing, 0), (some .kwUnbounded, 0), (some .kwOverdraft, 0),
        (some .kwKept, 0), (some .kwSave, 0),
        (some .lparen, 0), (some .rparen, 0), (some .lbracket, 0), (some .rbracket, 0),
        (some .lbrace, 0), (some .rbrace, 0), (some .comma, 0), (some .eq, 0), (some .star, 0),
        (some .minus, 0),
        (some .ratio, mRatio (c :: t)), (some .percent, mPercent (c :: t)), (some .string, 0),
        (some .ident, 0), (some .number, mNumber (c :: t)), (some .varName, 0),
        (some .account, 0), (some .asset, mAsset (c :: t)), (some .plus, 0) ] := by
  have hne := rd_ne_of isDigit c hc
  have hws := rd_not_ws isDigit (by decide) c hc
  have hl := rd_digit_not_lower c hc
  obtain ⟨k1, k2, k3, k4, k5, k6, k7, k8, k9, k10, k11, k12, k13, k14⟩ := rd_kwTexts
  simp (disch := first | assumption | (apply hne; decide)) only [candidates, k1, k2, k3, k4, k5, k6, k7, k8,
    k9, k10, k11, k12, k13, k14, rd_mWs_zero, rd_mBlock_zero, rd_mLine_zero, rd_mLiteral_zero,
    rd_mString_zero, rd_mIdent_zero, rd_mVarName_zero, rd_mAccount_zero]

theorem rd_cands_lower (c : Char) (t : List Char) (hc : isLowerChar c = true) :
    candidates (c :: t) =
      [ (none, 0), (none, 0), (none, 0),
        (some .kwVars, mLiteral "vars".toList (c :: t)), (some .kwMax, mLiteral "max".toList (c :: t)),
        (some .kwSource, mLiteral "source".toList (c :: t)),
        (some .kwDestination, mLiteral "destination".toList (c :: t)),
        (some .kwSend, mLiteral "send".toList (c :: t)), (some .kwFrom, mLiteral "from".toList (c :: t)),
        (some .kwUp, mLiteral "up".toList (c :: t)), (some .kwTo, mLiteral "to".toList (c :: t)),
        (some .kwRemaining, mLiteral "remaining".toList (c :: t)),
        (some .kwAllowing, mLiteral "allowing".toList (c :: t)),
        (some .kwUnbounded, mLiteral "unbounded".toList (c :: t)),
        (some .kwOverdraft, mLiteral "overdraft".toList (c :: t)),
        (some .kwKept, mLiteral "kept".toList (c :: t)), (some .kwSave, mLiteral "save".toList (c :: t)),
        (some .lparen, 0), (some .rparen, 0), (some .lbracket, 0), (some .rbracket, 0),
        (some .lbrace, 0), (some .rbrace, 0), (some .comma, 0), (some .eq, 0), (some .star, 0),
        (some .minus, 0),
        (some .ratio, 0), (some .percent, 0), (some .string, 0),
        (some .ident, mIdent (c :: t)), (some .number, 0), (some .varName, 0),
        (some .account, 0), (some .asset, 0), (some .plus, 0) ] := by
  have hne := rd_ne_of isLowerChar c hc
  have hws := rd_not_ws isLowerChar (by decide) c hc
  have hd := rd_lower_not_digit c hc
  have ha := rd_lower_not_asset c hc
  simp (disch := first | assumption | (apply hne; decide)) only [candidates,
    rd_mWs_zero, rd_mBlock_zero, rd_mLine_zero, rd_mLiteral_zero,
    rd_mRatio_zero, rd_mPercent_zero, rd_mString_zero, rd_mNumber_zero, rd_mVarName_zero,
    rd_mAccount_zero, rd_mAsset_zero]

/-! ### keywords and punctuation -/

-- 25 kinds × 2 shapes of `rest`, each a full evaluation of the 36 candidates: one finite raise
set_option maxHeartbeats 600000 in
theorem rd_best_fixed (k : TK) (txt : List Char) (h : fixedText k = some txt) (rest : List Char)
    (hr : rd_Blank rest) : bestOf (candidates (txt ++ rest)) = some (some k, txt.length) := by
  cases k <;> simp only [fixedText, Option.some.injEq, reduceCtorEq] at h <;> subst h <;>
    rcases hr with rfl | ⟨r, rfl⟩
  any_goals decide
  all_goals
    (apply rd_bestOf_of_wins _ _ (by decide)
     simp [candidates, mWs, spanLen, isWsChar, mBlockComment, mLineComment, mLiteral, mRatio, mPercent,
       mString, mIdent, mNumber, mVarName, mAccount, mAsset, isDigit, isLowerChar, isAssetChar, isUpperChar,
       isIdentTail, rd_wins])

/-! ### identifiers and keywords -/

theorem rd_prefix_blank (kw : List Char) (hkw : ' ' ∉ kw) (rest : List Char) (hr : rd_Blank rest) :
    ∀ s : List Char, kw <+: s ++ rest → kw <+: s := by
  induction kw with
  | nil => intro s _; exact List.nil_prefix
  | cons k kw ih =>
    simp only [List.mem_cons, not_or] at hkw
    intro s h
    cases s with
    | nil =>
      rcases hr with rfl | ⟨r, rfl⟩
      · simp at h
      · simp only [List.nil_append, List.cons_prefix_cons] at h
        exact absurd h.1.symm hkw.1
    | cons a s =>
      simp only [List.cons_append, List.cons_prefix_cons] at h
      exact List.cons_prefix_cons.mpr ⟨h.1, ih hkw.2 s h.2⟩

theorem rd_kw_lt (kw s rest : List Char) (hkw : ' ' ∉ kw) (hne : s ≠ kw) (hs : s ≠ []) (hr : rd_Blank rest) :
    mLiteral kw (s ++ rest) < s.length := by
  unfold mLiteral
  split
  · rename_i h
    have hp := rd_prefix_blank kw hkw rest hr s (List.isPrefixOf_iff_prefix.mp h)
    have hle := hp.length_le
    rcases Nat.lt_or_eq_of_le hle with hlt | heq
    · exact hlt
    · exact absurd (hp.eq_of_length heq).symm hne
  · exact List.length_pos_iff.mpr hs

theorem rd_kw_no_blank : ∀ kw ∈ keywordTexts, ' ' ∉ kw := by decide

theorem rd_mIdent_val (c : Char) (t rest : List Char) (hc : isLowerChar c = true)
    (ht : t.all isIdentTail = true) (hr : rd_Blank rest) : mIdent (c :: (t ++ rest)) = (c :: t).length := by
  simp only [mIdent, hc, if_true, rd_spanLen_all isIdentTail (by decide) t rest ht hr, List.length_cons]
  omega

theorem rd_best_ident (c : Char) (t rest : List Char) (hc : isLowerChar c = true)
    (ht : t.all isIdentTail = true) (hnk : c :: t ∉ keywordTexts) (hr : rd_Blank rest) :
    bestOf (candidates ((c :: t) ++ rest)) = some (some .ident, (c :: t).length) := by
  have hk : ∀ kw ∈ keywordTexts, mLiteral kw (c :: (t ++ rest)) < (c :: t).length := fun kw hkw =>
    rd_kw_lt kw (c :: t) rest (rd_kw_no_blank kw hkw) (fun e => hnk (e ▸ hkw)) (by simp) hr
  have hid := rd_mIdent_val c t rest hc ht hr
  rw [List.cons_append, rd_cands_lower _ _ hc]
  apply rd_bestOf_of_wins _ _ (by simp)
  simp [keywordTexts] at hk
  simp [rd_wins, hk, hid]

/-- the text after a token: nothing, or a blank not followed by a slash -/
def rd_Blank' (rest : List Char) : Prop := rest = [] ∨ ∃ r, rest = ' ' :: r ∧ r.head? ≠ some '/'

theorem rd_Blank_of (rest : List Char) (h : rd_Blank' rest) : rd_Blank rest := by
  rcases h with rfl | ⟨r, rfl, _⟩
  · exact Or.inl rfl
  · exact Or.inr ⟨r, rfl⟩

/-! ### variables -/

theorem rd_best_varName (c : Char) (t rest : List Char) (hc : isVarHead c = true)
    (ht : t.all isVarTail = true) (hr : rd_Blank rest) :
    bestOf (candidates (('$' :: c :: t) ++ rest)) = some (some .varName, ('$' :: c :: t).length) := by
  have hv : mVarName ('$' :: c :: (t ++ rest)) = t.length + 2 := by
    simp only [mVarName, hc, if_true, rd_spanLen_all isVarTail (by decide) t rest ht hr]; omega
  apply rd_bestOf_of_wins _ _ (by simp)
  simp [candidates, mWs, spanLen, isWsChar, mBlockComment, mLineComment, mLiteral, mRatio, mPercent,
       mString, mIdent, mNumber, mAccount, mAsset, isDigit, isLowerChar, isAssetChar, isUpperChar,
       rd_wins, hv]

/-! ### strings -/

theorem rd_strBody (body rest : List Char)
    (hb : body.all (fun c => c != '"' && c != '\\' && c != '\n' && c != '\r') = true) :
    strBody (body ++ '"' :: rest) = some (body.length + 1) := by
  induction body with
  | nil => simp [strBody]
  | cons a b ih =>
    simp only [List.all_cons, Bool.and_eq_true, bne_iff_ne, ne_eq] at hb
    obtain ⟨⟨⟨⟨h1, h2⟩, h3⟩, h4⟩, hb⟩ := hb
    rw [List.cons_append]
    unfold strBody
    split
    · rename_i heq; simp at heq
    · rename_i heq; simp at heq; exact absurd heq.1 h1
    · rename_i heq; simp at heq; exact absurd heq.1 h2
    · rename_i c r _ _ heq
      simp only [List.cons.injEq] at heq
      obtain ⟨rfl, rfl⟩ := heq
      have hnl : isNlChar a = false := by simp [isNlChar, h3, h4]
      simp [hnl, ih hb]

theorem rd_best_string (body rest : List Char)
    (hb : body.all (fun c => c != '"' && c != '\\' && c != '\n' && c != '\r') = true) :
    bestOf (candidates (('"' :: body ++ ['"']) ++ rest)) = some (some .string, ('"' :: body ++ ['"']).length) := by
  have hv : mString ('"' :: (body ++ '"' :: rest)) = body.length + 1 + 1 := by
    simp only [mString, rd_strBody body rest hb]
  apply rd_bestOf_of_wins _ _ (by simp)
  simp [candidates, mWs, spanLen, isWsChar, mBlockComment, mLineComment, mLiteral, mRatio, mPercent,
       mIdent, mNumber, mVarName, mAccount, mAsset, isDigit, isLowerChar, isAssetChar, isUpperChar,
       rd_wins, hv]

/-! ### accounts -/

theorem rd_acctTail_blank (fuel : Nat) (rest : List Char) (hr : rd_Blank rest) : acctTail fuel rest = 0 := by
  rcases hr with rfl | ⟨r, rfl⟩
  · unfold acctTail; split
    · rename_i heq; simp at heq
    · rfl
  · unfold acctTail; split
    · rename_i heq; simp at heq
    · rfl

theorem rd_acct (rest : List Char) (hr : rd_Blank rest) (t : List Char) :
    (acctOk true t = true → ∀ fuel, t.length ≤ fuel →
      spanLen isAcctChar (t ++ rest) + acctTail fuel ((t ++ rest).drop (spanLen isAcctChar (t ++ rest))) = t.length) ∧
    (acctOk false t = true → spanLen isAcctChar (t ++ rest) ≠ 0) := by
  induction t with
  | nil =>
    refine ⟨fun _ fuel _ => ?_, fun h => by simp [acctOk] at h⟩
    simp only [List.nil_append, rd_spanLen_blank isAcctChar (by decide) rest hr, List.drop_zero,
      rd_acctTail_blank fuel rest hr, List.length_nil]
  | cons c t ih =>
    by_cases hc : isAcctChar c = true
    · have hok : ∀ b, acctOk b (c :: t) = acctOk true t := by intro b; simp [acctOk, hc]
      refine ⟨fun h fuel hf => ?_, fun _ => ?_⟩
      · rw [hok] at h
        have := ih.1 h fuel (by simp at hf; omega)
        simp only [List.cons_append, rd_spanLen_succ _ _ _ hc, List.drop_succ_cons, List.length_cons]
        omega
      · simp [rd_spanLen_succ _ _ _ hc]
    · have hc' : isAcctChar c = false := by simpa using hc
      by_cases hcol : c = ':'
      · subst hcol
        refine ⟨fun h fuel hf => ?_, fun h => by simp [acctOk, hc'] at h⟩
        have h' : acctOk false t = true := by simpa [acctOk, hc'] using h
        cases fuel with
        | zero => simp at hf
        | succ f =>
          simp only [List.length_cons, Nat.add_le_add_iff_right] at hf
          have hn := ih.2 h'
          have hrec := ih.1 (by
            -- a non-empty first segment: `acctOk false t` implies `acctOk true t`
            cases t with
            | nil => simp [acctOk] at h'
            | cons a t' =>
              by_cases ha : isAcctChar a = true
              · simpa [acctOk, ha] using h'
              · have ha' : isAcctChar a = false := by simpa using ha
                simp [acctOk, ha'] at h') f hf
          simp only [List.cons_append, rd_spanLen_zero _ _ _ hc', List.drop_zero, Nat.zero_add,
            List.length_cons]
          unfold acctTail
          simp only [if_neg hn]
          omega
      · refine ⟨fun h => ?_, fun h => ?_⟩ <;> simp [acctOk, hc', hcol] at h

theorem rd_best_account (t rest : List Char) (ht : acctOk false t = true) (hr : rd_Blank rest) :
    bestOf (candidates (('@' :: t) ++ rest)) = some (some .account, ('@' :: t).length) := by
  have hok : acctOk true t = true := by
    cases t with
    | nil => simp [acctOk] at ht
    | cons a t' =>
      by_cases ha : isAcctChar a = true
      · simpa [acctOk, ha] using ht
      · have ha' : isAcctChar a = false := by simpa using ha
        simp [acctOk, ha'] at ht
  have h1 := (rd_acct rest hr t).1 hok (t ++ rest).length (by simp)
  have h2 := (rd_acct rest hr t).2 ht
  have hv : mAccount ('@' :: (t ++ rest)) = t.length + 1 := by
    simp only [mAccount, if_neg h2]; omega
  apply rd_bestOf_of_wins _ _ (by simp)
  simp [candidates, mWs, spanLen, isWsChar, mBlockComment, mLineComment, mLiteral, mRatio, mPercent,
       mString, mIdent, mNumber, mVarName, mAsset, isDigit, isLowerChar, isAssetChar, isUpperChar,
       rd_wins, hv]

/-! ### assets -/

theorem rd_best_asset (c : Char) (t rest : List Char) (hc : isUpperChar c = true)
    (ht : t.all isAssetChar = true) (hr : rd_Blank rest) :
    bestOf (candidates ((c :: t) ++ rest)) = some (some .asset, (c :: t).length) := by
  have hv : mAsset (c :: (t ++ rest)) = (c :: t).length := by
    rw [← List.cons_append]
    exact rd_spanLen_all isAssetChar (by decide) (c :: t) rest (by simp [rd_upper_asset c hc, ht]) hr
  rw [List.cons_append, rd_cands_upper _ _ hc]
  apply rd_bestOf_of_wins _ _ (by simp)
  simp [rd_wins, hv]

/-! ### numbers -/

theorem rd_drop_append_length (a b : List Char) : (a ++ b).drop a.length = b := by simp

theorem rd_mRatio_number (ds rest : List Char) (hd : ds.all isDigit = true) (hr : rd_Blank' rest) :
    mRatio (ds ++ rest) = 0 := by
  rw [lx_mRatio_eq, rd_spanLen_all isDigit (by decide) ds rest hd (rd_Blank_of rest hr),
    rd_drop_append_length]
  split
  · rfl
  · rcases hr with rfl | ⟨r, rfl, hr⟩
    · rfl
    · simp only [lx_sp, List.drop_succ_cons, List.drop_zero]
      split
      · simp at hr
      · rfl

theorem rd_mPercent_number (ds rest : List Char) (hd : ds.all isDigit = true) (hr : rd_Blank rest) :
    mPercent (ds ++ rest) = 0 := by
  unfold mPercent
  simp only [rd_spanLen_all isDigit (by decide) ds rest hd hr, rd_drop_append_length]
  split
  · rfl
  · rcases hr with rfl | ⟨r, rfl⟩ <;> rfl

theorem rd_mNumber_digits (c : Char) (t : List Char) (hc : isDigit c = true) :
    mNumber (c :: t) = spanLen isDigit (c :: t) := by
  have hne := rd_ne_of isDigit c hc '-' (by decide)
  unfold mNumber
  split
  · rename_i heq; simp at heq; exact absurd heq.1.symm hne
  · rfl

theorem rd_best_number_pos (ds rest : List Char) (hne : ds ≠ []) (hd : ds.all isDigit = true)
    (hr : rd_Blank' rest) : bestOf (candidates (ds ++ rest)) = some (some .number, ds.length) := by
  have hb := rd_Blank_of rest hr
  cases ds with
  | nil => exact absurd rfl hne
  | cons c t =>
    have hc : isDigit c = true := by simp at hd; exact hd.1
    have h1 := rd_mRatio_number (c :: t) rest hd hr
    have h2 := rd_mPercent_number (c :: t) rest hd hb
    have h3 : mNumber (c :: (t ++ rest)) = (c :: t).length := by
      rw [rd_mNumber_digits c _ hc, ← List.cons_append]
      exact rd_spanLen_all isDigit (by decide) (c :: t) rest hd hb
    have h4 : mAsset (c :: (t ++ rest)) = (c :: t).length := by
      rw [← List.cons_append]
      refine rd_spanLen_all isAssetChar (by decide) (c :: t) rest ?_ hb
      rw [List.all_eq_true] at hd ⊢
      exact fun x hx => rd_digit_asset x (hd x hx)
    rw [List.cons_append] at h1 h2 ⊢
    rw [rd_cands_digit _ _ hc, h1, h2, h3, h4]
    apply rd_bestOf_of_wins _ _ (by simp)
    simp [rd_wins]

theorem rd_best_number_neg (ds rest : List Char) (hne : ds ≠ []) (hd : ds.all isDigit = true)
    (hr : rd_Blank rest) :
    bestOf (candidates (('-' :: ds) ++ rest)) = some (some .number, ('-' :: ds).length) := by
  have hpos : 0 < ds.length := List.length_pos_iff.mpr hne
  have hv : mNumber ('-' :: (ds ++ rest)) = ds.length + 1 := by
    simp only [mNumber, rd_spanLen_all isDigit (by decide) ds rest hd hr]
    rw [if_neg (by omega)]
  apply rd_bestOf_of_wins _ _ (by simp)
  simp [candidates, mWs, spanLen, isWsChar, mBlockComment, mLineComment, mLiteral, mRatio, mPercent,
       mString, mIdent, mVarName, mAccount, mAsset, isDigit, isLowerChar, isAssetChar, isUpperChar,
       rd_wins, hv, hpos]

/-! ### ratios -/

theorem rd_best_ratio (a b rest : List Char) (ha : a ≠ []) (hb : b ≠ []) (had : a.all isDigit = true)
    (hbd : b.all isDigit = true) (hr : rd_Blank rest) :
    bestOf (candidates ((a ++ '/' :: b) ++ rest)) = some (some .ratio, (a ++ '/' :: b).length) := by
  cases a with
  | nil => exact absurd rfl ha
  | cons c t =>
    cases b with
    | nil => exact absurd rfl hb
    | cons d u =>
      have hc : isDigit c = true := by simp at had; exact had.1
      have hdd : isDigit d = true := by simp at hbd; exact hbd.1
      have hsp : d ≠ ' ' := (rd_ne_of isDigit d hdd ' ' (by decide)).symm
      have hspanA : spanLen isDigit ((c :: t) ++ '/' :: ((d :: u) ++ rest)) = (c :: t).length := by
        rw [rd_spanLen_append isDigit _ _ had, rd_spanLen_zero isDigit '/' _ (by decide)]; rfl
      have hspanB : spanLen isDigit ((d :: u) ++ rest) = (d :: u).length :=
        rd_spanLen_all isDigit (by decide) _ rest hbd hr
      have h1 : mRatio ((c :: t) ++ '/' :: ((d :: u) ++ rest)) = (c :: t).length + 1 + (d :: u).length := by
        rw [lx_mRatio_eq, hspanA, rd_drop_append_length]
        rw [if_neg (by simp)]
        have hsp1 : lx_sp ('/' :: ((d :: u) ++ rest)) = 0 := rfl
        rw [hsp1, List.drop_zero]
        simp only
        have hsp2 : lx_sp ((d :: u) ++ rest) = 0 := by
          simp only [lx_sp, List.cons_append]
          split
          · rename_i heq; simp at heq; exact absurd heq.1 hsp
          · rfl
        rw [hsp2, List.drop_zero, hspanB, if_neg (by simp)]
      have h2 : mPercent ((c :: t) ++ '/' :: ((d :: u) ++ rest)) = 0 := by
        unfold mPercent
        simp only [hspanA, rd_drop_append_length]
        split
        · rfl
        · rfl
      have h3 : mNumber ((c :: t) ++ '/' :: ((d :: u) ++ rest)) = (c :: t).length := by
        rw [List.cons_append, rd_mNumber_digits c _ hc, ← List.cons_append, hspanA]
      have h4 : mAsset ((c :: t) ++ '/' :: ((d :: u) ++ rest)) = (c :: t).length + 1 + (d :: u).length := by
        have : (c :: t) ++ '/' :: ((d :: u) ++ rest) = ((c :: t) ++ '/' :: (d :: u)) ++ rest := by simp
        rw [this]
        have hall : ((c :: t) ++ '/' :: (d :: u)).all isAssetChar = true := by
          rw [List.all_eq_true] at had hbd ⊢
          intro x hx
          rcases List.mem_append.mp hx with hx | hx
          · exact rd_digit_asset x (had x hx)
          · rcases List.mem_cons.mp hx with rfl | hx
            · decide
            · exact rd_digit_asset x (hbd x hx)
        unfold mAsset
        rw [rd_spanLen_all isAssetChar (by decide) _ rest hall hr]
        simp only [List.length_append, List.length_cons]
        omega
      have e : ((c :: t) ++ '/' :: (d :: u)) ++ rest = (c :: t) ++ '/' :: ((d :: u) ++ rest) := by simp
      rw [e]
      rw [List.cons_append] at h1 h2 h3 h4 ⊢
      rw [rd_cands_digit _ _ hc, h1, h2, h3, h4]
      apply rd_bestOf_of_wins _ _ (by simp)
      simp [rd_wins]
      omega

/-! ### every kind -/

theorem rd_best_of_lexable' (s : Shape) (hs : s.Lexable) (rest : List Char) (hr : rd_Blank' rest) :
    bestOf (candidates (s.2 ++ rest)) = some (some s.1, s.2.length) := by
  have hb := rd_Blank_of rest hr
  obtain ⟨k, txt⟩ := s
  cases k <;> simp only [Shape.Lexable] at hs
  case ident =>
    obtain ⟨⟨c, t, rfl, hc, ht⟩, hnk⟩ := hs
    exact rd_best_ident c t rest hc ht hnk hb
  case varName =>
    obtain ⟨c, t, rfl, hc, ht⟩ := hs
    exact rd_best_varName c t rest hc ht hb
  case account =>
    obtain ⟨t, rfl, ht⟩ := hs
    exact rd_best_account t rest ht hb
  case asset =>
    obtain ⟨c, t, rfl, hc, ht⟩ := hs
    exact rd_best_asset c t rest hc ht hb
  case number =>
    rcases hs with ⟨ds, rfl, hne, hd⟩ | ⟨ds, rfl, hne, hd⟩
    · exact rd_best_number_pos _ rest hne hd hr
    · exact rd_best_number_neg ds rest hne hd hb
  case ratio =>
    obtain ⟨a, b, rfl, ha, hb', had, hbd⟩ := hs
    exact rd_best_ratio a b rest ha hb' had hbd hb
  case string =>
    obtain ⟨body, rfl, hbody⟩ := hs
    exact rd_best_string body rest hbody
  all_goals exact rd_best_fixed _ _ hs rest hb

/-! ### first characters -/

theorem rd_lexable_head (s : Shape) (hs : s.Lexable) :
    ∃ c t, s.2 = c :: t ∧ isWsChar c = false ∧ c ≠ '/' := by
  obtain ⟨k, txt⟩ := s
  cases k <;> simp only [Shape.Lexable] at hs
  case ident =>
    obtain ⟨⟨c, t, rfl, hc, ht⟩, hnk⟩ := hs
    exact ⟨c, t, rfl, rd_not_ws isLowerChar (by decide) c hc, (rd_ne_of isLowerChar c hc '/' (by decide)).symm⟩
  case varName =>
    obtain ⟨c, t, rfl, hc, ht⟩ := hs
    exact ⟨_, _, rfl, by decide, by decide⟩
  case account =>
    obtain ⟨t, rfl, ht⟩ := hs
    exact ⟨_, _, rfl, by decide, by decide⟩
  case asset =>
    obtain ⟨c, t, rfl, hc, ht⟩ := hs
    exact ⟨c, t, rfl, rd_not_ws isUpperChar (by decide) c hc, (rd_ne_of isUpperChar c hc '/' (by decide)).symm⟩
  case number =>
    rcases hs with ⟨ds, rfl, hne, hd⟩ | ⟨ds, rfl, hne, hd⟩
    · cases txt with
      | nil => exact absurd rfl hne
      | cons c t =>
        have hc : isDigit c = true := by simp at hd; exact hd.1
        exact ⟨c, t, rfl, rd_not_ws isDigit (by decide) c hc, (rd_ne_of isDigit c hc '/' (by decide)).symm⟩
    · exact ⟨_, _, rfl, by decide, by decide⟩
  case ratio =>
    obtain ⟨a, b, rfl, ha, hb', had, hbd⟩ := hs
    cases a with
    | nil => exact absurd rfl ha
    | cons c t =>
      have hc : isDigit c = true := by simp at had; exact had.1
      exact ⟨c, _, rfl, rd_not_ws isDigit (by decide) c hc, (rd_ne_of isDigit c hc '/' (by decide)).symm⟩
  case string =>
    obtain ⟨body, rfl, hbody⟩ := hs
    exact ⟨_, _, rfl, by decide, by decide⟩
  all_goals
    (simp only [fixedText, Option.some.injEq] at hs
     subst hs
     exact ⟨_, _, rfl, by decide, by decide⟩)

theorem rd_render_head (s : Shape) (rest : List Shape) (hs : s.Lexable) :
    ∃ c t, renderShapes (s :: rest) = c :: t ∧ isWsChar c = false ∧ c ≠ '/' := by
  obtain ⟨c, t, hst, hws, hsl⟩ := rd_lexable_head s hs
  cases rest with
  | nil => exact ⟨c, t, by simp [renderShapes, hst], hws, hsl⟩
  | cons s2 r => exact ⟨c, t ++ ' ' :: renderShapes (s2 :: r), by simp [renderShapes, hst], hws, hsl⟩

/-! ### the blank between two tokens -/

theorem rd_best_blank (c : Char) (t : List Char) (hc : isWsChar c = false) :
    bestOf (candidates (' ' :: c :: t)) = some (none, 1) := by
  have hv : mWs (' ' :: c :: t) = 1 := by
    unfold mWs
    rw [rd_spanLen_succ _ _ _ (by decide), rd_spanLen_zero _ _ _ hc]
  apply rd_bestOf_of_wins _ _ (by decide)
  simp [candidates, spanLen, mBlockComment, mLineComment, mLiteral, mRatio, mPercent,
       mString, mIdent, mNumber, mVarName, mAccount, mAsset, isDigit, isLowerChar, isAssetChar, isUpperChar,
       rd_wins, hv]

/-! ### the loop -/

theorem rd_lexLoop_token (k : TK) (txt rest : List Char) (f l c : Nat) (hne : txt ≠ [])
    (hb : bestOf (candidates (txt ++ rest)) = some (some k, txt.length)) :
    lexLoop (f + 1) (txt ++ rest) l c =
      (lexLoop f rest (advance l c txt).1 (advance l c txt).2).map
        (fun toks => { kind := k, text := txt, line := l, col := c } :: toks) := by
  cases txt with
  | nil => exact absurd rfl hne
  | cons a u =>
    rw [List.cons_append, lx_lexLoop_cons, ← List.cons_append, hb]
    simp only [List.take_left', List.drop_left']
    cases lexLoop f rest (advance l c (a :: u)).1 (advance l c (a :: u)).2 <;> rfl

theorem rd_lexLoop_skip (a : Char) (cs : List Char) (f l c : Nat)
    (hb : bestOf (candidates (a :: cs)) = some (none, 1)) :
    lexLoop (f + 1) (a :: cs) l c = lexLoop f cs (advance l c [a]).1 (advance l c [a]).2 := by
  rw [lx_lexLoop_cons, hb]
  simp only [List.take_succ_cons, List.take_zero, List.drop_succ_cons, List.drop_zero]
  cases lexLoop f cs (advance l c [a]).1 (advance l c [a]).2 <;> rfl

theorem rd_lexLoop_render (shapes : List Shape) (h : ∀ s ∈ shapes, s.Lexable) :
    ∀ fuel line col, (renderShapes shapes).length < fuel →
      ∃ ts, lexLoop fuel (renderShapes shapes) line col = some ts ∧ ts.map Tok.shape = shapes := by
  induction shapes with
  | nil =>
    intro fuel line col hf
    cases fuel with
    | zero => omega
    | succ f => exact ⟨[], lx_lexLoop_nil f line col, rfl⟩
  | cons s rest ih =>
    have hs := h s (by simp)
    have ih' := ih (fun x hx => h x (by simp [hx]))
    obtain ⟨c, t, hst, hws, hsl⟩ := rd_lexable_head s hs
    have hne : s.2 ≠ [] := by rw [hst]; simp
    intro fuel line col hf
    cases rest with
    | nil =>
      have hb := rd_best_of_lexable' s hs [] (Or.inl rfl)
      have hlen : 0 < s.2.length := List.length_pos_iff.mpr hne
      simp only [renderShapes] at hf ⊢
      cases fuel with
      | zero => omega
      | succ f =>
        cases f with
        | zero => omega
        | succ f' =>
          have := rd_lexLoop_token s.1 s.2 [] (f' + 1) line col hne hb
          rw [List.append_nil] at this
          rw [this, lx_lexLoop_nil]
          exact ⟨_, rfl, rfl⟩
    | cons s2 r =>
      obtain ⟨c2, t2, hr2, hws2, hsl2⟩ := rd_render_head s2 r (h s2 (by simp))
      have hren : renderShapes (s :: s2 :: r) = s.2 ++ ' ' :: renderShapes (s2 :: r) := rfl
      rw [hren] at hf ⊢
      have hb := rd_best_of_lexable' s hs (' ' :: renderShapes (s2 :: r))
        (Or.inr ⟨_, rfl, by rw [hr2]; simpa using hsl2⟩)
      have hlen : 0 < s.2.length := List.length_pos_iff.mpr hne
      simp only [List.length_append, List.length_cons] at hf
      cases fuel with
      | zero => omega
      | succ f =>
        cases f with
        | zero => omega
        | succ f' =>
          rw [rd_lexLoop_token s.1 s.2 _ (f' + 1) line col hne hb]
          have hbl : bestOf (candidates (' ' :: renderShapes (s2 :: r))) = some (none, 1) := by
            rw [hr2]; exact rd_best_blank c2 t2 hws2
          rw [rd_lexLoop_skip _ _ f' _ _ hbl]
          obtain ⟨ts, hts, hshape⟩ := ih' f' (advance (advance line col s.2).1 (advance line col s.2).2 [' ']).1
            (advance (advance line col s.2).1 (advance line col s.2).2 [' ']).2 (by omega)
          rw [hts]
          exact ⟨_, rfl, by simp [hshape, Tok.shape]⟩

theorem rd_lex_render (shapes : List Shape) (h : ∀ s ∈ shapes, s.Lexable) :
    ∃ ts, lex (renderShapes shapes) = some ts ∧ ts.map Tok.shape = shapes :=
  rd_lexLoop_render shapes h _ 0 0 (Nat.lt_succ_self _)

end NS
