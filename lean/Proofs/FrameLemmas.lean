/-
  Proofs/FrameLemmas.lean — lemmas about the wire format model (Model/Frame.lean).
-/
import Model.Frame

namespace NS

/-! ### the decimal length -/

theorem fr_prefix_eq : contentLengthPrefix =
    [67, 111, 110, 116, 101, 110, 116, 45, 76, 101, 110, 103, 116, 104, 58, 32] := by decide

theorem fr_digit_char (c : Char) (h : c.isDigit = true) : 48 ≤ c.toNat ∧ c.toNat ≤ 57 := by
  simp only [Char.isDigit, Bool.and_eq_true, decide_eq_true_eq, ge_iff_le,
    UInt32.le_iff_toNat_le] at h
  exact h

theorem fr_byte_of_digit (c : Char) (h : c.isDigit = true) :
    (UInt8.ofNat c.toNat).toNat = c.toNat := by
  have := fr_digit_char c h
  simp only [UInt8.toNat_ofNat']
  omega

theorem fr_isDigitByte_iff (b : UInt8) : isDigitByte b = true ↔ 48 ≤ b.toNat ∧ b.toNat ≤ 57 := by
  simp [isDigitByte, UInt8.le_iff_toNat_le]

theorem fr_natBytes_ne_nil (n : Nat) : natBytes n ≠ [] := by
  simp [natBytes, Nat.toDigits_ne_nil]

theorem fr_natBytes_digit (n : Nat) (b : UInt8) (hb : b ∈ natBytes n) : isDigitByte b = true := by
  simp only [natBytes, List.mem_map] at hb
  obtain ⟨c, hc, rfl⟩ := hb
  have hd := Nat.isDigit_of_mem_toDigits (by decide) (by decide) hc
  rw [fr_isDigitByte_iff, fr_byte_of_digit c hd]
  exact fr_digit_char c hd

theorem fr_natBytes_all_digit (n : Nat) : (natBytes n).all isDigitByte = true := by
  rw [List.all_eq_true]; exact fr_natBytes_digit n

theorem fr_foldl_digits (l : List Char) (hl : ∀ c ∈ l, c.isDigit = true) (a : Nat) :
    List.foldl (fun acc b => acc * 10 + (b.toNat - 48)) a (l.map (fun c => UInt8.ofNat c.toNat))
      = Nat.ofDigitChars 10 l a := by
  induction l generalizing a with
  | nil => rfl
  | cons c t ih =>
    simp only [List.map_cons, List.foldl_cons, Nat.ofDigitChars]
    rw [ih (fun c hc => hl c (List.mem_cons_of_mem _ hc))]
    rw [fr_byte_of_digit c (hl c List.mem_cons_self)]
    simp only [Nat.ofDigitChars]
    congr 1
    simp only [show '0'.toNat = 48 from rfl]
    omega

theorem fr_digitsValB_natBytes (n : Nat) : digitsValB (natBytes n) = n := by
  unfold digitsValB natBytes
  rw [fr_foldl_digits _ (fun c hc => Nat.isDigit_of_mem_toDigits (by decide) (by decide) hc)]
  exact Nat.ofDigitChars_ten_toDigits

theorem fr_digit_not_blank (b : UInt8) (h : isDigitByte b = true) : isBlank b = false := by
  rw [fr_isDigitByte_iff] at h
  have h1 : b ≠ SP := by intro hb; subst hb; simp [SP] at h
  have h2 : b ≠ TAB := by intro hb; subst hb; simp [TAB] at h
  simp [isBlank, h1, h2]

theorem fr_digit_ne_LF (b : UInt8) (h : isDigitByte b = true) : b ≠ LF := by
  rw [fr_isDigitByte_iff] at h
  intro hb; subst hb; simp [LF] at h

theorem fr_digit_ne_sign (b : UInt8) (h : isDigitByte b = true) : b ≠ 45 ∧ b ≠ 43 := by
  rw [fr_isDigitByte_iff] at h
  constructor <;> (intro hb; subst hb; simp at h)

theorem fr_digit_isValueByte (b : UInt8) (h : isDigitByte b = true) : isValueByte b = true := by
  rw [fr_isDigitByte_iff] at h
  have h1 : b ≠ 127 := by intro hb; subst hb; simp at h
  have h2 : (32 : UInt8) ≤ b := by
    rw [UInt8.le_iff_toNat_le]
    have : (32 : UInt8).toNat = 32 := rfl
    omega
  simp [isValueByte, h1, h2]

/-! ### lines, colon, blanks -/

theorem fr_readLine_crlf (line rest : Bytes) (h : LF ∉ line) :
    readLine (line ++ CR :: LF :: rest) = some (line, rest) := by
  induction line with
  | nil => simp [readLine, CR, LF]
  | cons b t ih =>
    have hb : b ≠ LF := fun e => h (e ▸ List.mem_cons_self)
    have ht : LF ∉ t := fun e => h (List.mem_cons_of_mem _ e)
    simp only [List.cons_append, readLine, if_neg hb, ih ht]
    cases t with
    | nil => simp [CR, LF]
    | cons c u => simp

theorem fr_cutColon (k v : Bytes) (h : COLON ∉ k) : cutColon (k ++ COLON :: v) = some (k, v) := by
  induction k with
  | nil => simp [cutColon]
  | cons b t ih =>
    have hb : b ≠ COLON := fun e => h (e ▸ List.mem_cons_self)
    have ht : COLON ∉ t := fun e => h (List.mem_cons_of_mem _ e)
    simp only [List.cons_append, cutColon, if_neg hb, ih ht]

theorem fr_dropWhile_head {α : Type} (p : α → Bool) (l : List α)
    (h : ∀ x, l.head? = some x → p x = false) : l.dropWhile p = l := by
  cases l with
  | nil => rfl
  | cons a t => simp [h a rfl]

theorem fr_trimBlanks_id (l : Bytes) (h1 : ∀ x, l.head? = some x → isBlank x = false)
    (h2 : ∀ x, l.getLast? = some x → isBlank x = false) : trimBlanks l = l := by
  unfold trimBlanks
  rw [fr_dropWhile_head _ l h1, fr_dropWhile_head _ l.reverse (by simpa using h2),
    List.reverse_reverse]

/-! ### the header block -/

theorem fr_readHeaders_line (fuel : Nat) (first : Bool) (input line rest k v : Bytes)
    (h0 : ∀ b, input.head? = some b → ¬ (first = true ∧ isBlank b = true))
    (hrl : readLine input = some (line, rest)) (hne : line ≠ [])
    (hcut : cutColon (trimBlanks line) = some (k, v))
    (hcont : rest.head?.map isBlank ≠ some true)
    (hk : k ≠ []) (hk2 : k.all (fun c => isTokenByte c || c = SP) = true)
    (hv : v.all isValueByte = true) :
    readHeaders (fuel + 1) first input =
      match readHeaders fuel false rest with
      | .ok hs r => .ok ((k, v.dropWhile isBlank) :: hs) r
      | .eof => .eof
      | .error e => .error e
      | .unsupported => .unsupported := by
  cases input with
  | nil => simp [readLine] at hrl
  | cons b0 t =>
    have h0' := h0 b0 rfl
    rw [readHeaders]
    simp only [hrl, hcut]
    rw [if_neg h0', if_neg hne, if_neg hcont, if_neg (by simp [hk, hk2]), if_neg (by simp [hv])]
    rfl

theorem fr_readHeaders_end (fuel : Nat) (R : Bytes) :
    readHeaders (fuel + 1) false (CR :: LF :: R) = .ok [] R := by
  have h := fr_readLine_crlf [] R (by simp)
  simp only [List.nil_append] at h
  unfold readHeaders
  simp [h]

theorem fr_readHeaders_encode (f n : Nat) (R : Bytes) :
    readHeaders (f + 2) true (contentLengthPrefix ++ natBytes n ++ [CR, LF, CR, LF] ++ R)
      = .ok [([67, 111, 110, 116, 101, 110, 116, 45, 76, 101, 110, 103, 116, 104], natBytes n)] R := by
  have hD := fr_natBytes_digit n
  have hne := fr_natBytes_ne_nil n
  generalize natBytes n = D at hD hne
  have e : contentLengthPrefix ++ D ++ [CR, LF, CR, LF] ++ R
      = (contentLengthPrefix ++ D) ++ CR :: LF :: (CR :: LF :: R) := by simp
  have hLF : LF ∉ contentLengthPrefix ++ D := by
    rw [List.mem_append]; rintro (h | h)
    · revert h; decide
    · exact fr_digit_ne_LF _ (hD _ h) rfl
  have hrl := fr_readLine_crlf (contentLengthPrefix ++ D) (CR :: LF :: R) hLF
  have htrim : trimBlanks (contentLengthPrefix ++ D) = contentLengthPrefix ++ D := by
    apply fr_trimBlanks_id
    · intro x hx; rw [fr_prefix_eq] at hx; simp at hx; subst hx; decide
    · intro x hx
      rw [List.getLast?_append] at hx
      cases hl : D.getLast? with
      | none => exact absurd (List.getLast?_eq_none_iff.mp hl) hne
      | some y =>
        rw [hl, Option.some_or, Option.some.injEq] at hx
        subst hx
        exact fr_digit_not_blank y (hD y (List.mem_of_getLast? hl))
  have hcut : cutColon (trimBlanks (contentLengthPrefix ++ D))
      = some ([67, 111, 110, 116, 101, 110, 116, 45, 76, 101, 110, 103, 116, 104], SP :: D) := by
    rw [htrim]
    have := fr_cutColon [67, 111, 110, 116, 101, 110, 116, 45, 76, 101, 110, 103, 116, 104]
      (SP :: D) (by decide)
    rw [← this, fr_prefix_eq]; simp [COLON, SP]
  rw [e, fr_readHeaders_line (f + 1) true _ _ _ _ _ ?_ hrl ?_ hcut ?_ ?_ ?_ ?_, fr_readHeaders_end]
  · simp only
    congr 3
    cases D with
    | nil => exact absurd rfl hne
    | cons d t =>
      rw [List.dropWhile_cons, if_pos (by decide), fr_dropWhile_head]
      intro x hx; simp at hx; subst hx
      exact fr_digit_not_blank _ (hD _ List.mem_cons_self)
  · intro b hb; rw [fr_prefix_eq] at hb; simp at hb; subst hb; decide
  · rw [fr_prefix_eq]; simp
  · simp [isBlank, CR, SP, TAB]
  · simp
  · decide
  · simp only [List.all_cons, Bool.and_eq_true, List.all_eq_true]
    exact ⟨by decide, fun x hx => fr_digit_isValueByte x (hD x hx)⟩

theorem fr_parseLength_digits (ds : Bytes) (hne : ds ≠ []) (hd : ∀ b ∈ ds, isDigitByte b = true) :
    parseLength ds = if digitsValB ds < 2^63 then some (digitsValB ds : Int) else none := by
  cases ds with
  | nil => exact absurd rfl hne
  | cons d t =>
    have ⟨h1, h2⟩ := fr_digit_ne_sign d (hd d List.mem_cons_self)
    have hall : (d :: t).all isDigitByte = true := by rw [List.all_eq_true]; exact hd
    unfold parseLength
    split
    next neg ds' heq =>
      split at heq
      · simp_all
      · simp_all
      · simp at heq
        obtain ⟨rfl, rfl⟩ := heq
        simp [hall]

theorem fr_parseLength_natBytes (n : Nat) (h : n < 2^63) :
    parseLength (natBytes n) = some (n : Int) := by
  rw [fr_parseLength_digits _ (fr_natBytes_ne_nil n) (fr_natBytes_digit n), fr_digitsValB_natBytes,
    if_pos h]

/-! ### one frame, many frames -/

theorem fr_frame_roundtrip (body rest : Bytes) (h : body.length < 2^63) :
    readFrame (encodeFrame body ++ rest) = .ok body rest := by
  obtain ⟨f, hf⟩ : ∃ f, (encodeFrame body ++ rest).length + 1 = f + 2 :=
    ⟨(encodeFrame body ++ rest).length - 1, by
      simp only [encodeFrame, fr_prefix_eq, List.length_append, List.length_cons, List.length_nil]
      omega⟩
  have e : encodeFrame body ++ rest
      = contentLengthPrefix ++ natBytes body.length ++ [CR, LF, CR, LF] ++ (body ++ rest) := by
    simp [encodeFrame]
  unfold readFrame
  rw [hf, e, fr_readHeaders_encode]
  have hk : isContentLengthKey [67, 111, 110, 116, 101, 110, 116, 45, 76, 101, 110, 103, 116, 104]
      = true := by decide
  simp only [List.find?_cons, hk, fr_parseLength_natBytes _ h]
  simp only [Int.toNat_natCast, List.length_append, List.take_left', List.drop_left']
  rw [if_neg (by omega), if_neg (by omega)]

theorem fr_readFrame_nil : readFrame [] = .eof := by
  simp [readFrame, readHeaders]

theorem fr_frames_roundtrip (bodies : List Bytes) (h : ∀ b ∈ bodies, b.length < 2^63) :
    readFrames (bodies.length + 1) (bodies.flatMap encodeFrame) = some bodies := by
  induction bodies with
  | nil => simp [readFrames, fr_readFrame_nil]
  | cons b t ih =>
    rw [List.flatMap_cons, List.length_cons, readFrames,
      fr_frame_roundtrip b _ (h b List.mem_cons_self)]
    simp only
    rw [ih (fun c hc => h c (List.mem_cons_of_mem _ hc))]
    rfl

/-! ### a successful read consumes a prefix -/

theorem fr_readLine_splits (input line rest : Bytes) (h : readLine input = some (line, rest)) :
    ∃ pre, input = pre ++ rest ∧ pre ≠ [] := by
  induction input generalizing line rest with
  | nil => simp [readLine] at h
  | cons b t ih =>
    rw [readLine] at h
    split at h
    · simp only [Option.some.injEq, Prod.mk.injEq] at h
      exact ⟨[b], by simp [h.2], by simp⟩
    · split at h
      · simp only [Option.some.injEq, Prod.mk.injEq] at h
        exact ⟨b :: t, by simp [← h.2], by simp⟩
      · rename_i l r hr
        obtain ⟨pre, hp, _⟩ := ih l r hr
        split at h <;>
        · simp only [Option.some.injEq, Prod.mk.injEq] at h
          exact ⟨b :: pre, by rw [hp, ← h.2]; rfl, by simp⟩

theorem fr_readHeaders_splits (fuel : Nat) (first : Bool) (input : Bytes)
    (hs : List (Bytes × Bytes)) (rest : Bytes)
    (h : readHeaders fuel first input = .ok hs rest) :
    ∃ pre, input = pre ++ rest ∧ pre ≠ [] := by
  induction fuel generalizing first input hs with
  | zero => simp [readHeaders] at h
  | succ fuel ih =>
    cases input with
    | nil => simp [readHeaders] at h
    | cons b0 t0 =>
      rw [readHeaders] at h
      split at h
      · cases h
      · split at h
        · cases h
        · rename_i line r hrl
          obtain ⟨pre, hp, hpne⟩ := fr_readLine_splits _ _ _ hrl
          split at h
          · cases h; exact ⟨pre, hp, hpne⟩
          · split at h
            · cases h
            · split at h
              · cases h
              · split at h
                · cases h
                · split at h
                  · cases h
                  · split at h
                    · rename_i hs' r' hrec
                      cases h
                      obtain ⟨pre', hp', _⟩ := ih _ _ _ hrec
                      exact ⟨pre ++ pre', by rw [hp, hp', List.append_assoc], by simp [hpne]⟩
                    · cases h
                    · cases h
                    · cases h

theorem fr_readFrame_ok_splits (input body rest : Bytes) (h : readFrame input = .ok body rest) :
    ∃ hdr, input = hdr ++ body ++ rest ∧ hdr ≠ [] := by
  unfold readFrame at h
  split at h
  · cases h
  · cases h
  · cases h
  · rename_i hs r hh
    obtain ⟨pre, hp, hpne⟩ := fr_readHeaders_splits _ _ _ _ _ hh
    split at h
    · cases h
    · split at h
      · cases h
      · split at h
        · cases h
        · split at h
          · cases h
          · cases h
            exact ⟨pre, by rw [List.append_assoc, List.take_append_drop]; exact hp, hpne⟩

/-! ### the server loop -/

theorem fr_serverRun_eq {σ : Type} (handler : σ → Bytes → Handled σ) (s : σ) (reqs : List Bytes)
    (hreq : ∀ b ∈ reqs, b.length < 2^63) :
    serverRun handler (reqs.length + 1) s (reqs.flatMap encodeFrame)
      = some ((serverSpec handler s reqs).flatMap encodeFrame) := by
  induction reqs generalizing s with
  | nil => simp [serverRun, serverSpec, fr_readFrame_nil]
  | cons b t ih =>
    rw [List.flatMap_cons, List.length_cons, serverRun,
      fr_frame_roundtrip b _ (hreq b List.mem_cons_self)]
    simp only
    rw [ih _ (fun c hc => hreq c (List.mem_cons_of_mem _ hc))]
    simp [serverSpec]

theorem fr_server_wire {σ : Type} (handler : σ → Bytes → Handled σ) (s : σ) (reqs : List Bytes)
    (hreq : ∀ b ∈ reqs, b.length < 2^63)
    (hout : ∀ b ∈ serverSpec handler s reqs, b.length < 2^63) :
    ∃ out, serverRun handler (reqs.length + 1) s (reqs.flatMap encodeFrame) = some out ∧
      readFrames ((serverSpec handler s reqs).length + 1) out = some (serverSpec handler s reqs) :=
  ⟨_, fr_serverRun_eq handler s reqs hreq, fr_frames_roundtrip _ hout⟩

end NS
