/-
  Proofs/DistributeLemmas2.lean — helper lemmas for property C05 that rely on the
  C06 theorems (exact allotment split): what `allotOf` returns when it succeeds.
-/
import Proofs.DistributeLemmas
import Properties.C06

namespace NS

theorem sumPulls_append_dist (l1 l2 : Pulls) : sumPulls (l1 ++ l2) = sumPulls l1 + sumPulls l2 := by
  induction l1 with
  | nil => simp [sumPulls]
  | cons p l1 ih =>
    obtain ⟨a, m⟩ := p
    simp only [List.cons_append, sumPulls, ih]
    omega

theorem bump_mem_nonneg (xs : List Int) (l : Int) (h : ∀ x ∈ xs, 0 ≤ x) : ∀ y ∈ bump xs l, 0 ≤ y := by
  induction xs generalizing l with
  | nil => simp [bump]
  | cons x xs ih =>
    have hx : 0 ≤ x := h x (by simp)
    have hxs : ∀ y ∈ xs, 0 ≤ y := fun y hy => h y (List.mem_cons_of_mem _ hy)
    unfold bump
    split
    · exact h
    · intro y hy
      simp only [List.mem_cons] at hy
      rcases hy with rfl | hy
      · omega
      · exact ih (l - 1) hxs y hy

theorem allotParts_mem_nonneg (n : Int) (ps : List Rat) (hn : 0 ≤ n) (hp : ∀ p ∈ ps, 0 ≤ p) :
    ∀ x ∈ allotParts n ps, 0 ≤ x := by
  unfold allotParts
  apply bump_mem_nonneg
  intro x hx
  simp only [List.mem_map] at hx
  obtain ⟨p, hp', rfl⟩ := hx
  exact floorShare_nonneg n p hn (hp p hp')

/-- a successful allotment of a non-negative amount with non-negative portions: the parts are
    non-negative, one per clause, and add up to the amount -/
theorem allotOf_ok (n : Int) (qs : List (Option Rat)) (parts : List Int) (hn : 0 ≤ n)
    (hq : ∀ q, some q ∈ qs → 0 ≤ q) (h : allotOf n qs = .ok parts) :
    parts.sum = n ∧ (∀ x ∈ parts, 0 ≤ x) ∧ parts.length = qs.length := by
  refine ⟨?_, ?_, allotOf_length n qs parts h⟩
  · unfold allotOf at h
    simp only at h
    split at h
    · rename_i hsome
      split at h
      · cases h
      · rename_i hle
        cases h
        exact allot_sum n _ hn (fillRemaining_nonneg qs hq (not_lt.mp hle)) (fillRemaining_sum qs hsome)
    · rename_i hnone
      split at h
      · cases h
      · rename_i h1
        cases h
        have h1' : sumSome qs = 1 := by simpa using h1
        have hnone' : qs.any Option.isNone = false := Bool.eq_false_iff.mpr hnone
        exact allot_sum n _ hn (fillRemaining_mem_nonneg 0 (le_refl _) qs hq)
          (by rw [fillRemaining_no_remaining_sum qs hnone', h1'])
  · unfold allotOf at h
    simp only at h
    split at h
    · split at h
      · cases h
      · rename_i hle
        cases h
        exact allotParts_mem_nonneg n _ hn (fillRemaining_nonneg qs hq (not_lt.mp hle))
    · split at h
      · cases h
      · cases h
        exact allotParts_mem_nonneg n _ hn (fillRemaining_mem_nonneg 0 (le_refl _) qs hq)

end NS
