/-
  Proofs/LayoutLemmas.lean — the lexer skips layout: lemmas for Properties/C15layout2.lean.

  Structure (generalising Proofs/RenderLemmas.lean, where every separator is one blank):
  (1) a well-spelt token followed by the end of the text or by a whitespace character (after a blank: no slash that
      could continue a ratio) is matched whole as its kind (`ly_best_of_lexable`);
  (2) at a whitespace character, at `/*body*/` and at `//body` + newline the skipped rule wins (`ly_best_ws`,
      `ly_best_block`, `ly_best_line`), and what remains of a layout is a layout (`ly_drop_span`), so a layout in
      front of a token or of the end of the text is skipped (`ly_skip`);
  (3) induction over the tokens (`ly_lexLoop_layout`), then the leading layout (`ly_lex_layout`).
-/
import Spec.Layout
import Proofs.RenderLemmas
import Proofs.LexLemmas

namespace NS

/-! ### a whitespace character (or nothing) after a token -/

def ly_Ws (rest : List Char) : Prop := rest = [] ∨ ∃ c r, rest = c :: r ∧ isWsChar c = true

theorem ly_ws_cases (c : Char) (h : isWsChar c = true) : c = ' ' ∨ c = '\t' ∨ c = '\r' ∨ c = '\n' := by
  simpa [isWsChar, or_assoc] using h

theorem ly_ws_false (p : Char → Bool) (hp : p ' ' = false ∧ p '\t' = false ∧ p '\r' = false ∧ p '\n' = false)
    (c : Char) (hc : isWsChar c = true) : p c = false := by
  rcases ly_ws_cases c hc with rfl | rfl | rfl | rfl
  · exact hp.1
  · exact hp.2.1
  · exact hp.2.2.1
  · exact hp.2.2.2

theorem ly_spanLen_ws (p : Char → Bool) (hp : p ' ' = false ∧ p '\t' = false ∧ p '\r' = false ∧ p '\n' = false)
    (rest : List Char) (hr : ly_Ws rest) : spanLen p rest = 0 := by
  rcases hr with rfl | ⟨c, r, rfl, hc⟩
  · rfl
  · exact rd_spanLen_zero p _ _ (ly_ws_false p hp c hc)

theorem ly_spanLen_all (p : Char → Bool) (hp : p ' ' = false ∧ p '\t' = false ∧ p '\r' = false ∧ p '\n' = false)
    (t rest : List Char) (ht : t.all p = true) (hr : ly_Ws rest) : spanLen p (t ++ rest) = t.length := by
  rw [rd_spanLen_append p t rest ht, ly_spanLen_ws p hp rest hr]; rfl

/-! ### identifiers and keywords -/

theorem ly_prefix_ws (kw : List Char) (hkw : ∀ x ∈ kw, isWsChar x = false) (rest : List Char) (hr : ly_Ws rest) :
    ∀ s : List Char, kw <+: s ++ rest → kw <+: s := by
  induction kw with
  | nil => intro s _; exact List.nil_prefix
  | cons k kw ih =>
    intro s h
    cases s with
    | nil =>
      rcases hr with rfl | ⟨c, r, rfl, hc⟩
      · simp at h
      · simp only [List.nil_append, List.cons_prefix_cons] at h
        have hk := hkw k (by simp)
        rw [h.1, hc] at hk
        exact absurd hk (by decide)
    | cons a s =>
      simp only [List.cons_append, List.cons_prefix_cons] at h
      exact List.cons_prefix_cons.mpr ⟨h.1, ih (fun x hx => hkw x (by simp [hx])) s h.2⟩

theorem ly_kw_lt (kw s rest : List Char) (hkw : ∀ x ∈ kw, isWsChar x = false) (hne : s ≠ kw) (hs : s ≠ [])
    (hr : ly_Ws rest) : mLiteral kw (s ++ rest) < s.length := by
  unfold mLiteral
  split
  · rename_i h
    have hp := ly_prefix_ws kw hkw rest hr s (List.isPrefixOf_iff_prefix.mp h)
    have hle := hp.length_le
    rcases Nat.lt_or_eq_of_le hle with hlt | heq
    · exact hlt
    · exact absurd (hp.eq_of_length heq).symm hne
  · exact List.length_pos_iff.mpr hs

theorem ly_kw_no_ws : ∀ kw ∈ keywordTexts, ∀ x ∈ kw, isWsChar x = false := by decide

theorem ly_mIdent_val (c : Char) (t rest : List Char) (hc : isLowerChar c = true)
    (ht : t.all isIdentTail = true) (hr : ly_Ws rest) : mIdent (c :: (t ++ rest)) = (c :: t).length := by
  simp only [mIdent, hc, if_true, ly_spanLen_all isIdentTail (by decide) t rest ht hr, List.length_cons]
  omega

theorem ly_best_ident (c : Char) (t rest : List Char) (hc : isLowerChar c = true)
    (ht : t.all isIdentTail = true) (hnk : c :: t ∉ keywordTexts) (hr : ly_Ws rest) :
    bestOf (candidates ((c :: t) ++ rest)) = some (some .ident, (c :: t).length) := by
  have hk : ∀ kw ∈ keywordTexts, mLiteral kw (c :: (t ++ rest)) < (c :: t).length := fun kw hkw =>
    ly_kw_lt kw (c :: t) rest (ly_kw_no_ws kw hkw) (fun e => hnk (e ▸ hkw)) (by simp) hr
  have hid := ly_mIdent_val c t rest hc ht hr
  rw [List.cons_append, rd_cands_lower _ _ hc]
  apply rd_bestOf_of_wins _ _ (by simp)
  simp [keywordTexts] at hk
  simp [rd_wins, hk, hid]

/-! ### keywords -/

def ly_identLike : List Char → Bool
  | c :: t => isLowerChar c && t.all isIdentTail
  | [] => false

theorem ly_kw_like : ∀ kw ∈ keywordTexts, ly_identLike kw = true := by decide

theorem ly_best_keyword (k : TK) (txt : List Char) (h : fixedText k = some txt) (hmem : txt ∈ keywordTexts)
    (rest : List Char) (hr : ly_Ws rest) : bestOf (candidates (txt ++ rest)) = some (some k, txt.length) := by
  have hlike := ly_kw_like txt hmem
  cases htxt : txt with
  | nil => rw [htxt] at hlike; simp [ly_identLike] at hlike
  | cons c t =>
    rw [htxt] at hlike
    simp only [ly_identLike, Bool.and_eq_true] at hlike
    obtain ⟨hc, ht⟩ := hlike
    have hid : mIdent (txt ++ rest) = txt.length := by rw [htxt]; exact ly_mIdent_val c t rest hc ht hr
    have hcand := rd_cands_lower c (t ++ rest) hc
    rw [← List.cons_append, ← htxt] at hcand
    have hpos : txt.length ≠ 0 := by rw [htxt]; simp
    rw [← htxt, hcand, hid]
    clear hcand hid htxt hc ht
    apply rd_bestOf_of_wins _ _ hpos
    cases k <;> simp only [fixedText, Option.some.injEq, reduceCtorEq] at h <;> subst h
    all_goals first
      | (exfalso; revert hmem; decide)
      | simp [rd_wins, mLiteral]

theorem ly_Ws_spanDigit (rest : List Char) (hr : ly_Ws rest) : spanLen isDigit rest = 0 :=
  ly_spanLen_ws isDigit (by decide) rest hr

/-! ### keywords and punctuation -/

theorem ly_best_fixed (k : TK) (txt : List Char) (h : fixedText k = some txt) (rest : List Char)
    (hr : ly_Ws rest) : bestOf (candidates (txt ++ rest)) = some (some k, txt.length) := by
  have hd := ly_Ws_spanDigit rest hr
  cases k <;> simp only [fixedText, Option.some.injEq, reduceCtorEq] at h <;> subst h
  all_goals first
    | exact ly_best_keyword _ _ rfl (by decide) rest hr
    | (apply rd_bestOf_of_wins _ _ (by decide)
       simp [candidates, mWs, spanLen, isWsChar, mBlockComment, mLineComment, mLiteral, mRatio, mPercent,
         mString, mIdent, mNumber, mVarName, mAccount, mAsset, isDigit, isLowerChar, isAssetChar, isUpperChar,
         rd_wins, hd])

/-! ### variables -/

theorem ly_best_varName (c : Char) (t rest : List Char) (hc : isVarHead c = true)
    (ht : t.all isVarTail = true) (hr : ly_Ws rest) :
    bestOf (candidates (('$' :: c :: t) ++ rest)) = some (some .varName, ('$' :: c :: t).length) := by
  have hv : mVarName ('$' :: c :: (t ++ rest)) = t.length + 2 := by
    simp only [mVarName, hc, if_true, ly_spanLen_all isVarTail (by decide) t rest ht hr]; omega
  apply rd_bestOf_of_wins _ _ (by simp)
  simp [candidates, mWs, spanLen, isWsChar, mBlockComment, mLineComment, mLiteral, mRatio, mPercent,
       mString, mIdent, mNumber, mAccount, mAsset, isDigit, isLowerChar, isAssetChar, isUpperChar,
       rd_wins, hv]

/-! ### accounts -/

theorem ly_acctTail_ws (fuel : Nat) (rest : List Char) (hr : ly_Ws rest) : acctTail fuel rest = 0 := by
  rcases hr with rfl | ⟨c, r, rfl, hc⟩
  · unfold acctTail; split
    · rename_i heq; simp at heq
    · rfl
  · unfold acctTail; split
    · rename_i heq
      simp only [List.cons.injEq] at heq
      rw [heq.1] at hc
      exact absurd hc (by decide)
    · rfl

theorem ly_acct (rest : List Char) (hr : ly_Ws rest) (t : List Char) :
    (acctOk true t = true → ∀ fuel, t.length ≤ fuel →
      spanLen isAcctChar (t ++ rest) + acctTail fuel ((t ++ rest).drop (spanLen isAcctChar (t ++ rest))) = t.length) ∧
    (acctOk false t = true → spanLen isAcctChar (t ++ rest) ≠ 0) := by
  induction t with
  | nil =>
    refine ⟨fun _ fuel _ => ?_, fun h => by simp [acctOk] at h⟩
    simp only [List.nil_append, ly_spanLen_ws isAcctChar (by decide) rest hr, List.drop_zero,
      ly_acctTail_ws fuel rest hr, List.length_nil]
  | cons c t ih =>
    by_cases hc : isAcctChar c = true
    · have hok : ∀ b, acctOk b (c :: t) = acctOk true t := by intro b; simp [acctOk, hc]
      refine ⟨fun h fuel hf => ?_, fun _ => ?_⟩
      · rw [hok] at h
        have := ih.1 h fuel (by simp at hf; omega)
        simp only [List.cons_append, rd_spanLen_succ _ _ _ hc, List.drop_succ_cons, List.length_cons]
        omega
      · simp [rd_spanLen_succ _ _ _ hc]
    · have hc' : isAcctChar c = false := by simpa using hc
      by_cases hcol : c = ':'
      · subst hcol
        refine ⟨fun h fuel hf => ?_, fun h => by simp [acctOk, hc'] at h⟩
        have h' : acctOk false t = true := by simpa [acctOk, hc'] using h
        cases fuel with
        | zero => simp at hf
        | succ f =>
          simp only [List.length_cons, Nat.add_le_add_iff_right] at hf
          have hn := ih.2 h'
          have hrec := ih.1 (by
            cases t with
            | nil => simp [acctOk] at h'
            | cons a t' =>
              by_cases ha : isAcctChar a = true
              · simpa [acctOk, ha] using h'
              · have ha' : isAcctChar a = false := by simpa using ha
                simp [acctOk, ha'] at h') f hf
          simp only [List.cons_append, rd_spanLen_zero _ _ _ hc', List.drop_zero, Nat.zero_add,
            List.length_cons]
          unfold acctTail
          simp only [if_neg hn]
          omega
      · refine ⟨fun h => ?_, fun h => ?_⟩ <;> simp [acctOk, hc', hcol] at h

theorem ly_best_account (t rest : List Char) (ht : acctOk false t = true) (hr : ly_Ws rest) :
    bestOf (candidates (('@' :: t) ++ rest)) = some (some .account, ('@' :: t).length) := by
  have hok : acctOk true t = true := by
    cases t with
    | nil => simp [acctOk] at ht
    | cons a t' =>
      by_cases ha : isAcctChar a = true
      · simpa [acctOk, ha] using ht
      · have ha' : isAcctChar a = false := by simpa using ha
        simp [acctOk, ha'] at ht
  have h1 := (ly_acct rest hr t).1 hok (t ++ rest).length (by simp)
  have h2 := (ly_acct rest hr t).2 ht
  have hv : mAccount ('@' :: (t ++ rest)) = t.length + 1 := by
    simp only [mAccount, if_neg h2]; omega
  apply rd_bestOf_of_wins _ _ (by simp)
  simp [candidates, mWs, spanLen, isWsChar, mBlockComment, mLineComment, mLiteral, mRatio, mPercent,
       mString, mIdent, mNumber, mVarName, mAsset, isDigit, isLowerChar, isAssetChar, isUpperChar,
       rd_wins, hv]

/-! ### assets -/

theorem ly_best_asset (c : Char) (t rest : List Char) (hc : isUpperChar c = true)
    (ht : t.all isAssetChar = true) (hr : ly_Ws rest) :
    bestOf (candidates ((c :: t) ++ rest)) = some (some .asset, (c :: t).length) := by
  have hv : mAsset (c :: (t ++ rest)) = (c :: t).length := by
    rw [← List.cons_append]
    exact ly_spanLen_all isAssetChar (by decide) (c :: t) rest (by simp [rd_upper_asset c hc, ht]) hr
  rw [List.cons_append, rd_cands_upper _ _ hc]
  apply rd_bestOf_of_wins _ _ (by simp)
  simp [rd_wins, hv]

/-! ### numbers -/

/-- after a slash: the opening of a comment -/
def ly_slashOk (r : List Char) : Prop := ∀ r3, r = '/' :: r3 → ∃ x r4, r3 = x :: r4 ∧ (x = '*' ∨ x = '/')

/-- the text after a token: nothing, or a whitespace character not followed by a slash that could belong to a ratio -/
def ly_After (rest : List Char) : Prop := rest = [] ∨ ∃ c r, rest = c :: r ∧ isWsChar c = true ∧ ly_slashOk r

theorem ly_Ws_of (rest : List Char) (h : ly_After rest) : ly_Ws rest := by
  rcases h with rfl | ⟨c, r, rfl, hc, _⟩
  · exact Or.inl rfl
  · exact Or.inr ⟨c, r, rfl, hc⟩

theorem ly_mRatio_number (ds rest : List Char) (hd : ds.all isDigit = true) (hr : ly_After rest) :
    mRatio (ds ++ rest) = 0 := by
  rw [lx_mRatio_eq, ly_spanLen_all isDigit (by decide) ds rest hd (ly_Ws_of rest hr),
    rd_drop_append_length]
  split
  · rfl
  · rcases hr with rfl | ⟨c, r, rfl, hc, hr⟩
    · rfl
    · rcases ly_ws_cases c hc with rfl | rfl | rfl | rfl
      · simp only [lx_sp, List.drop_succ_cons, List.drop_zero]
        split
        · rename_i r3
          obtain ⟨x, r4, rfl, hx⟩ := hr r3 rfl
          rcases hx with rfl | rfl <;> simp [spanLen, isDigit]
        · rfl
      · rfl
      · rfl
      · rfl

theorem ly_mPercent_number (ds rest : List Char) (hd : ds.all isDigit = true) (hr : ly_Ws rest) :
    mPercent (ds ++ rest) = 0 := by
  unfold mPercent
  simp only [ly_spanLen_all isDigit (by decide) ds rest hd hr, rd_drop_append_length]
  split
  · rfl
  · rcases hr with rfl | ⟨c, r, rfl, hc⟩
    · rfl
    · rcases ly_ws_cases c hc with rfl | rfl | rfl | rfl <;> rfl

theorem ly_best_number_pos (ds rest : List Char) (hne : ds ≠ []) (hd : ds.all isDigit = true)
    (hr : ly_After rest) : bestOf (candidates (ds ++ rest)) = some (some .number, ds.length) := by
  have hb := ly_Ws_of rest hr
  cases ds with
  | nil => exact absurd rfl hne
  | cons c t =>
    have hc : isDigit c = true := by simp at hd; exact hd.1
    have h1 := ly_mRatio_number (c :: t) rest hd hr
    have h2 := ly_mPercent_number (c :: t) rest hd hb
    have h3 : mNumber (c :: (t ++ rest)) = (c :: t).length := by
      rw [rd_mNumber_digits c _ hc, ← List.cons_append]
      exact ly_spanLen_all isDigit (by decide) (c :: t) rest hd hb
    have h4 : mAsset (c :: (t ++ rest)) = (c :: t).length := by
      rw [← List.cons_append]
      refine ly_spanLen_all isAssetChar (by decide) (c :: t) rest ?_ hb
      rw [List.all_eq_true] at hd ⊢
      exact fun x hx => rd_digit_asset x (hd x hx)
    rw [List.cons_append] at h1 h2 ⊢
    rw [rd_cands_digit _ _ hc, h1, h2, h3, h4]
    apply rd_bestOf_of_wins _ _ (by simp)
    simp [rd_wins]

theorem ly_best_number_neg (ds rest : List Char) (hne : ds ≠ []) (hd : ds.all isDigit = true)
    (hr : ly_Ws rest) :
    bestOf (candidates (('-' :: ds) ++ rest)) = some (some .number, ('-' :: ds).length) := by
  have hpos : 0 < ds.length := List.length_pos_iff.mpr hne
  have hv : mNumber ('-' :: (ds ++ rest)) = ds.length + 1 := by
    simp only [mNumber, ly_spanLen_all isDigit (by decide) ds rest hd hr]
    rw [if_neg (by omega)]
  apply rd_bestOf_of_wins _ _ (by simp)
  simp [candidates, mWs, spanLen, isWsChar, mBlockComment, mLineComment, mLiteral, mRatio, mPercent,
       mString, mIdent, mVarName, mAccount, mAsset, isDigit, isLowerChar, isAssetChar, isUpperChar,
       rd_wins, hv, hpos]

/-! ### ratios -/

theorem ly_best_ratio (a b rest : List Char) (ha : a ≠ []) (hb : b ≠ []) (had : a.all isDigit = true)
    (hbd : b.all isDigit = true) (hr : ly_Ws rest) :
    bestOf (candidates ((a ++ '/' :: b) ++ rest)) = some (some .ratio, (a ++ '/' :: b).length) := by
  cases a with
  | nil => exact absurd rfl ha
  | cons c t =>
    cases b with
    | nil => exact absurd rfl hb
    | cons d u =>
      have hc : isDigit c = true := by simp at had; exact had.1
      have hdd : isDigit d = true := by simp at hbd; exact hbd.1
      have hsp : d ≠ ' ' := (rd_ne_of isDigit d hdd ' ' (by decide)).symm
      have hspanA : spanLen isDigit ((c :: t) ++ '/' :: ((d :: u) ++ rest)) = (c :: t).length := by
        rw [rd_spanLen_append isDigit _ _ had, rd_spanLen_zero isDigit '/' _ (by decide)]; rfl
      have hspanB : spanLen isDigit ((d :: u) ++ rest) = (d :: u).length :=
        ly_spanLen_all isDigit (by decide) _ rest hbd hr
      have h1 : mRatio ((c :: t) ++ '/' :: ((d :: u) ++ rest)) = (c :: t).length + 1 + (d :: u).length := by
        rw [lx_mRatio_eq, hspanA, rd_drop_append_length]
        rw [if_neg (by simp)]
        have hsp1 : lx_sp ('/' :: ((d :: u) ++ rest)) = 0 := rfl
        rw [hsp1, List.drop_zero]
        simp only
        have hsp2 : lx_sp ((d :: u) ++ rest) = 0 := by
          simp only [lx_sp, List.cons_append]
          split
          · rename_i heq; simp at heq; exact absurd heq.1 hsp
          · rfl
        rw [hsp2, List.drop_zero, hspanB, if_neg (by simp)]
      have h2 : mPercent ((c :: t) ++ '/' :: ((d :: u) ++ rest)) = 0 := by
        unfold mPercent
        simp only [hspanA, rd_drop_append_length]
        split
        · rfl
        · rfl
      have h3 : mNumber ((c :: t) ++ '/' :: ((d :: u) ++ rest)) = (c :: t).length := by
        rw [List.cons_append, rd_mNumber_digits c _ hc, ← List.cons_append, hspanA]
      have h4 : mAsset ((c :: t) ++ '/' :: ((d :: u) ++ rest)) = (c :: t).length + 1 + (d :: u).length := by
        have : (c :: t) ++ '/' :: ((d :: u) ++ rest) = ((c :: t) ++ '/' :: (d :: u)) ++ rest := by simp
        rw [this]
        have hall : ((c :: t) ++ '/' :: (d :: u)).all isAssetChar = true := by
          rw [List.all_eq_true] at had hbd ⊢
          intro x hx
          rcases List.mem_append.mp hx with hx | hx
          · exact rd_digit_asset x (had x hx)
          · rcases List.mem_cons.mp hx with rfl | hx
            · decide
            · exact rd_digit_asset x (hbd x hx)
        unfold mAsset
        rw [ly_spanLen_all isAssetChar (by decide) _ rest hall hr]
        simp only [List.length_append, List.length_cons]
        omega
      have e : ((c :: t) ++ '/' :: (d :: u)) ++ rest = (c :: t) ++ '/' :: ((d :: u) ++ rest) := by simp
      rw [e]
      rw [List.cons_append] at h1 h2 h3 h4 ⊢
      rw [rd_cands_digit _ _ hc, h1, h2, h3, h4]
      apply rd_bestOf_of_wins _ _ (by simp)
      simp [rd_wins]
      omega

/-! ### every kind -/

theorem ly_best_of_lexable (s : Shape) (hs : s.Lexable) (rest : List Char) (hr : ly_After rest) :
    bestOf (candidates (s.2 ++ rest)) = some (some s.1, s.2.length) := by
  have hb := ly_Ws_of rest hr
  obtain ⟨k, txt⟩ := s
  cases k <;> simp only [Shape.Lexable] at hs
  case ident =>
    obtain ⟨⟨c, t, rfl, hc, ht⟩, hnk⟩ := hs
    exact ly_best_ident c t rest hc ht hnk hb
  case varName =>
    obtain ⟨c, t, rfl, hc, ht⟩ := hs
    exact ly_best_varName c t rest hc ht hb
  case account =>
    obtain ⟨t, rfl, ht⟩ := hs
    exact ly_best_account t rest ht hb
  case asset =>
    obtain ⟨c, t, rfl, hc, ht⟩ := hs
    exact ly_best_asset c t rest hc ht hb
  case number =>
    rcases hs with ⟨ds, rfl, hne, hd⟩ | ⟨ds, rfl, hne, hd⟩
    · exact ly_best_number_pos _ rest hne hd hr
    · exact ly_best_number_neg ds rest hne hd hb
  case ratio =>
    obtain ⟨a, b, rfl, ha, hb', had, hbd⟩ := hs
    exact ly_best_ratio a b rest ha hb' had hbd hb
  case string =>
    obtain ⟨body, rfl, hbody⟩ := hs
    exact rd_best_string body rest hbody
  all_goals exact ly_best_fixed _ _ hs rest hb

/-! ### layout: inversion and closure -/

theorem ly_layout_inv (s : List Char) (h : Layout s) :
    s = [] ∨ (∃ c t, s = c :: t ∧ isWsChar c = true ∧ Layout t) ∨
    (∃ body t, s = '/' :: '*' :: (body ++ '*' :: '/' :: t) ∧ blockBodyOk body = true ∧ Layout t) ∨
    (∃ body c t, s = '/' :: '/' :: (body ++ c :: t) ∧ lineBodyOk body = true ∧ isNlChar c = true ∧ Layout t) := by
  cases h with
  | nil => exact Or.inl rfl
  | ws c t hc ht => exact Or.inr (Or.inl ⟨c, t, rfl, hc, ht⟩)
  | block body t hb ht => exact Or.inr (Or.inr (Or.inl ⟨body, t, rfl, hb, ht⟩))
  | line body c t hb hc ht => exact Or.inr (Or.inr (Or.inr ⟨body, c, t, rfl, hb, hc, ht⟩))

theorem ly_layout_tail (c : Char) (t : List Char) (h : Layout (c :: t)) (hc : isWsChar c = true) : Layout t := by
  rcases ly_layout_inv _ h with h0 | ⟨c', t', he, _, ht⟩ | ⟨body, t', he, _, _⟩ | ⟨body, c', t', he, _, _, _⟩
  · simp at h0
  · simp only [List.cons.injEq] at he; rw [he.2]; exact ht
  · simp only [List.cons.injEq] at he; rw [he.1] at hc; exact absurd hc (by decide)
  · simp only [List.cons.injEq] at he; rw [he.1] at hc; exact absurd hc (by decide)

theorem ly_layout_slash (r3 : List Char) (h : Layout ('/' :: r3)) : ∃ x r4, r3 = x :: r4 ∧ (x = '*' ∨ x = '/') := by
  rcases ly_layout_inv _ h with h0 | ⟨c', t', he, hc, ht⟩ | ⟨body, t', he, _, _⟩ | ⟨body, c', t', he, _, _, _⟩
  · simp at h0
  · simp only [List.cons.injEq] at he; rw [← he.1] at hc; exact absurd hc (by decide)
  · simp only [List.cons.injEq, true_and] at he; exact ⟨_, _, he, Or.inl rfl⟩
  · simp only [List.cons.injEq, true_and] at he; exact ⟨_, _, he, Or.inr rfl⟩

theorem ly_layout_append (a b : List Char) (ha : Layout a) (hb : Layout b) : Layout (a ++ b) := by
  induction ha with
  | nil => exact hb
  | ws c t hc _ ih => exact Layout.ws c _ hc ih
  | block body t hbody _ ih =>
    have := Layout.block body _ hbody ih
    simpa using this
  | line body c t hbody hc _ ih =>
    have := Layout.line body c _ hbody hc ih
    simpa using this

/-- the text after a layout: nothing, or a character that is neither whitespace nor a slash -/
def ly_TokHead (rest : List Char) : Prop := rest = [] ∨ ∃ c r, rest = c :: r ∧ isWsChar c = false ∧ c ≠ '/'

theorem ly_slashOk_layout (lay rest : List Char) (hl : Layout lay) (hr : ly_TokHead rest) :
    ly_slashOk (lay ++ rest) := by
  intro r3 he
  cases lay with
  | nil =>
    rcases hr with rfl | ⟨c, r, rfl, _, hc⟩
    · simp at he
    · simp only [List.nil_append, List.cons.injEq] at he; exact absurd he.1 hc
  | cons a t =>
    simp only [List.cons_append, List.cons.injEq] at he
    obtain ⟨rfl, rfl⟩ := he
    obtain ⟨x, r4, rfl, hx⟩ := ly_layout_slash t hl
    exact ⟨x, r4 ++ rest, rfl, hx⟩

theorem ly_after_sep (sep rest : List Char) (hs : SafeSep sep) (hr : ly_TokHead rest) : ly_After (sep ++ rest) := by
  obtain ⟨hl, c, t, rfl, hc⟩ := hs
  exact Or.inr ⟨c, t ++ rest, rfl, hc, ly_slashOk_layout t rest (ly_layout_tail c t hl hc) hr⟩

/-- dropping a run of whitespace characters from a layout (followed by a token or nothing) leaves a layout -/
theorem ly_drop_span (p : Char → Bool) (hp : ∀ c, p c = true → isWsChar c = true) (rest : List Char)
    (hr : ly_TokHead rest) : ∀ sep : List Char, Layout sep →
    ∃ sep', (sep ++ rest).drop (spanLen p (sep ++ rest)) = sep' ++ rest ∧ Layout sep' ∧
      sep'.length + spanLen p (sep ++ rest) = sep.length := by
  intro sep
  induction sep with
  | nil =>
    intro _
    have h0 : spanLen p rest = 0 := by
      rcases hr with rfl | ⟨c, r, rfl, hc, _⟩
      · rfl
      · apply rd_spanLen_zero
        cases hpc : p c with
        | false => rfl
        | true => rw [hp c hpc] at hc; exact absurd hc (by decide)
    exact ⟨[], by simp [h0], Layout.nil, by simp [h0]⟩
  | cons a t ih =>
    intro hl
    cases hpa : p a with
    | true =>
      obtain ⟨sep', h1, h2, h3⟩ := ih (ly_layout_tail a t hl (hp a hpa))
      refine ⟨sep', ?_, h2, ?_⟩
      · rw [List.cons_append, rd_spanLen_succ p a _ hpa, List.drop_succ_cons]; exact h1
      · rw [List.cons_append, rd_spanLen_succ p a _ hpa, List.length_cons]; omega
    | false =>
      refine ⟨a :: t, ?_, hl, ?_⟩
      · rw [List.cons_append, rd_spanLen_zero p a _ hpa]; rfl
      · rw [List.cons_append, rd_spanLen_zero p a _ hpa]; rfl

/-! ### the three layout rules -/

theorem ly_best_ws (c : Char) (t : List Char) (hc : isWsChar c = true) :
    bestOf (candidates (c :: t)) = some (none, mWs (c :: t)) := by
  have hv : mWs (c :: t) = spanLen isWsChar t + 1 := rd_spanLen_succ _ _ _ hc
  apply rd_bestOf_of_wins _ _ (by rw [hv]; omega)
  rcases ly_ws_cases c hc with rfl | rfl | rfl | rfl <;>
  simp [candidates, spanLen, mBlockComment, mLineComment, mLiteral, mRatio, mPercent,
       mString, mIdent, mNumber, mVarName, mAccount, mAsset, isDigit, isLowerChar, isAssetChar, isUpperChar,
       rd_wins]

theorem ly_noPair_tail (p q x : Char) (t : List Char) (h : noPair p q (x :: t) = true) : noPair p q t = true := by
  cases t with
  | nil => rfl
  | cons y t => simp only [noPair, Bool.and_eq_true] at h; exact h.2

theorem ly_noPair_head (p q x y : Char) (t : List Char) (h : noPair p q (x :: y :: t) = true) :
    ¬ (x = p ∧ y = q) := by
  intro hxy
  simp only [noPair, Bool.and_eq_true] at h
  simp [hxy.1, hxy.2] at h

theorem ly_commentBody (u : List Char) : ∀ (body : List Char) (fuel : Nat), body.length < fuel →
    noPair '*' '/' body = true → noPair '/' '*' body = true → body.getLast? ≠ some '/' →
    commentBody fuel (body ++ '*' :: '/' :: u) = some (body.length + 2) := by
  intro body
  induction body with
  | nil =>
    intro fuel hf _ _ _
    cases fuel with
    | zero => simp at hf
    | succ f => simp [commentBody]
  | cons a b ih =>
    intro fuel hf h1 h2 h3
    cases fuel with
    | zero => simp at hf
    | succ f =>
      have hrec : commentBody f (b ++ '*' :: '/' :: u) = some (b.length + 2) := by
        apply ih f (by simp at hf; omega) (ly_noPair_tail _ _ _ _ h1) (ly_noPair_tail _ _ _ _ h2)
        cases b with
        | nil => simp
        | cons y b' => simpa [List.getLast?_cons_cons] using h3
      rw [List.cons_append]
      unfold commentBody
      split
      · rename_i heq
        exfalso
        cases b with
        | nil => simp at heq
        | cons y b' =>
          simp only [List.cons_append, List.cons.injEq] at heq
          exact ly_noPair_head _ _ _ _ _ h1 ⟨rfl, heq.1⟩
      · rename_i heq
        exfalso
        cases b with
        | nil => simp at h3
        | cons y b' =>
          simp only [List.cons_append, List.cons.injEq] at heq
          exact ly_noPair_head _ _ _ _ _ h2 ⟨rfl, heq.1⟩
      · rw [hrec]; simp

theorem ly_mBlock_val (body u : List Char) (hb : blockBodyOk body = true) :
    mBlockComment ('/' :: '*' :: (body ++ '*' :: '/' :: u)) = body.length + 4 := by
  simp only [blockBodyOk, Bool.and_eq_true, bne_iff_ne, ne_eq] at hb
  have h := ly_commentBody u body ((body ++ '*' :: '/' :: u).length + 1) (by simp; omega) hb.1.1 hb.1.2 hb.2
  simp only [mBlockComment, h]
  omega

theorem ly_best_block (body u : List Char) (hb : blockBodyOk body = true) :
    bestOf (candidates ('/' :: '*' :: (body ++ '*' :: '/' :: u))) = some (none, body.length + 4) := by
  have hv := ly_mBlock_val body u hb
  apply rd_bestOf_of_wins _ _ (by omega)
  simp [candidates, mWs, spanLen, isWsChar, mLineComment, mLiteral, mRatio, mPercent,
       mString, mIdent, mNumber, mVarName, mAccount, mAsset, isDigit, isLowerChar, isAssetChar, isUpperChar,
       rd_wins, hv]

theorem ly_spanLen_le (p : Char → Bool) (c : Char) (u : List Char) (hc : p c = false) :
    ∀ w : List Char, spanLen p (w ++ c :: u) ≤ w.length := by
  intro w
  induction w with
  | nil => rw [List.nil_append, rd_spanLen_zero p c u hc]; exact Nat.le_refl _
  | cons a w ih =>
    rw [List.cons_append]
    unfold spanLen
    split
    · simp only [List.length_cons]; omega
    · omega

theorem ly_mLine_val (body : List Char) (c : Char) (u : List Char) (hb : lineBodyOk body = true)
    (hc : isNlChar c = true) :
    mLineComment ('/' :: '/' :: (body ++ c :: u)) = 2 + body.length + spanLen isNlChar (c :: u) := by
  have hn : spanLen (fun c => !isNlChar c) (body ++ c :: u) = body.length := by
    rw [rd_spanLen_append _ body _ hb, rd_spanLen_zero _ c u (by simp [hc])]; rfl
  have hm : spanLen isNlChar (c :: u) ≠ 0 := by rw [rd_spanLen_succ _ _ _ hc]; omega
  simp only [mLineComment, hn, rd_drop_append_length, if_neg hm]

theorem ly_mBlock_zero2 (t : List Char) : mBlockComment ('/' :: '/' :: t) = 0 := by
  unfold mBlockComment
  split
  · rename_i heq; simp at heq
  · rfl

theorem ly_best_line (body : List Char) (c : Char) (u : List Char) (hb : lineBodyOk body = true)
    (hc : isNlChar c = true) :
    bestOf (candidates ('/' :: '/' :: (body ++ c :: u))) =
      some (none, 2 + body.length + spanLen isNlChar (c :: u)) := by
  have hv := ly_mLine_val body c u hb hc
  have hbl := ly_mBlock_zero2 (body ++ c :: u)
  have hca : isAssetChar c = false := by
    have : c = '\r' ∨ c = '\n' := by simpa [isNlChar] using hc
    rcases this with rfl | rfl <;> decide
  have ha : mAsset ('/' :: '/' :: (body ++ c :: u)) ≤ body.length + 2 := by
    have := ly_spanLen_le isAssetChar c u hca ('/' :: '/' :: body)
    simpa [mAsset] using this
  have hm : spanLen isNlChar (c :: u) ≠ 0 := by rw [rd_spanLen_succ _ _ _ hc]; omega
  apply rd_bestOf_of_wins _ _ (by omega)
  simp only [candidates, hv, hbl]
  generalize mAsset ('/' :: '/' :: (body ++ c :: u)) = a at ha
  generalize spanLen isNlChar (c :: u) = m at hm
  simp [mWs, spanLen, isWsChar, mLiteral, mRatio, mPercent,
       mString, mIdent, mNumber, mVarName, mAccount, isDigit, isLowerChar, rd_wins]
  omega

/-! ### the loop -/

theorem ly_lexLoop_skip (a : Char) (cs : List Char) (n f l c : Nat)
    (hb : bestOf (candidates (a :: cs)) = some (none, n)) :
    lexLoop (f + 1) (a :: cs) l c =
      lexLoop f ((a :: cs).drop n) (advance l c ((a :: cs).take n)).1 (advance l c ((a :: cs).take n)).2 := by
  rw [lx_lexLoop_cons, hb]
  simp only
  cases lexLoop f ((a :: cs).drop n) (advance l c ((a :: cs).take n)).1 (advance l c ((a :: cs).take n)).2 <;> rfl

/-- a layout in front of a token (or of the end of the text) is skipped -/
theorem ly_skip (n : Nat) : ∀ (sep rest : List Char), sep.length ≤ n → Layout sep → ly_TokHead rest →
    ∀ f l c, (sep ++ rest).length < f →
      ∃ f' l' c', rest.length < f' ∧ lexLoop f (sep ++ rest) l c = lexLoop f' rest l' c' := by
  induction n with
  | zero =>
    intro sep rest hn _ _ f l c hf
    have : sep = [] := List.length_eq_zero_iff.mp (by omega)
    subst this
    exact ⟨f, l, c, by simpa using hf, rfl⟩
  | succ n ih =>
    intro sep rest hn hl hr f l c hf
    cases f with
    | zero => omega
    | succ f =>
    rcases ly_layout_inv _ hl with rfl | ⟨a, t, rfl, ha, ht⟩ | ⟨body, t, rfl, hb, ht⟩ | ⟨body, a, t, rfl, hb, ha, ht⟩
    · exact ⟨f + 1, l, c, by simpa using hf, rfl⟩
    · obtain ⟨sep', h1, h2, h3⟩ := ly_drop_span isWsChar (fun _ h => h) rest hr (a :: t) hl
      have hbest := ly_best_ws a (t ++ rest) ha
      have hpos : spanLen isWsChar ((a :: t) ++ rest) = spanLen isWsChar (t ++ rest) + 1 :=
        rd_spanLen_succ _ _ _ ha
      rw [List.cons_append, ly_lexLoop_skip _ _ _ f l c hbest]
      unfold mWs
      rw [← List.cons_append, h1]
      simp only [List.length_cons, List.length_append] at hf hn h3
      exact ih sep' rest (by omega) h2 hr f _ _ (by simp only [List.length_append]; omega)
    · have hbest := ly_best_block body (t ++ rest) hb
      have e : ('/' :: '*' :: (body ++ '*' :: '/' :: t)) ++ rest = '/' :: '*' :: (body ++ '*' :: '/' :: (t ++ rest)) := by
        simp
      have hd : ('/' :: '*' :: (body ++ '*' :: '/' :: (t ++ rest))).drop (body.length + 4) = t ++ rest := by
        have : '/' :: '*' :: (body ++ '*' :: '/' :: (t ++ rest)) = ('/' :: '*' :: (body ++ ['*', '/'])) ++ (t ++ rest) := by
          simp
        rw [this]
        exact List.drop_left' (by simp)
      rw [e, ly_lexLoop_skip _ _ _ f l c hbest, hd]
      simp only [List.length_cons, List.length_append] at hf hn
      exact ih t rest (by omega) ht hr f _ _ (by simp only [List.length_append]; omega)
    · obtain ⟨sep', h1, h2, h3⟩ := ly_drop_span isNlChar (fun x h => by
        have : x = '\r' ∨ x = '\n' := by simpa [isNlChar] using h
        rcases this with rfl | rfl <;> decide) rest hr (a :: t) (Layout.ws a t (by
        have : a = '\r' ∨ a = '\n' := by simpa [isNlChar] using ha
        rcases this with rfl | rfl <;> decide) ht)
      have hbest := ly_best_line body a (t ++ rest) hb ha
      have e : ('/' :: '/' :: (body ++ a :: t)) ++ rest = '/' :: '/' :: (body ++ a :: (t ++ rest)) := by
        simp
      have hd : ('/' :: '/' :: (body ++ a :: (t ++ rest))).drop (2 + body.length + spanLen isNlChar (a :: (t ++ rest)))
          = sep' ++ rest := by
        have : '/' :: '/' :: (body ++ a :: (t ++ rest)) = ('/' :: '/' :: body) ++ ((a :: t) ++ rest) := by
          simp
        rw [this, ← List.drop_drop, List.drop_left' (by simp; omega)]
        exact h1
      rw [e, ly_lexLoop_skip _ _ _ f l c hbest, hd]
      simp only [List.length_cons, List.length_append, List.cons_append] at hf hn h3
      exact ih sep' rest (by omega) h2 hr f _ _ (by simp only [List.length_append]; omega)

theorem ly_skip_end (sep : List Char) (hl : Layout sep) (f l c : Nat) (hf : sep.length < f) :
    lexLoop f sep l c = some [] := by
  obtain ⟨f', l', c', hf', h⟩ := ly_skip sep.length sep [] (Nat.le_refl _) hl (Or.inl rfl) f l c (by simpa using hf)
  rw [List.append_nil] at h
  rw [h]
  cases f' with
  | zero => simp at hf'
  | succ f'' => exact lx_lexLoop_nil _ _ _

theorem ly_interleave_head (s : Shape) (rest : List Shape) (seps : List (List Char)) (hs : s.Lexable) :
    ∃ c t, interleave (s :: rest) seps = c :: t ∧ isWsChar c = false ∧ c ≠ '/' := by
  obtain ⟨c, t, hst, hws, hsl⟩ := rd_lexable_head s hs
  cases rest with
  | nil => exact ⟨c, t, by simp [interleave, hst], hws, hsl⟩
  | cons s2 r =>
    cases seps with
    | nil => exact ⟨c, _, by simp only [interleave, hst, List.cons_append]; rfl, hws, hsl⟩
    | cons sep seps => exact ⟨c, _, by simp only [interleave, hst, List.cons_append]; rfl, hws, hsl⟩

theorem ly_tokHead_append (a b : List Char) (h : ∃ c t, a = c :: t ∧ isWsChar c = false ∧ c ≠ '/') :
    ly_TokHead (a ++ b) := by
  obtain ⟨c, t, rfl, h1, h2⟩ := h
  exact Or.inr ⟨c, t ++ b, rfl, h1, h2⟩

theorem ly_safeSep_blank : SafeSep [' '] :=
  ⟨Layout.ws ' ' [] (by decide) Layout.nil, ' ', [], rfl, by decide⟩

theorem ly_lexLoop_layout (shapes : List Shape) (h : ∀ s ∈ shapes, s.Lexable) (trail : List Char)
    (htrail : trail = [] ∨ SafeSep trail) :
    ∀ (seps : List (List Char)), (∀ sep ∈ seps, SafeSep sep) → ∀ f l c,
      (interleave shapes seps ++ trail).length < f →
      (lexLoop f (interleave shapes seps ++ trail) l c).map (fun ts => ts.map Tok.shape) = some shapes := by
  have htl : Layout trail := by
    rcases htrail with rfl | ht
    · exact Layout.nil
    · exact ht.1
  have hta : ly_After trail := by
    rcases htrail with rfl | ht
    · exact Or.inl rfl
    · have := ly_after_sep trail [] ht (Or.inl rfl)
      rwa [List.append_nil] at this
  induction shapes with
  | nil =>
    intro seps _ f l c hf
    simp only [interleave, List.nil_append] at hf ⊢
    rw [ly_skip_end trail htl f l c hf]
    rfl
  | cons s rest ih =>
    have hs := h s (by simp)
    have ih' := ih (fun x hx => h x (by simp [hx]))
    obtain ⟨c0, t0, hst, _, _⟩ := rd_lexable_head s hs
    have hne : s.2 ≠ [] := by rw [hst]; simp
    cases rest with
    | nil =>
      intro seps _ f l c hf
      have hi : interleave [s] seps = s.2 := by cases seps <;> rfl
      rw [hi] at hf ⊢
      have hb := ly_best_of_lexable s hs trail hta
      cases f with
      | zero => omega
      | succ f =>
        rw [rd_lexLoop_token s.1 s.2 trail f l c hne hb]
        have hlen : 0 < s.2.length := List.length_pos_iff.mpr hne
        simp only [List.length_append] at hf
        rw [ly_skip_end trail htl f _ _ (by omega)]
        simp [Tok.shape]
    | cons s2 r =>
      have key : ∀ (sep : List Char) (seps' : List (List Char)), SafeSep sep → (∀ x ∈ seps', SafeSep x) →
          ∀ f l c, (s.2 ++ sep ++ interleave (s2 :: r) seps' ++ trail).length < f →
          (lexLoop f (s.2 ++ sep ++ interleave (s2 :: r) seps' ++ trail) l c).map (fun ts => ts.map Tok.shape)
            = some (s :: s2 :: r) := by
        intro sep seps' hsep hseps' f l c hf
        have hth : ly_TokHead (interleave (s2 :: r) seps' ++ trail) :=
          ly_tokHead_append _ _ (ly_interleave_head s2 r seps' (h s2 (by simp)))
        have e : s.2 ++ sep ++ interleave (s2 :: r) seps' ++ trail
            = s.2 ++ (sep ++ (interleave (s2 :: r) seps' ++ trail)) := by simp
        rw [e] at hf ⊢
        have hb := ly_best_of_lexable s hs _ (ly_after_sep sep _ hsep hth)
        cases f with
        | zero => omega
        | succ f =>
          rw [rd_lexLoop_token s.1 s.2 _ f l c hne hb]
          have hlen : 0 < s.2.length := List.length_pos_iff.mpr hne
          simp only [List.length_append] at hf
          obtain ⟨f', l', c', hf', hskip⟩ := ly_skip sep.length sep _ (Nat.le_refl _) hsep.1 hth f
            (advance l c s.2).1 (advance l c s.2).2 (by simp only [List.length_append]; omega)
          rw [hskip]
          have := ih' seps' hseps' f' l' c' hf'
          cases hrec : lexLoop f' (interleave (s2 :: r) seps' ++ trail) l' c' with
          | none => rw [hrec] at this; cases this
          | some ts =>
            rw [hrec] at this
            simp only [Option.map_some, Option.some.injEq] at this
            simp [Tok.shape, this]
      intro seps hseps f l c hf
      cases seps with
      | nil =>
        have hi : interleave (s :: s2 :: r) [] = s.2 ++ [' '] ++ interleave (s2 :: r) [] := by
          simp [interleave]
        rw [hi] at hf ⊢
        exact key [' '] [] ly_safeSep_blank (by simp) f l c hf
      | cons sep seps' =>
        have hi : interleave (s :: s2 :: r) (sep :: seps') = s.2 ++ sep ++ interleave (s2 :: r) seps' := rfl
        rw [hi] at hf ⊢
        exact key sep seps' (hseps sep (by simp)) (fun x hx => hseps x (by simp [hx])) f l c hf

/-- layout in front of, between and behind well-spelt tokens does not change the token stream (kinds and texts) -/
theorem ly_lex_layout (shapes : List Shape) (seps : List (List Char)) (lead trail : List Char)
    (h : ∀ s ∈ shapes, s.Lexable) (hs : ∀ sep ∈ seps, SafeSep sep)
    (hlead : Layout lead) (htrail : trail = [] ∨ SafeSep trail) :
    (lex (lead ++ interleave shapes seps ++ trail)).map (fun ts => ts.map Tok.shape) = some shapes := by
  have htl : Layout trail := by
    rcases htrail with rfl | ht
    · exact Layout.nil
    · exact ht.1
  unfold lex
  cases shapes with
  | nil =>
    simp only [interleave, List.append_nil]
    rw [ly_skip_end (lead ++ trail) (ly_layout_append lead trail hlead htl) _ 0 0 (Nat.lt_succ_self _)]
    rfl
  | cons s rest =>
    have hth : ly_TokHead (interleave (s :: rest) seps ++ trail) :=
      ly_tokHead_append _ _ (ly_interleave_head s rest seps (h s (by simp)))
    rw [List.append_assoc]
    obtain ⟨f', l', c', hf', hskip⟩ := ly_skip lead.length lead _ (Nat.le_refl _) hlead hth
      ((lead ++ (interleave (s :: rest) seps ++ trail)).length + 1) 0 0 (Nat.lt_succ_self _)
    rw [hskip]
    exact ly_lexLoop_layout (s :: rest) h trail htrail seps hs f' l' c' hf'

end NS
