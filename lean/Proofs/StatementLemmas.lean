/-
  Proofs/StatementLemmas.lean — helper lemmas for Properties/Statement.lean:
  inversion of `specSend` / `specSendAll`, the names a draw / a distribution can
  mention, and the "all zero" facts of a zero-amount statement.
-/
import Spec.Statement
import Proofs.DrawLemmas
import Proofs.DrawBoundLemmas

namespace NS

/-! ### inversion of the reference semantics -/

theorem st_specSend_ok (asset : String) (n : Int) (rs : RSource) (rd : RDest) (av : Avail)
    (ps : List Posting) (h : specSend asset n rs rd av = .ok ps) :
    0 ≤ n ∧ ∃ l d, draw asset rs av n = .ok l ∧ sumPulls l = n ∧ distribute rd n = .ok d ∧
      ps = Reconcile asset (nonzero l) (nonzero d) := by
  unfold specSend at h
  split at h
  · cases h
  · rename_i hn
    split at h
    · cases h
    · cases h
    · rename_i l hl
      split at h
      · rename_i hsum
        split at h
        · cases h
        · cases h
        · rename_i d hd
          injection h with h
          exact ⟨by omega, l, d, hl, hsum, hd, h.symm⟩
      · cases h

theorem st_specSendAll_ok (asset : String) (rs : RSource) (rd : RDest) (av : Avail)
    (ps : List Posting) (h : specSendAll asset rs rd av = .ok ps) :
    ∃ l d, drawAll asset rs av = .ok l ∧ distribute rd (sumPulls l) = .ok d ∧
      ps = Reconcile asset (nonzero l) (nonzero d) := by
  unfold specSendAll at h
  split at h
  · cases h
  · cases h
  · rename_i l hl
    split at h
    · cases h
    · cases h
    · rename_i d hd
      injection h with h
      exact ⟨l, d, hl, hd, h.symm⟩

/-! ### `nonzero` -/

theorem st_mem_nonzero {l : Pulls} {p : String × Int} (h : p ∈ nonzero l) : p ∈ l ∧ p.2 ≠ 0 := by
  unfold nonzero at h
  rw [List.mem_filter] at h
  exact ⟨h.1, by simpa using h.2⟩

theorem st_nonzero_pos (l : Pulls) (h : ∀ p ∈ l, 0 ≤ p.2) : ∀ p ∈ nonzero l, 0 < p.2 := by
  intro p hp
  obtain ⟨h1, h2⟩ := st_mem_nonzero hp
  have := h p h1
  omega

theorem st_nonzero_names {l : Pulls} {x : String}
    (h : x ∈ (nonzero l).map (fun p : String × Int => p.1)) :
    ∃ p ∈ l, p.1 = x := by
  rw [List.mem_map] at h
  obtain ⟨p, hp, e⟩ := h
  exact ⟨p, (st_mem_nonzero hp).1, e⟩

theorem st_nonzero_all_zero (l : Pulls) (h : ∀ p ∈ l, p.2 = 0) : nonzero l = [] := by
  unfold nonzero
  rw [List.filter_eq_nil_iff]
  intro p hp
  simp [h p hp]

/-- non-negative amounts that add up to zero are all zero -/
theorem st_all_zero_of_sum_zero : ∀ (l : Pulls), (∀ p ∈ l, 0 ≤ p.2) → sumPulls l = 0 → ∀ p ∈ l, p.2 = 0
  | [], _, _ => by simp
  | (a, m) :: t, hnn, hs => by
      simp only [sumPulls] at hs
      have hm : 0 ≤ m := hnn (a, m) (by simp)
      have ht : ∀ p ∈ t, 0 ≤ p.2 := fun p hp => hnn p (List.mem_cons_of_mem _ hp)
      have hst := sumPulls_nonneg_of t ht
      have ih := st_all_zero_of_sum_zero t ht (by omega)
      intro p hp
      rcases List.mem_cons.mp hp with rfl | hp
      · show m = 0
        omega
      · exact ih p hp

theorem st_reconcile_nil_nil (asset : String) : Reconcile asset [] [] = [] := by
  simp [Reconcile, reconcileLoop]

/-! ### a draw of zero pulls only zeros -/

theorem st_mem_append_zero {l1 l2 : Pulls} (h1 : ∀ p ∈ l1, p.2 = 0) (h2 : ∀ p ∈ l2, p.2 = 0) :
    ∀ p ∈ l1 ++ l2, p.2 = 0 := by
  intro p hp
  rcases List.mem_append.mp hp with hp | hp
  · exact h1 p hp
  · exact h2 p hp

theorem st_sumPulls_all_zero : ∀ (l : Pulls), (∀ p ∈ l, p.2 = 0) → sumPulls l = 0
  | [], _ => rfl
  | (a, m) :: t, h => by
      have hm : m = 0 := h (a, m) (by simp)
      have := st_sumPulls_all_zero t (fun p hp => h p (List.mem_cons_of_mem _ hp))
      simp only [sumPulls]
      omega

mutual
theorem st_draw_zero_all (asset : String) : ∀ (r : RSource) (av : Avail) (l : Pulls),
    draw asset r av 0 = .ok l → ∀ p ∈ l, p.2 = 0
  | .acct a od, av, l, h => by
      simp only [draw, Outcome.ok.injEq] at h
      subst h
      simp only [List.mem_singleton, forall_eq]
      omega
  | .unb a, av, l, h => by
      simp only [draw, Outcome.ok.injEq] at h
      subst h
      simp
  | .capped cap s, av, l, h => by
      simp only [draw] at h
      have : max 0 (min 0 cap) = 0 := by omega
      rw [this] at h
      exact st_draw_zero_all asset s av l h
  | .inorder rs, av, l, h => by
      simp only [draw] at h
      exact st_drawList_zero_all asset rs av l h
  | .allot qs subs, av, l, h => by
      simp only [draw] at h
      split at h <;> try cases h
      rename_i parts hp
      exact st_drawAllot_zero_all asset subs parts av l (allotOf_zero qs parts hp) h

theorem st_drawList_zero_all (asset : String) : ∀ (rs : List RSource) (av : Avail) (l : Pulls),
    drawList asset rs av 0 = .ok l → ∀ p ∈ l, p.2 = 0
  | [], av, l, h => by
      simp only [drawList, Outcome.ok.injEq] at h
      subst h
      simp
  | s :: ss, av, l, h => by
      simp only [drawList] at h
      split at h <;> try cases h
      rename_i l1 h1
      split at h <;> try cases h
      rename_i l2 h2
      have a1 := st_draw_zero_all asset s av l1 h1
      rw [st_sumPulls_all_zero l1 a1] at h2
      have a2 := st_drawList_zero_all asset ss _ l2 (by simpa using h2)
      exact st_mem_append_zero a1 a2

theorem st_drawAllot_zero_all (asset : String) : ∀ (subs : List RSource) (parts : List Int) (av : Avail)
    (l : Pulls), (∀ p ∈ parts, p = 0) → drawAllot asset subs parts av = .ok l → ∀ p ∈ l, p.2 = 0
  | [], parts, av, l, _, h => by
      simp only [drawAllot, Outcome.ok.injEq] at h
      subst h
      simp
  | _ :: _, [], av, l, _, h => by simp [drawAllot] at h
  | s :: ss, p :: ps, av, l, hz, h => by
      simp only [drawAllot] at h
      have hp0 : p = 0 := hz p (by simp)
      subst hp0
      split at h <;> try cases h
      rename_i l1 h1
      split at h
      · split at h <;> try cases h
        rename_i l2 h2
        have a1 := st_draw_zero_all asset s av l1 h1
        have a2 := st_drawAllot_zero_all asset ss ps _ l2
          (fun q hq => hz q (List.mem_cons_of_mem _ hq)) h2
        exact st_mem_append_zero a1 a2
      · cases h
end

/-! ### the names of a draw are accounts of the source -/

theorem st_mem_append_names {l1 l2 : Pulls} {A B : List String}
    (h1 : ∀ p ∈ l1, p.1 ∈ A) (h2 : ∀ p ∈ l2, p.1 ∈ B) : ∀ p ∈ l1 ++ l2, p.1 ∈ A ++ B := by
  intro p hp
  rcases List.mem_append.mp hp with hp | hp
  · exact List.mem_append_left _ (h1 p hp)
  · exact List.mem_append_right _ (h2 p hp)

mutual
theorem st_draw_names (asset : String) : ∀ (r : RSource) (av : Avail) (need : Int) (l : Pulls),
    draw asset r av need = .ok l → ∀ p ∈ l, p.1 ∈ accountsOfS r
  | .acct a od, av, need, l, h => by
      simp only [draw, Outcome.ok.injEq] at h
      subst h
      simp [accountsOfS]
  | .unb a, av, need, l, h => by
      simp only [draw, Outcome.ok.injEq] at h
      subst h
      simp [accountsOfS]
  | .capped cap s, av, need, l, h => by
      simp only [draw] at h
      rw [accountsOfS]
      exact st_draw_names asset s av _ l h
  | .inorder rs, av, need, l, h => by
      simp only [draw] at h
      rw [accountsOfS]
      exact st_drawList_names asset rs av need l h
  | .allot qs subs, av, need, l, h => by
      simp only [draw] at h
      rw [accountsOfS]
      split at h <;> try cases h
      rename_i parts hp
      exact st_drawAllot_names asset subs parts av l h

theorem st_drawList_names (asset : String) : ∀ (rs : List RSource) (av : Avail) (need : Int) (l : Pulls),
    drawList asset rs av need = .ok l → ∀ p ∈ l, p.1 ∈ accountsOfSList rs
  | [], av, need, l, h => by
      simp only [drawList, Outcome.ok.injEq] at h
      subst h
      simp
  | s :: ss, av, need, l, h => by
      simp only [drawList] at h
      split at h <;> try cases h
      rename_i l1 h1
      split at h <;> try cases h
      rename_i l2 h2
      rw [accountsOfSList]
      exact st_mem_append_names (st_draw_names asset s av need l1 h1)
        (st_drawList_names asset ss _ _ l2 h2)

theorem st_drawAllot_names (asset : String) : ∀ (subs : List RSource) (parts : List Int) (av : Avail)
    (l : Pulls), drawAllot asset subs parts av = .ok l → ∀ p ∈ l, p.1 ∈ accountsOfSList subs
  | [], parts, av, l, h => by
      simp only [drawAllot, Outcome.ok.injEq] at h
      subst h
      simp
  | _ :: _, [], av, l, h => by simp [drawAllot] at h
  | s :: ss, p :: ps, av, l, h => by
      simp only [drawAllot] at h
      split at h <;> try cases h
      rename_i l1 h1
      split at h
      · split at h <;> try cases h
        rename_i l2 h2
        rw [accountsOfSList]
        exact st_mem_append_names (st_draw_names asset s av p l1 h1)
          (st_drawAllot_names asset ss ps _ l2 h2)
      · cases h
end

mutual
theorem st_drawAll_names (asset : String) : ∀ (r : RSource) (av : Avail) (l : Pulls),
    drawAll asset r av = .ok l → ∀ p ∈ l, p.1 ∈ accountsOfS r
  | .acct a od, av, l, h => by
      simp only [drawAll, Outcome.ok.injEq] at h
      subst h
      simp [accountsOfS]
  | .unb a, av, l, h => by simp [drawAll] at h
  | .capped cap s, av, l, h => by
      simp only [drawAll] at h
      rw [accountsOfS]
      exact st_draw_names asset s av _ l h
  | .inorder rs, av, l, h => by
      simp only [drawAll] at h
      rw [accountsOfS]
      exact st_drawAllList_names asset rs av l h
  | .allot qs subs, av, l, h => by simp [drawAll] at h

theorem st_drawAllList_names (asset : String) : ∀ (rs : List RSource) (av : Avail) (l : Pulls),
    drawAllList asset rs av = .ok l → ∀ p ∈ l, p.1 ∈ accountsOfSList rs
  | [], av, l, h => by
      simp only [drawAllList, Outcome.ok.injEq] at h
      subst h
      simp
  | s :: ss, av, l, h => by
      simp only [drawAllList] at h
      split at h <;> try cases h
      rename_i l1 h1
      split at h <;> try cases h
      rename_i l2 h2
      rw [accountsOfSList]
      exact st_mem_append_names (st_drawAll_names asset s av l1 h1)
        (st_drawAllList_names asset ss _ l2 h2)
end

/-! ### the names of a distribution are accounts of the destination, or the `kept` pseudo-receiver -/

theorem st_mem_append_namesK {l1 l2 : Pulls} {A B : List String}
    (h1 : ∀ p ∈ l1, p.1 ∈ A ∨ p.1 = KEPT_ADDR) (h2 : ∀ p ∈ l2, p.1 ∈ B ∨ p.1 = KEPT_ADDR) :
    ∀ p ∈ l1 ++ l2, p.1 ∈ A ++ B ∨ p.1 = KEPT_ADDR := by
  intro p hp
  rcases List.mem_append.mp hp with hp | hp
  · exact (h1 p hp).imp (List.mem_append_left _) id
  · exact (h2 p hp).imp (List.mem_append_right _) id

mutual
theorem st_distribute_names : (r : RDest) → (n : Int) → (l : Pulls) →
    distribute r n = .ok l → ∀ p ∈ l, p.1 ∈ accountsOfD r ∨ p.1 = KEPT_ADDR
  | .acct a, n, l, h => by
      simp only [distribute, Outcome.ok.injEq] at h
      subst h
      simp [accountsOfD]
  | .inorder caps tos rest, n, l, h => by
      simp only [distribute] at h
      rw [accountsOfD]
      split at h <;> try cases h
      rename_i left l1 hcl
      have a1 := st_distClauses_names tos caps n left l1 hcl
      split at h
      · cases h
        intro p hp
        exact (a1 p hp).imp (List.mem_append_left _) id
      · split at h <;> try cases h
        rename_i l2 hk
        exact st_mem_append_namesK a1 (st_distKoD_names rest left l2 hk)
  | .allot qs tos, n, l, h => by
      simp only [distribute] at h
      rw [accountsOfD]
      split at h <;> try cases h
      rename_i parts ha
      exact st_distAllot_names tos parts l h

theorem st_distKoD_names : (t : RKoD) → (n : Int) → (l : Pulls) →
    distKoD t n = .ok l → ∀ p ∈ l, p.1 ∈ accountsOfK t ∨ p.1 = KEPT_ADDR
  | .kept, n, l, h => by
      simp only [distKoD, Outcome.ok.injEq] at h
      subst h
      simp
  | .to d, n, l, h => by
      simp only [distKoD] at h
      rw [accountsOfK]
      exact st_distribute_names d n l h

theorem st_distClauses_names : (tos : List RKoD) → (caps : List Int) → (left left' : Int) → (l : Pulls) →
    distClauses caps tos left = .ok (left', l) → ∀ p ∈ l, p.1 ∈ accountsOfKs tos ∨ p.1 = KEPT_ADDR
  | tos, [], left, left', l, h => by
      simp only [distClauses, Outcome.ok.injEq, Prod.mk.injEq] at h
      obtain ⟨_, rfl⟩ := h
      simp
  | [], c :: cs, left, left', l, h => by simp [distClauses] at h
  | t :: ts, c :: cs, left, left', l, h => by
      simp only [distClauses] at h
      rw [accountsOfKs]
      split at h
      · simp only [Outcome.ok.injEq, Prod.mk.injEq] at h
        obtain ⟨_, rfl⟩ := h
        simp
      · split at h
        · intro p hp
          exact (st_distClauses_names ts cs left left' l h p hp).imp (List.mem_append_right _) id
        · split at h <;> try cases h
          rename_i l1 hk
          split at h <;> try cases h
          rename_i _ l2 hrest
          exact st_mem_append_namesK (st_distKoD_names t _ l1 hk)
            (st_distClauses_names ts cs _ left' l2 hrest)

theorem st_distAllot_names : (tos : List RKoD) → (parts : List Int) → (l : Pulls) →
    distAllot tos parts = .ok l → ∀ p ∈ l, p.1 ∈ accountsOfKs tos ∨ p.1 = KEPT_ADDR
  | [], parts, l, h => by
      simp only [distAllot, Outcome.ok.injEq] at h
      subst h
      simp
  | t :: ts, [], l, h => by simp [distAllot] at h
  | t :: ts, x :: xs, l, h => by
      simp only [distAllot] at h
      rw [accountsOfKs]
      split at h <;> try cases h
      rename_i l1 hk
      split at h <;> try cases h
      rename_i l2 hrest
      exact st_mem_append_namesK (st_distKoD_names t x l1 hk) (st_distAllot_names ts xs l2 hrest)
end

end NS
