/-
  Proofs/LedgerLemmas.lean — helper lemmas for Properties/C0809.lean:
  the cache as an association list (`cacheGet`/`cacheSet`), `assocGet`/`assocSet`,
  `replay`, and `runStatements`.
-/
import Spec.Ledger

namespace NS

/-! ### cacheGet / cacheHas on nil, cons -/

theorem lg_cacheGet_nil (a s : String) : cacheGet [] a s = 0 := rfl

theorem lg_cacheGet_cons (k : String × String) (w : Int) (c : Cache) (a s : String) :
    cacheGet ((k, w) :: c) a s = if k = (a, s) then w else cacheGet c a s := by
  unfold cacheGet
  by_cases h : k = (a, s)
  · simp [h]
  · simp [h]

theorem lg_cacheHas_nil (a s : String) : cacheHas [] a s = false := rfl

theorem lg_cacheHas_cons (k : String × String) (w : Int) (c : Cache) (a s : String) :
    cacheHas ((k, w) :: c) a s = (decide (k = (a, s)) || cacheHas c a s) := by
  unfold cacheHas
  by_cases h : k = (a, s)
  · simp [h]
  · simp [h]

theorem lg_cacheGet_of_not_has (c : Cache) (a s : String) (h : cacheHas c a s = false) :
    cacheGet c a s = 0 := by
  induction c with
  | nil => rfl
  | cons p t ih =>
    obtain ⟨k, w⟩ := p
    rw [lg_cacheHas_cons] at h
    rw [lg_cacheGet_cons]
    by_cases hk : k = (a, s)
    · simp [hk] at h
    · simp [hk] at h
      simp [hk, ih h]

theorem lg_cacheHas_iff_find (c : Cache) (a s : String) :
    cacheHas c a s = true ↔ (c.find? (fun p => p.1 == (a, s))).isSome = true := by
  unfold cacheHas
  simp [List.find?_isSome]

/-! ### the two branches of cacheSet -/

theorem lg_cacheGet_map (c : Cache) (a s : String) (v : Int) (a' s' : String) :
    cacheGet (c.map (fun p => if p.1 == (a, s) then (p.1, v) else p)) a' s' =
      if (a' = a ∧ s' = s) ∧ cacheHas c a s = true then v else cacheGet c a' s' := by
  induction c with
  | nil => simp [lg_cacheGet_nil, lg_cacheHas_nil]
  | cons p t ih =>
    obtain ⟨k, w⟩ := p
    rw [List.map_cons, lg_cacheHas_cons, lg_cacheGet_cons k w]
    by_cases hk : k = (a, s)
    · subst hk
      simp only [beq_self_eq_true, if_true, lg_cacheGet_cons, ih]
      by_cases hq : a' = a ∧ s' = s
      · obtain ⟨rfl, rfl⟩ := hq
        simp
      · have : ¬ ((a, s) = (a', s')) := by
          intro h; apply hq; cases h; exact ⟨rfl, rfl⟩
        simp [hq, this]
    · have hk' : (k == (a, s)) = false := by simpa using hk
      simp only [hk', Bool.false_eq_true, if_false, lg_cacheGet_cons, ih]
      by_cases hq : a' = a ∧ s' = s
      · obtain ⟨rfl, rfl⟩ := hq
        simp [hk]
      · simp [hq]

theorem lg_cacheGet_append (c : Cache) (a s : String) (v : Int) (a' s' : String) :
    cacheGet (c ++ [((a, s), v)]) a' s' =
      if cacheHas c a' s' = true then cacheGet c a' s'
      else if a' = a ∧ s' = s then v else 0 := by
  induction c with
  | nil =>
    rw [List.nil_append, lg_cacheGet_cons, lg_cacheHas_nil]
    by_cases hq : a' = a ∧ s' = s
    · obtain ⟨rfl, rfl⟩ := hq
      simp
    · have : ¬ ((a, s) = (a', s')) := by
        intro h; apply hq; cases h; exact ⟨rfl, rfl⟩
      simp [hq, this, lg_cacheGet_nil]
  | cons p t ih =>
    obtain ⟨k, w⟩ := p
    rw [List.cons_append, lg_cacheGet_cons, lg_cacheHas_cons, lg_cacheGet_cons, ih]
    by_cases hk : k = (a', s')
    · simp [hk]
    · simp [hk]

/-- reading back what was written; every other entry is unchanged -/
theorem lg_cacheGet_cacheSet (c : Cache) (a s : String) (v : Int) (a' s' : String) :
    cacheGet (cacheSet c a s v) a' s' = if a' = a ∧ s' = s then v else cacheGet c a' s' := by
  unfold cacheSet
  by_cases hh : cacheHas c a s = true
  · rw [if_pos hh, lg_cacheGet_map]
    simp [hh]
  · have hh' : cacheHas c a s = false := by simpa using hh
    rw [if_neg hh, lg_cacheGet_append]
    by_cases hq : a' = a ∧ s' = s
    · obtain ⟨rfl, rfl⟩ := hq
      simp [hh']
    · simp only [hq, if_false]
      by_cases h2 : cacheHas c a' s' = true
      · simp [h2]
      · have h2' : cacheHas c a' s' = false := by simpa using h2
        simp [h2', lg_cacheGet_of_not_has _ _ _ h2']

/-! ### applyPostings tracks replay -/

theorem lg_balOfCache_step (c : Cache) (p : Posting) :
    balOfCache
      (cacheSet (cacheSet c p.source p.asset (cacheGet c p.source p.asset - p.amount))
        p.destination p.asset
        (cacheGet (cacheSet c p.source p.asset (cacheGet c p.source p.asset - p.amount))
          p.destination p.asset + p.amount)) = applyPosting (balOfCache c) p := by
  funext a s
  simp only [balOfCache, applyPosting, lg_cacheGet_cacheSet]
  by_cases h1 : a = p.destination ∧ s = p.asset
  · obtain ⟨rfl, rfl⟩ := h1
    by_cases h2 : p.destination = p.source
    · simp [h2]
    · simp [h2]
  · by_cases h2 : a = p.source ∧ s = p.asset
    · obtain ⟨rfl, rfl⟩ := h2
      have h3 : ¬ p.source = p.destination := fun e => h1 ⟨e, rfl⟩
      simp [h3]
    · simp [h1, h2]

theorem lg_cache_tracks_replay (c : Cache) (ps : List Posting) :
    balOfCache (applyPostings c ps) = replay (balOfCache c) ps := by
  induction ps generalizing c with
  | nil => rfl
  | cons p t ih =>
    simp only [applyPostings, replay]
    rw [ih, lg_balOfCache_step]

/-! ### assocGet / assocSet -/

theorem lg_assocGet_map_same {κ ν : Type} [BEq κ] [LawfulBEq κ] (m : List (κ × ν)) (k : κ) (v : ν)
    (h : m.any (fun p => p.1 == k) = true) :
    assocGet (m.map (fun p => if p.1 == k then (k, v) else p)) k = some v := by
  induction m with
  | nil => simp at h
  | cons p t ih =>
    by_cases hp : p.1 = k
    · simp [assocGet, hp]
    · have hp' : (p.1 == k) = false := by simpa using hp
      have ht : t.any (fun p => p.1 == k) = true := by
        simpa [List.any_cons, hp'] using h
      have := ih ht
      simp only [assocGet] at this ⊢
      simp only [List.map_cons, hp', Bool.false_eq_true, if_false, List.find?_cons]
      exact this

theorem lg_assocGet_map_other {κ ν : Type} [BEq κ] [LawfulBEq κ] (m : List (κ × ν)) (k k' : κ) (v : ν)
    (h : k' ≠ k) :
    assocGet (m.map (fun p => if p.1 == k then (k, v) else p)) k' = assocGet m k' := by
  induction m with
  | nil => rfl
  | cons p t ih =>
    simp only [assocGet] at ih ⊢
    by_cases hp : p.1 = k
    · have hk : (k == k') = false := by simpa using (fun e => h e.symm)
      simp only [List.map_cons, hp, beq_self_eq_true, if_true, List.find?_cons, hk]
      exact ih
    · have hp' : (p.1 == k) = false := by simpa using hp
      simp only [List.map_cons, hp', Bool.false_eq_true, if_false, List.find?_cons]
      cases hq : (p.1 == k')
      · exact ih
      · rfl

theorem lg_assocGet_append {κ ν : Type} [BEq κ] (m : List (κ × ν)) (x : κ × ν) (k' : κ) :
    assocGet (m ++ [x]) k' =
      match assocGet m k' with
      | some w => some w
      | none => if x.1 == k' then some x.2 else none := by
  induction m with
  | nil =>
    simp only [assocGet, List.nil_append, List.find?_cons, List.find?_nil]
    cases hx : (x.1 == k') <;> simp
  | cons p t ih =>
    simp only [assocGet] at ih ⊢
    simp only [List.cons_append, List.find?_cons]
    cases hq : (p.1 == k')
    · exact ih
    · simp

theorem lg_assocGet_of_not_any {κ ν : Type} [BEq κ] (m : List (κ × ν)) (k : κ)
    (h : m.any (fun p => p.1 == k) = false) : assocGet m k = none := by
  induction m with
  | nil => rfl
  | cons p t ih =>
    simp only [List.any_cons, Bool.or_eq_false_iff] at h
    simp only [assocGet, List.find?_cons, h.1]
    exact ih h.2

theorem lg_assocSet_get_same {κ ν : Type} [BEq κ] [LawfulBEq κ] (m : List (κ × ν)) (k : κ) (v : ν) :
    assocGet (assocSet m k v) k = some v := by
  unfold assocSet
  by_cases h : m.any (fun p => p.1 == k) = true
  · rw [if_pos h]; exact lg_assocGet_map_same m k v h
  · have h' : m.any (fun p => p.1 == k) = false := Bool.eq_false_iff.mpr h
    rw [if_neg h, lg_assocGet_append, lg_assocGet_of_not_any m k h']
    simp

theorem lg_assocSet_get_other {κ ν : Type} [BEq κ] [LawfulBEq κ] (m : List (κ × ν)) (k k' : κ) (v : ν)
    (h : k' ≠ k) : assocGet (assocSet m k v) k' = assocGet m k' := by
  unfold assocSet
  by_cases ha : m.any (fun p => p.1 == k) = true
  · rw [if_pos ha]; exact lg_assocGet_map_other m k k' v h
  · rw [if_neg ha, lg_assocGet_append]
    have hk : (k == k') = false := by simpa using (fun e => h e.symm)
    cases hg : assocGet m k' <;> simp [hk]

/-! ### replay -/

theorem lg_replay_append (B : Bal) (p1 p2 : List Posting) :
    replay B (p1 ++ p2) = replay (replay B p1) p2 := by
  induction p1 generalizing B with
  | nil => rfl
  | cons p t ih => simp only [List.cons_append, replay, ih]

theorem lg_debitsOf_cons (p : Posting) (t : List Posting) (a : String) :
    debitsOf (p :: t) a = (if p.source = a then p.amount else 0) + debitsOf t a := by
  unfold debitsOf
  by_cases h : p.source = a <;> simp [h]

theorem lg_creditsOf_cons (p : Posting) (t : List Posting) (a : String) :
    creditsOf (p :: t) a = (if p.destination = a then p.amount else 0) + creditsOf t a := by
  unfold creditsOf
  by_cases h : p.destination = a <;> simp [h]

theorem lg_replay_effect (B : Bal) (ps : List Posting) (asset : String)
    (hps : ∀ p ∈ ps, p.asset = asset) (a : String) :
    replay B ps a asset = B a asset - debitsOf ps a + creditsOf ps a := by
  induction ps generalizing B with
  | nil => simp [replay, debitsOf, creditsOf]
  | cons p t ih =>
    have hp : p.asset = asset := hps p (List.mem_cons_self ..)
    have ht : ∀ q ∈ t, q.asset = asset := fun q hq => hps q (List.mem_cons_of_mem _ hq)
    rw [replay, ih _ ht, lg_debitsOf_cons, lg_creditsOf_cons]
    simp only [applyPosting, hp, and_true]
    by_cases h1 : p.source = a <;> by_cases h2 : p.destination = a
    · subst h1
      simp only [h2, if_true]
      omega
    · have h1' : a = p.source := h1.symm
      have h2' : ¬ a = p.destination := fun e => h2 e.symm
      simp only [h1, h2, h2', if_true, if_false]
      omega
    · have h1' : ¬ a = p.source := fun e => h1 e.symm
      have h2' : a = p.destination := h2.symm
      simp only [h1, h2, h1', if_true, if_false]
      omega
    · have h1' : ¬ a = p.source := fun e => h1 e.symm
      have h2' : ¬ a = p.destination := fun e => h2 e.symm
      simp only [h1, h2, h1', h2', if_false]
      omega

theorem lg_replay_other_asset (B : Bal) (ps : List Posting) (asset c : String)
    (hps : ∀ p ∈ ps, p.asset = asset) (hc : c ≠ asset) (a : String) : replay B ps a c = B a c := by
  induction ps generalizing B with
  | nil => rfl
  | cons p t ih =>
    have hp : p.asset = asset := hps p (List.mem_cons_self ..)
    have ht : ∀ q ∈ t, q.asset = asset := fun q hq => hps q (List.mem_cons_of_mem _ hq)
    rw [replay, ih _ ht]
    simp [applyPosting, hp, hc]

/-! ### runStatements -/

theorem lg_run_append (vars : Vars) (s1 s2 : List Statement) (st : RState) :
    runStatements vars (s1 ++ s2) st =
      (match runStatements vars s1 st with
       | .ok (p1, st1) =>
          (match runStatements vars s2 st1 with
           | .ok (p2, st2) => .ok (p1 ++ p2, st2)
           | .err e => .err e
           | .panic s => .panic s)
       | .err e => .err e
       | .panic s => .panic s) := by
  induction s1 generalizing st with
  | nil =>
    simp only [List.nil_append, runStatements]
    cases h : runStatements vars s2 st with
    | ok r => obtain ⟨p2, st2⟩ := r; simp
    | err e => rfl
    | panic s => rfl
  | cons x t ih =>
    simp only [List.cons_append, runStatements]
    cases hx : runStatement vars st x with
    | err e => rfl
    | panic s => rfl
    | ok r =>
      obtain ⟨ps, st'⟩ := r
      simp only [ih]
      cases h1 : runStatements vars t st' with
      | err e => rfl
      | panic s => rfl
      | ok r1 =>
        obtain ⟨p1, st1⟩ := r1
        simp only
        cases h2 : runStatements vars s2 st1 with
        | err e => rfl
        | panic s => rfl
        | ok r2 =>
          obtain ⟨p2, st2⟩ := r2
          simp [List.append_assoc]

end NS
