import Model.Text
import Mathlib.Algebra.Order.Field.Rat
import Mathlib.Algebra.Order.Field.Basic
import Mathlib.Tactic.Ring
import Mathlib.Tactic.Linarith

namespace NS

theorem tx_foldl_acc (ds : List Char) (a : Nat) :
    List.foldl (fun acc c => acc * 10 + digitVal c) a ds = a * 10 ^ ds.length + digitsVal ds := by
  induction ds generalizing a with
  | nil => simp [digitsVal]
  | cons c t ih =>
    simp only [digitsVal, List.foldl_cons, List.length_cons] at ih ⊢
    rw [ih (a * 10 + digitVal c), ih (0 * 10 + digitVal c)]
    ring

theorem tx_digitsVal_nil : digitsVal [] = 0 := rfl

theorem tx_digitsVal_cons (c : Char) (t : List Char) :
    digitsVal (c :: t) = digitVal c * 10 ^ t.length + digitsVal t := by
  have := tx_foldl_acc t (0 * 10 + digitVal c)
  simp only [digitsVal, List.foldl_cons] at this ⊢
  rw [this]; ring

theorem tx_digitsVal_append (a b : List Char) :
    digitsVal (a ++ b) = digitsVal a * 10 ^ b.length + digitsVal b := by
  unfold digitsVal
  rw [List.foldl_append, tx_foldl_acc]
  rfl

theorem tx_isDigit_iff (c : Char) : isDigit c = c.isDigit := by
  unfold isDigit Char.isDigit
  rfl

theorem tx_digitsVal_eq_ofDigitChars (l : List Char) : digitsVal l = Nat.ofDigitChars 10 l 0 := by
  unfold digitsVal Nat.ofDigitChars
  congr 1
  funext a c
  unfold digitVal
  omega

theorem tx_digitsVal_toDigits (n : Nat) : digitsVal (Nat.toDigits 10 n) = n := by
  rw [tx_digitsVal_eq_ofDigitChars]; exact Nat.ofDigitChars_ten_toDigits

theorem tx_all_isDigit_toDigits (n : Nat) : (Nat.toDigits 10 n).all isDigit = true := by
  rw [List.all_eq_true]
  intro c hc
  rw [tx_isDigit_iff]
  exact Nat.isDigit_of_mem_toDigits (by decide) (by decide) hc

theorem tx_takeWhile_digits (n : List Char) (c : Char) (rest : List Char)
    (hn : n.all isDigit = true) (hc : isDigit c = false) :
    (n ++ c :: rest).takeWhile isDigit = n := by
  induction n with
  | nil => simp [hc]
  | cons a t ih =>
    simp only [List.all_cons, Bool.and_eq_true] at hn
    simp [hn.1, ih hn.2]

theorem tx_dropWhile_digits (n : List Char) (c : Char) (rest : List Char)
    (hn : n.all isDigit = true) (hc : isDigit c = false) :
    (n ++ c :: rest).dropWhile isDigit = c :: rest := by
  induction n with
  | nil => simp [hc]
  | cons a t ih =>
    simp only [List.all_cons, Bool.and_eq_true] at hn
    simp [hn.1, ih hn.2]

theorem tx_takeWhile_all (n : List Char) (hn : n.all isDigit = true) :
    n.takeWhile isDigit = n := by
  induction n with
  | nil => rfl
  | cons a t ih =>
    simp only [List.all_cons, Bool.and_eq_true] at hn
    simp [hn.1, ih hn.2]

theorem tx_dropWhile_all (n : List Char) (hn : n.all isDigit = true) :
    n.dropWhile isDigit = [] := by
  induction n with
  | nil => rfl
  | cons a t ih =>
    simp only [List.all_cons, Bool.and_eq_true] at hn
    simp [hn.1, ih hn.2]

/-- a non-empty all-digit list starts with a digit -/
theorem tx_head_digit (d : List Char) (hd : d ≠ []) (hdd : d.all isDigit = true) :
    ∃ c t, d = c :: t ∧ isDigit c = true := by
  cases d with
  | nil => exact absurd rfl hd
  | cons c t =>
    simp only [List.all_cons, Bool.and_eq_true] at hdd
    exact ⟨c, t, rfl, hdd.1⟩

theorem tx_ratioLiteral (n d : List Char) (hn : n ≠ []) (hnd : n.all isDigit = true)
    (hd : d ≠ []) (hdd : d.all isDigit = true) (b1 b2 : Bool) :
    ratioLiteral (n ++ (if b1 then [' '] else []) ++ ['/'] ++ (if b2 then [' '] else []) ++ d)
      = some (digitsVal n, digitsVal d) := by
  obtain ⟨c, t, rfl, hc⟩ := tx_head_digit d hd hdd
  have hcs : c ≠ ' ' := by rintro rfl; revert hc; decide
  cases b1 <;> cases b2 <;>
    simp only [List.append_assoc, List.cons_append, List.nil_append, if_true, if_false,
      Bool.false_eq_true, ratioLiteral] <;>
    rw [tx_takeWhile_digits n _ _ hnd (by decide), tx_dropWhile_digits n _ _ hnd (by decide)] <;>
    simp [hn, hdd, hcs]

theorem tx_matchPercent_int (p : List Char) (hp : p ≠ []) (hpd : p.all isDigit = true) :
    matchPercent (p ++ ['%']) = some (p, []) := by
  unfold matchPercent
  rw [tx_takeWhile_digits p _ _ hpd (by decide), tx_dropWhile_digits p _ _ hpd (by decide)]
  simp [hp]

theorem tx_matchPercent_frac (p q : List Char) (hp : p ≠ []) (hpd : p.all isDigit = true)
    (hq : q ≠ []) (hqd : q.all isDigit = true) :
    matchPercent (p ++ '.' :: (q ++ ['%'])) = some (p, q) := by
  unfold matchPercent
  rw [tx_takeWhile_digits p _ _ hpd (by decide), tx_dropWhile_digits p _ _ hpd (by decide)]
  simp only [hp, if_false]
  rw [tx_takeWhile_digits q _ _ hqd (by decide), tx_dropWhile_digits q _ _ hqd (by decide)]
  simp [hq]

theorem tx_matchPercent_none (n : List Char) (c : Char) (rest : List Char)
    (hnd : n.all isDigit = true) (hc : isDigit c = false) (h1 : c ≠ '%') (h2 : c ≠ '.') :
    matchPercent (n ++ c :: rest) = none := by
  unfold matchPercent
  rw [tx_takeWhile_digits n _ _ hnd hc, tx_dropWhile_digits n _ _ hnd hc]
  simp only
  split
  · rfl
  · split
    · rename_i h; simp at h; exact absurd h.1 h1
    · rename_i h; simp at h; exact absurd h.1 h2
    · rfl

theorem tx_dropOneSpace_space (t : List Char) : dropOneSpace (' ' :: t) = t := by
  simp [dropOneSpace, isReSpace]

theorem tx_dropOneSpace_slash (t : List Char) : dropOneSpace ('/' :: t) = '/' :: t := by
  have : isReSpace '/' = false := by decide
  simp [dropOneSpace, this]

theorem tx_dropOneSpace_of_not (c : Char) (t : List Char) (h : isReSpace c = false) :
    dropOneSpace (c :: t) = c :: t := by
  simp [dropOneSpace, h]

theorem tx_matchFraction (n d : List Char) (hn : n ≠ []) (hnd : n.all isDigit = true)
    (hd : d ≠ []) (hdd : d.all isDigit = true) (b1 b2 : Bool) :
    matchFraction (n ++ (if b1 then [' '] else []) ++ ['/'] ++ (if b2 then [' '] else []) ++ d)
      = some (n, d) := by
  obtain ⟨c, t, rfl, hc⟩ := tx_head_digit d hd hdd
  have hcs : isReSpace c = false := by
    cases h : isReSpace c with
    | false => rfl
    | true =>
      exfalso
      simp only [isReSpace, Bool.or_eq_true, decide_eq_true_eq] at h
      rcases h with (((rfl | rfl) | rfl) | rfl) | rfl <;> revert hc <;> decide
  cases b1 <;> cases b2 <;>
    simp only [List.append_assoc, List.cons_append, List.nil_append, if_true, if_false,
      Bool.false_eq_true, matchFraction] <;>
    rw [tx_takeWhile_digits n _ _ hnd (by decide), tx_dropWhile_digits n _ _ hnd (by decide)] <;>
    simp [hn, hdd, tx_dropOneSpace_space, tx_dropOneSpace_slash, tx_dropOneSpace_of_not _ _ hcs]

theorem tx_mkRat_nonneg (a b : Nat) : (0 : Rat) ≤ mkRat (a : Int) b := by
  rw [Rat.mkRat_eq_div]
  positivity

theorem tx_mkRat_le_one (a b : Nat) (hb : b ≠ 0) : mkRat (a : Int) b ≤ 1 ↔ a ≤ b := by
  rw [Rat.mkRat_eq_div]
  have : (0 : Rat) < (b : Rat) := by exact_mod_cast Nat.pos_of_ne_zero hb
  rw [div_le_one this]
  simp

theorem tx_pps_fraction_ok (cs n d : List Char) (hp : matchPercent cs = none)
    (hf : matchFraction cs = some (n, d)) (hz : digitsVal d ≠ 0)
    (hle : digitsVal n ≤ digitsVal d) :
    ParsePortionSpecific (String.ofList cs) = .ok (mkRat (digitsVal n) (digitsVal d)) := by
  unfold ParsePortionSpecific
  simp only [String.toList_ofList, hp, hf, hz, if_false]
  have h0 := tx_mkRat_nonneg (digitsVal n) (digitsVal d)
  have h1 := (tx_mkRat_le_one (digitsVal n) (digitsVal d) hz).2 hle
  rw [if_neg]
  rintro (h | h)
  · exact absurd h (not_lt.2 h0)
  · exact absurd h (not_lt.2 h1)

theorem tx_pps_fraction_bad (cs n d : List Char) (hp : matchPercent cs = none)
    (hf : matchFraction cs = some (n, d))
    (hbad : digitsVal d = 0 ∨ digitsVal d < digitsVal n) :
    ∃ reason, ParsePortionSpecific (String.ofList cs) = .err (.badPortionParsing reason) := by
  unfold ParsePortionSpecific
  simp only [String.toList_ofList, hp, hf]
  by_cases hz : digitsVal d = 0
  · simp only [hz, if_true]; exact ⟨_, rfl⟩
  · have hlt : digitsVal d < digitsVal n := hbad.resolve_left hz
    simp only [hz, if_false]
    have h1 := (tx_mkRat_le_one (digitsVal n) (digitsVal d) hz).not.2 (not_le.2 hlt)
    rw [if_pos (Or.inr (not_le.1 h1))]
    exact ⟨_, rfl⟩

theorem tx_pps_percent_ok (cs i f : List Char) (hp : matchPercent cs = some (i, f))
    (hle : digitsVal (i ++ f) ≤ 10 ^ (2 + f.length)) :
    ParsePortionSpecific (String.ofList cs) =
      .ok (mkRat (digitsVal (i ++ f)) (10 ^ (2 + f.length))) := by
  unfold ParsePortionSpecific
  simp only [String.toList_ofList, hp, percentValue, pow10]
  have hz : 10 ^ (2 + f.length) ≠ 0 := by positivity
  have h0 := tx_mkRat_nonneg (digitsVal (i ++ f)) (10 ^ (2 + f.length))
  have h1 := (tx_mkRat_le_one (digitsVal (i ++ f)) (10 ^ (2 + f.length)) hz).2 hle
  rw [if_neg]
  rintro (h | h)
  · exact absurd h (not_lt.2 h0)
  · exact absurd h (not_lt.2 h1)

theorem tx_matchPercent_ratio_none (n rest : List Char) (hnd : n.all isDigit = true) (b1 : Bool) :
    matchPercent (n ++ (if b1 then [' '] else []) ++ ['/'] ++ rest) = none := by
  cases b1
  · simpa using tx_matchPercent_none n '/' rest hnd (by decide) (by decide) (by decide)
  · simpa using tx_matchPercent_none n ' ' ('/' :: rest) hnd (by decide) (by decide) (by decide)

theorem tx_parseInt_of_digit (s : String) (c : Char) (t : List Char) (h : s.toList = c :: t)
    (hc : isDigit c = true) : parseInt? s = (parseNat? (c :: t)).map (fun n => (n : Int)) := by
  have h1 : c ≠ '-' := by rintro rfl; revert hc; decide
  have h2 : c ≠ '+' := by rintro rfl; revert hc; decide
  unfold parseInt?
  rw [h]
  split
  · rename_i heq; simp at heq; exact absurd heq.1 h1
  · rename_i heq; simp at heq; exact absurd heq.1 h2
  · rfl

theorem tx_parseNat_toDigits (n : Nat) : parseNat? (Nat.toDigits 10 n) = some n := by
  unfold parseNat?
  rw [if_pos ⟨Nat.toDigits_ne_nil, tx_all_isDigit_toDigits n⟩, tx_digitsVal_toDigits]

theorem tx_parseInt_toString (n : Int) : parseInt? (toString n) = some n := by
  rw [Int.toString_eq_repr, Int.repr_eq_if]
  split
  · rename_i h
    obtain ⟨c, t, hct, hc⟩ := tx_head_digit _ (Nat.toDigits_ne_nil (b := 10) (n := n.toNat))
      (tx_all_isDigit_toDigits _)
    rw [tx_parseInt_of_digit _ c t (by rw [Nat.toList_repr, hct]) hc, ← hct, tx_parseNat_toDigits]
    simp [Int.toNat_of_nonneg h]
  · rename_i h
    unfold parseInt?
    have : ("-" ++ (-n).toNat.repr).toList = '-' :: Nat.toDigits 10 (-n).toNat := by
      simp [String.toList_append]
    rw [this]
    simp only [tx_parseNat_toDigits]
    simp only [Option.bind_eq_bind, Option.bind_some, Option.pure_def, Option.map_some,
      Option.some.injEq]
    omega

theorem tx_split_go_nospace (cur l : List Char) (h : ' ' ∉ l) :
    splitOnSpace.go cur l = [cur.reverse ++ l] := by
  induction l generalizing cur with
  | nil => simp [splitOnSpace.go]
  | cons c t ih =>
    simp only [List.mem_cons, not_or] at h
    have hc : c ≠ ' ' := fun e => h.1 e.symm
    simp [splitOnSpace.go, hc, ih _ h.2]

theorem tx_split_go_space (cur l r : List Char) (h : ' ' ∉ l) :
    splitOnSpace.go cur (l ++ ' ' :: r) = (cur.reverse ++ l) :: splitOnSpace.go [] r := by
  induction l generalizing cur with
  | nil => simp [splitOnSpace.go]
  | cons c t ih =>
    simp only [List.mem_cons, not_or] at h
    have hc : c ≠ ' ' := fun e => h.1 e.symm
    simp [splitOnSpace.go, hc, ih _ h.2]

theorem tx_splitOnSpace_two (l r : List Char) (hl : ' ' ∉ l) (hr : ' ' ∉ r) :
    splitOnSpace (l ++ ' ' :: r) = [l, r] := by
  unfold splitOnSpace
  rw [tx_split_go_space _ _ _ hl, tx_split_go_nospace _ _ hr]
  simp

theorem tx_space_not_digits (l : List Char) (h : l.all isDigit = true) : ' ' ∉ l := by
  intro hm
  rw [List.all_eq_true] at h
  exact absurd (h _ hm) (by decide)

theorem tx_space_notin_toString_int (n : Int) : ' ' ∉ (toString n).toList := by
  rw [Int.toString_eq_repr, Int.repr_eq_if]
  split
  · rw [Nat.toList_repr]; exact tx_space_not_digits _ (tx_all_isDigit_toDigits _)
  · have : ("-" ++ (-n).toNat.repr).toList = '-' :: Nat.toDigits 10 (-n).toNat := by
      simp [String.toList_append]
    rw [this]
    simp only [List.mem_cons, not_or]
    exact ⟨by decide, tx_space_not_digits _ (tx_all_isDigit_toDigits _)⟩

theorem tx_parseMonetary_render (a : String) (n : Int) (ha : ' ' ∉ a.toList) :
    parseMonetary (a ++ " " ++ toString n) = .ok (.monetary a n) := by
  unfold parseMonetary
  have : (a ++ " " ++ toString n).toList = a.toList ++ ' ' :: (toString n).toList := by
    simp [String.toList_append]
  rw [this, tx_splitOnSpace_two _ _ ha (tx_space_notin_toString_int n)]
  simp only [String.ofList_toList, tx_parseInt_toString]

theorem tx_pps_renderRat (q : Rat) (h0 : 0 ≤ q) (h1 : q ≤ 1) :
    ParsePortionSpecific (renderRat q) = .ok q := by
  have hnum : 0 ≤ q.num := Rat.num_nonneg.2 h0
  have hq : mkRat ((q.num.toNat : Nat) : Int) q.den = q := by
    rw [Int.toNat_of_nonneg hnum]; exact Rat.mkRat_self q
  have hle : q.num.toNat ≤ q.den := by
    rw [← tx_mkRat_le_one _ _ q.den_nz, hq]; exact h1
  have hsl : toString "/" = "/" := rfl
  have hs : renderRat q = String.ofList (Nat.toDigits 10 q.num.toNat ++ '/' ::
      Nat.toDigits 10 q.den) := by
    rw [← String.toList_inj]
    simp [renderRat, String.toList_append, Int.repr_eq_if, hnum, hsl]
  have hd1 := tx_all_isDigit_toDigits q.num.toNat
  have hd2 := tx_all_isDigit_toDigits q.den
  have hmp : matchPercent (Nat.toDigits 10 q.num.toNat ++ '/' :: Nat.toDigits 10 q.den) = none :=
    tx_matchPercent_none _ '/' _ hd1 (by decide) (by decide) (by decide)
  have hmf : matchFraction (Nat.toDigits 10 q.num.toNat ++ '/' :: Nat.toDigits 10 q.den) =
      some (Nat.toDigits 10 q.num.toNat, Nat.toDigits 10 q.den) := by
    simpa using tx_matchFraction _ _ Nat.toDigits_ne_nil hd1 Nat.toDigits_ne_nil hd2 false false
  rw [hs, tx_pps_fraction_ok _ _ _ hmp hmf]
  · rw [tx_digitsVal_toDigits, tx_digitsVal_toDigits, hq]
  · rw [tx_digitsVal_toDigits]; exact q.den_nz
  · rw [tx_digitsVal_toDigits, tx_digitsVal_toDigits]; exact hle

end NS
