/-
  Proofs/LexAllLemmas.lean — lemmas about the lexer with error recovery (Model/LexAll.lean).
-/
import Model.LexAll
import Proofs.LexLemmas

namespace NS

/-! ### unfolding `lexAllLoop` -/

theorem la_lexAllLoop_zero (cs : List Char) (l c : Nat) : lexAllLoop 0 cs l c = ([], []) := rfl
theorem la_lexAllLoop_nil (f l c : Nat) : lexAllLoop (f + 1) [] l c = ([], []) := rfl

attribute [local irreducible] bestOf candidates in
theorem la_lexAllLoop_cons (f l c : Nat) (a : Char) (cs : List Char) : lexAllLoop (f + 1) (a :: cs) l c =
      match bestOf (candidates (a :: cs)) with
      | some (k, n) =>
          match k with
          | none => lexAllLoop f ((a :: cs).drop n) (advance l c ((a :: cs).take n)).1 (advance l c ((a :: cs).take n)).2
          | some kind =>
              ({ kind := kind, text := (a :: cs).take n, line := l, col := c } ::
                (lexAllLoop f ((a :: cs).drop n) (advance l c ((a :: cs).take n)).1 (advance l c ((a :: cs).take n)).2).1,
               (lexAllLoop f ((a :: cs).drop n) (advance l c ((a :: cs).take n)).1 (advance l c ((a :: cs).take n)).2).2)
      | none =>
          ((lexAllLoop f ((a :: cs).drop (failLen (a :: cs) + 1))
              (advance l c ((a :: cs).take (failLen (a :: cs) + 1))).1
              (advance l c ((a :: cs).take (failLen (a :: cs) + 1))).2).1,
           { line := l, col := c, text := (a :: cs).take (failLen (a :: cs) + 1) } ::
           (lexAllLoop f ((a :: cs).drop (failLen (a :: cs) + 1))
              (advance l c ((a :: cs).take (failLen (a :: cs) + 1))).1
              (advance l c ((a :: cs).take (failLen (a :: cs) + 1))).2).2) := by
  rfl

/-! ### agreement with the plain lexer -/

theorem la_loop_agrees (fuel : Nat) : ∀ (cs : List Char) (l c : Nat) (ts : List Tok),
    cs.length < fuel → (lexLoop fuel cs l c = some ts ↔ lexAllLoop fuel cs l c = (ts, [])) := by
  induction fuel with
  | zero => intro cs l c ts h; omega
  | succ f ih =>
    intro cs l c ts hlen
    cases cs with
    | nil =>
      rw [lx_lexLoop_nil, la_lexAllLoop_nil]
      simp only [Option.some.injEq, Prod.mk.injEq, and_true]
    | cons a cs =>
      rw [lx_lexLoop_cons, la_lexAllLoop_cons]
      generalize hb : bestOf (candidates (a :: cs)) = b
      cases b with
      | none => simp
      | some kn =>
        obtain ⟨k, n⟩ := kn
        have hn := (lx_bestOf_mem _ _ _ hb).2
        have hlt := lx_drop_lt a cs n hn
        simp only [List.length_cons] at hlen
        have ih' := ih ((a :: cs).drop n) (advance l c ((a :: cs).take n)).1
          (advance l c ((a :: cs).take n)).2
        simp only
        generalize lexLoop f ((a :: cs).drop n) (advance l c ((a :: cs).take n)).1
          (advance l c ((a :: cs).take n)).2 = o at ih'
        generalize lexAllLoop f ((a :: cs).drop n) (advance l c ((a :: cs).take n)).1
          (advance l c ((a :: cs).take n)).2 = r at ih'
        cases k with
        | none =>
          cases o with
          | none => simpa using ih' ts (by omega)
          | some toks => simpa using ih' ts (by omega)
        | some kind =>
          obtain ⟨r1, r2⟩ := r
          cases o with
          | none =>
            simp only [Prod.mk.injEq]
            constructor
            · intro h; exact absurd h (by simp)
            · rintro ⟨_, h2⟩
              subst h2
              have := (ih' r1 (by omega)).2 rfl
              exact absurd this (by simp)
          | some toks =>
            simp only [Option.some.injEq, Prod.mk.injEq]
            constructor
            · intro h
              have := (ih' toks (by omega)).1 rfl
              simp only [Prod.mk.injEq] at this
              obtain ⟨rfl, rfl⟩ := this
              exact ⟨h, rfl⟩
            · rintro ⟨h1, h2⟩
              subst h2
              have := (ih' r1 (by omega)).2 rfl
              simp only [Option.some.injEq] at this
              subst this
              exact h1

/-- on a text without lexer errors the recovering lexer is the plain one -/
theorem la_lexAll_agrees_with_lex (cs : List Char) (ts : List Tok) :
    lex cs = some ts ↔ lexAll cs = (ts, []) :=
  la_loop_agrees (cs.length + 1) cs 0 0 ts (Nat.lt_succ_self _)

/-! ### positions inside the text -/

theorem la_advance_append (l c : Nat) (a b : List Char) :
    advance l c (a ++ b) = advance (advance l c a).1 (advance l c a).2 b := by
  induction a generalizing l c with
  | nil => simp [advance]
  | cons x t ih =>
    simp only [List.cons_append]
    by_cases hx : x = '\n'
    · simp only [advance, if_pos hx]; exact ih _ _
    · simp only [advance, if_neg hx]; exact ih _ _

theorem la_advance_line (l c : Nat) (t : List Char) :
    advance (l + 1) c t = ((advance l c t).1 + 1, (advance l c t).2) := by
  induction t generalizing l c with
  | nil => simp [advance]
  | cons x t ih =>
    unfold advance
    split
    · exact ih _ _
    · exact ih _ _

theorem la_go_head (cur : Nat) (suf : List Char) :
    ∃ len, (lineLengths.go cur suf)[0]? = some len ∧ cur ≤ len := by
  induction suf generalizing cur with
  | nil => exact ⟨cur, by simp [lineLengths.go]⟩
  | cons x t ih =>
    unfold lineLengths.go
    split
    · exact ⟨cur, by simp⟩
    · obtain ⟨len, h1, h2⟩ := ih (cur + 1)
      exact ⟨len, h1, by omega⟩

theorem la_go_prefix (pre suf : List Char) (cur : Nat) :
    ∃ len, (lineLengths.go cur (pre ++ suf))[(advance 0 cur pre).1]? = some len ∧
      (advance 0 cur pre).2 ≤ len := by
  induction pre generalizing cur with
  | nil => simpa [advance] using la_go_head cur suf
  | cons x t ih =>
    simp only [List.cons_append]
    unfold lineLengths.go advance
    split
    · obtain ⟨len, h1, h2⟩ := ih 0
      rw [la_advance_line]
      exact ⟨len, by simpa using h1, h2⟩
    · exact ih (cur + 1)

/-- the position reached after any prefix of the text is inside the text -/
theorem la_prefix_in_text (pre suf : List Char) :
    PosInText (pre ++ suf) ⟨(advance 0 0 pre).1, (advance 0 0 pre).2⟩ :=
  la_go_prefix pre suf 0

/-- the EOF token sits at the end of the text -/
theorem la_eofPos_in_text (cs : List Char) : PosInText cs (eofPos cs) := by
  have := la_prefix_in_text cs []
  simpa [eofPos] using this

/-! ### the loop invariant -/

theorem la_loop_inv (src : List Char) (fuel : Nat) : ∀ (pre rest : List Char) (line col : Nat),
    pre ++ rest = src → advance 0 0 pre = (line, col) →
    (∀ t ∈ (lexAllLoop fuel rest line col).1,
      PosInText src ⟨t.line, t.col⟩ ∧ PosInText src ⟨t.line, t.col + t.text.length⟩ ∧ t.text ≠ []) ∧
    (∀ e ∈ (lexAllLoop fuel rest line col).2, PosInText src ⟨e.line, e.col⟩ ∧ e.text ≠ []) := by
  induction fuel with
  | zero => intro pre rest line col _ _; simp [la_lexAllLoop_zero]
  | succ f ih =>
    intro pre rest line col hsrc hadv
    cases rest with
    | nil => simp [la_lexAllLoop_nil]
    | cons a cs =>
      have hhere : PosInText src ⟨line, col⟩ := by
        have := la_prefix_in_text pre (a :: cs)
        rw [hsrc, hadv] at this
        exact this
      rw [la_lexAllLoop_cons]
      generalize hb : bestOf (candidates (a :: cs)) = b
      cases b with
      | none =>
        simp only
        have hrec := ih (pre ++ (a :: cs).take (failLen (a :: cs) + 1))
          ((a :: cs).drop (failLen (a :: cs) + 1))
          (advance line col ((a :: cs).take (failLen (a :: cs) + 1))).1
          (advance line col ((a :: cs).take (failLen (a :: cs) + 1))).2
          (by rw [List.append_assoc, List.take_append_drop]; exact hsrc)
          (by rw [la_advance_append, hadv])
        refine ⟨hrec.1, ?_⟩
        intro e he
        rcases List.mem_cons.mp he with rfl | he
        · exact ⟨hhere, by simp⟩
        · exact hrec.2 e he
      | some kn =>
        obtain ⟨k, n⟩ := kn
        have hrec := ih (pre ++ (a :: cs).take n) ((a :: cs).drop n)
          (advance line col ((a :: cs).take n)).1 (advance line col ((a :: cs).take n)).2
          (by rw [List.append_assoc, List.take_append_drop]; exact hsrc)
          (by rw [la_advance_append, hadv])
        cases k with
        | none => exact hrec
        | some kind =>
          simp only
          refine ⟨?_, hrec.2⟩
          intro t ht
          rcases List.mem_cons.mp ht with rfl | ht
          · obtain ⟨hn, hclean⟩ := lx_best_clean _ _ _ hb
            refine ⟨hhere, ?_, ?_⟩
            · have := la_prefix_in_text (pre ++ (a :: cs).take n) ((a :: cs).drop n)
              rw [List.append_assoc, List.take_append_drop, hsrc, la_advance_append, hadv,
                lx_advance_clean _ line col hclean] at this
              exact this
            · cases n with
              | zero => exact absurd rfl hn
              | succ m => simp
          · exact hrec.1 t ht

/-- every lexer error is reported at the position of a character of the text, and quotes at least that character -/
theorem la_errors_in_text (cs : List Char) :
    ∀ e ∈ (lexAll cs).2, PosInText cs ⟨e.line, e.col⟩ ∧ e.text ≠ [] :=
  (la_loop_inv cs (cs.length + 1) [] cs 0 0 rfl rfl).2

/-- every token starts and ends inside the text (on one line) -/
theorem la_tokens_in_text (cs : List Char) :
    ∀ t ∈ (lexAll cs).1, PosInText cs ⟨t.line, t.col⟩ ∧ PosInText cs ⟨t.line, t.col + t.text.length⟩ ∧ t.text ≠ [] :=
  (la_loop_inv cs (cs.length + 1) [] cs 0 0 rfl rfl).1

end NS
