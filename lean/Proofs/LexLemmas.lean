import Spec.ParseSpec

namespace NS

/-! ### newline-free prefixes -/

theorem lx_take_add_clean (cs : List Char) (a b : Nat)
    (h1 : '\n' ∉ cs.take a) (h2 : '\n' ∉ (cs.drop a).take b) : '\n' ∉ cs.take (a + b) := by
  rw [List.take_add]
  simp only [List.mem_append, not_or]
  exact ⟨h1, h2⟩

theorem lx_take_zero_clean (cs : List Char) : '\n' ∉ cs.take 0 := by simp

theorem lx_span_clean (p : Char → Bool) (hp : p '\n' = false) (cs : List Char) :
    '\n' ∉ cs.take (spanLen p cs) := by
  induction cs with
  | nil => simp [spanLen]
  | cons c t ih =>
    unfold spanLen
    split
    · rename_i hc
      rw [List.take_succ_cons]
      simp only [List.mem_cons, not_or]
      refine ⟨?_, ih⟩
      intro h; subst h; rw [hp] at hc; exact absurd hc (by decide)
    · simp

theorem lx_take_one_clean (c : Char) (t : List Char) (hc : c ≠ '\n') : '\n' ∉ (c :: t).take 1 := by
  simp [List.take_succ_cons]
  exact fun h => hc h.symm

theorem lx_literal_clean (kw : List Char) (hkw : '\n' ∉ kw) (cs : List Char) :
    '\n' ∉ cs.take (mLiteral kw cs) := by
  unfold mLiteral
  split
  · rename_i h
    have := List.isPrefixOf_iff_prefix.mp h
    rw [← List.prefix_iff_eq_take.mp this]
    exact hkw
  · simp

theorem lx_lower_ne_nl (c : Char) (h : isLowerChar c = true) : c ≠ '\n' := by
  intro h'; subst h'; revert h; decide

theorem lx_varHead_ne_nl (c : Char) (h : isVarHead c = true) : c ≠ '\n' := by
  intro h'; subst h'; revert h; decide

theorem lx_notNl_ne_nl (c : Char) (h : isNlChar c = false) : c ≠ '\n' := by
  intro h'; subst h'; revert h; decide

def lx_sp (l : List Char) : Nat := match l with | ' ' :: _ => 1 | _ => 0

theorem lx_sp_clean (l : List Char) : '\n' ∉ l.take (lx_sp l) := by
  unfold lx_sp
  split
  · exact lx_take_one_clean _ _ (by decide)
  · simp

theorem lx_mRatio_eq (cs : List Char) : mRatio cs =
  if spanLen isDigit cs = 0 then 0 else
    match (cs.drop (spanLen isDigit cs)).drop (lx_sp (cs.drop (spanLen isDigit cs))) with
    | '/' :: r3 => if spanLen isDigit (r3.drop (lx_sp r3)) = 0 then 0 else
        spanLen isDigit cs + lx_sp (cs.drop (spanLen isDigit cs)) + 1 + lx_sp r3
          + spanLen isDigit (r3.drop (lx_sp r3))
    | _ => 0 := rfl

theorem lx_ratio_clean (cs : List Char) : '\n' ∉ cs.take (mRatio cs) := by
  rw [lx_mRatio_eq]
  split
  · simp
  · split
    · rename_i r3 heq
      split
      · simp
      · apply lx_take_add_clean
        · apply lx_take_add_clean
          · apply lx_take_add_clean
            · apply lx_take_add_clean
              · exact lx_span_clean _ (by decide) _
              · exact lx_sp_clean _
            · rw [← List.drop_drop, heq]
              exact lx_take_one_clean _ _ (by decide)
          · rw [← List.drop_drop, ← List.drop_drop, heq]
            simpa using lx_sp_clean r3
        · rw [← List.drop_drop, ← List.drop_drop, ← List.drop_drop, heq]
          simp only [List.drop_succ_cons, List.drop_zero]
          exact lx_span_clean _ (by decide) _
    · simp

theorem lx_percent_clean (cs : List Char) : '\n' ∉ cs.take (mPercent cs) := by
  unfold mPercent
  simp only
  split
  · simp
  · split
    · rename_i r heq
      apply lx_take_add_clean
      · exact lx_span_clean _ (by decide) _
      · rw [heq]; exact lx_take_one_clean _ _ (by decide)
    · rename_i r heq
      split
      · simp
      · split
        · rename_i r' heq'
          apply lx_take_add_clean
          · apply lx_take_add_clean
            · apply lx_take_add_clean
              · exact lx_span_clean _ (by decide) _
              · rw [heq]; exact lx_take_one_clean _ _ (by decide)
            · rw [← List.drop_drop, heq]
              simp only [List.drop_succ_cons, List.drop_zero]
              exact lx_span_clean _ (by decide) _
          · rw [← List.drop_drop, ← List.drop_drop, heq]
            simp only [List.drop_succ_cons, List.drop_zero]
            rw [heq']; exact lx_take_one_clean _ _ (by decide)
        · simp
    · simp

theorem lx_strBody_clean (cs : List Char) (n : Nat) (h : strBody cs = some n) :
    '\n' ∉ cs.take n := by
  fun_induction strBody cs generalizing n with
  | case1 => simp at h
  | case2 => simp at h; subst h; exact lx_take_one_clean _ _ (by decide)
  | case3 rest m hm ih =>
    simp at h; subst h
    have := ih m hm
    simp [List.take_succ_cons]
    exact this
  | case4 rest hm =>
    simp at h; subst h
    simp [List.take_succ_cons]
  | case5 c rest _ _ hc => simp at h
  | case6 c rest _ _ hc ih =>
    simp at h
    obtain ⟨m, hm, rfl⟩ := h
    simp [List.take_succ_cons]
    exact ⟨fun h => lx_notNl_ne_nl c (by simpa using hc) h.symm, ih m hm⟩

theorem lx_string_clean (cs : List Char) : '\n' ∉ cs.take (mString cs) := by
  unfold mString
  split
  · rename_i rest
    split
    · rename_i n hn
      rw [List.take_succ_cons]
      simp only [List.mem_cons, not_or]
      exact ⟨by decide, lx_strBody_clean rest n hn⟩
    · simp
  · simp

theorem lx_ident_clean (cs : List Char) : '\n' ∉ cs.take (mIdent cs) := by
  unfold mIdent
  split
  · rename_i c t
    split
    · rename_i hc
      apply lx_take_add_clean
      · exact lx_take_one_clean _ _ (lx_lower_ne_nl c hc)
      · simpa using lx_span_clean _ (by decide) t
    · simp
  · simp

theorem lx_number_clean (cs : List Char) : '\n' ∉ cs.take (mNumber cs) := by
  unfold mNumber
  split
  · rename_i t
    simp only
    split
    · simp
    · rw [List.take_succ_cons]
      simp only [List.mem_cons, not_or]
      exact ⟨by decide, lx_span_clean _ (by decide) t⟩
  · exact lx_span_clean _ (by decide) _

theorem lx_varName_clean (cs : List Char) : '\n' ∉ cs.take (mVarName cs) := by
  unfold mVarName
  split
  · rename_i c t
    split
    · rename_i hc
      apply lx_take_add_clean
      · simp [List.take_succ_cons]
        exact fun h => lx_varHead_ne_nl c hc h.symm
      · simpa using lx_span_clean _ (by decide) t
    · simp
  · simp

theorem lx_acctTail_clean (fuel : Nat) (cs : List Char) : '\n' ∉ cs.take (acctTail fuel cs) := by
  induction fuel generalizing cs with
  | zero => unfold acctTail; simp
  | succ f ih =>
    unfold acctTail
    split
    · rename_i f' t heq
      simp only
      split
      · simp
      · apply lx_take_add_clean
        · apply lx_take_add_clean
          · exact lx_take_one_clean _ _ (by decide)
          · simpa using lx_span_clean _ (by decide) t
        · rw [← List.drop_drop]
          simp only [List.drop_succ_cons, List.drop_zero]
          have : f' = f := by omega
          subst this
          exact ih _
    · simp

theorem lx_account_clean (cs : List Char) : '\n' ∉ cs.take (mAccount cs) := by
  unfold mAccount
  split
  · rename_i t
    simp only
    split
    · simp
    · apply lx_take_add_clean
      · apply lx_take_add_clean
        · exact lx_take_one_clean _ _ (by decide)
        · simpa using lx_span_clean _ (by decide) t
      · rw [← List.drop_drop]
        simp only [List.drop_succ_cons, List.drop_zero]
        exact lx_acctTail_clean _ _
  · simp

theorem lx_asset_clean (cs : List Char) : '\n' ∉ cs.take (mAsset cs) :=
  lx_span_clean _ (by decide) _

/-! ### `bestOf` -/

theorem lx_bestOf_mem (l : List (Option TK × Nat)) (k : Option TK) (n : Nat)
    (h : bestOf l = some (k, n)) : (k, n) ∈ l ∧ n ≠ 0 := by
  induction l generalizing k n with
  | nil => simp [bestOf] at h
  | cons a rest ih =>
    obtain ⟨k0, n0⟩ := a
    unfold bestOf at h
    split at h
    · rename_i k' n' hb
      have := ih k' n' hb
      split at h
      · rename_i hc
        simp at h; obtain ⟨rfl, rfl⟩ := h
        exact ⟨by simp, hc.2⟩
      · simp at h; obtain ⟨rfl, rfl⟩ := h
        exact ⟨List.mem_cons_of_mem _ this.1, this.2⟩
    · split at h
      · rename_i hc
        simp at h; obtain ⟨rfl, rfl⟩ := h
        exact ⟨by simp, hc⟩
      · simp at h

theorem lx_candidates_clean (cs : List Char) (kind : TK) (n : Nat)
    (h : (some kind, n) ∈ candidates cs) : '\n' ∉ cs.take n := by
  simp only [candidates, List.mem_cons, Prod.mk.injEq, List.mem_nil_iff, or_false] at h
  rcases h with h | h | h | h | h | h | h | h | h | h | h | h | h | h | h | h | h | h | h | h
    | h | h | h | h | h | h | h | h | h | h | h | h | h | h | h | h
  all_goals first
    | (exact (Option.some_ne_none _ h.1).elim)
    | (obtain ⟨_, rfl⟩ := h
       first
        | exact lx_literal_clean _ (by decide) _
        | exact lx_ratio_clean _
        | exact lx_percent_clean _
        | exact lx_string_clean _
        | exact lx_ident_clean _
        | exact lx_number_clean _
        | exact lx_varName_clean _
        | exact lx_account_clean _
        | exact lx_asset_clean _)

theorem lx_best_clean (cs : List Char) (kind : TK) (n : Nat)
    (h : bestOf (candidates cs) = some (some kind, n)) : n ≠ 0 ∧ '\n' ∉ cs.take n :=
  ⟨(lx_bestOf_mem _ _ _ h).2, lx_candidates_clean cs kind n (lx_bestOf_mem _ _ _ h).1⟩

/-! ### positions -/

theorem lx_advance_clean (txt : List Char) (l c : Nat) (h : '\n' ∉ txt) :
    advance l c txt = (l, c + txt.length) := by
  induction txt generalizing c with
  | nil => simp [advance]
  | cons a t ih =>
    simp only [List.mem_cons, not_or] at h
    unfold advance
    rw [if_neg (fun e => h.1 e.symm), ih _ h.2]
    simp; omega

theorem lx_gtEq_refl (p : Pos) : p.gtEq p = true := by simp [Pos.gtEq]

theorem lx_gtEq_trans (p q r : Pos) (h1 : p.gtEq q = true) (h2 : q.gtEq r = true) :
    p.gtEq r = true := by
  unfold Pos.gtEq at *
  split at h1 <;> split at h2 <;> split <;> simp at * <;> omega

theorem lx_advance_ge (txt : List Char) (l c : Nat) :
    (Pos.mk (advance l c txt).1 (advance l c txt).2).gtEq ⟨l, c⟩ = true := by
  induction txt generalizing l c with
  | nil => simp [advance, Pos.gtEq]
  | cons a t ih =>
    unfold advance
    split
    · exact lx_gtEq_trans _ ⟨l + 1, 0⟩ _ (ih _ _) (by simp [Pos.gtEq])
    · exact lx_gtEq_trans _ ⟨l, c + 1⟩ _ (ih _ _) (by simp [Pos.gtEq])

theorem lx_dropToPos_step (src : List Char) (l c : Nat) (p : Char) (rest : List Char)
    (h : dropToPos src l c = p :: rest) :
    (p = '\n' → dropToPos src (l + 1) 0 = rest) ∧ (p ≠ '\n' → dropToPos src l (c + 1) = rest) := by
  fun_induction dropToPos src l c
  case case1 => subst h; constructor <;> intro hp <;> simp [dropToPos, hp]
  case case2 => simp at h
  case case3 => simp at h
  case case4 hc ih =>
    have := ih h
    constructor
    · intro hp; simp only [dropToPos, if_neg hc]; exact this.1 hp
    · intro hp; simp only [dropToPos, if_neg hc]; exact this.2 hp
  case case5 ih =>
    have := ih h
    constructor
    · intro hp; simp only [dropToPos, if_true]; exact this.1 hp
    · intro hp; simp only [dropToPos, if_true]; exact this.2 hp
  case case6 hc ih =>
    have := ih h
    constructor
    · intro hp; simp only [dropToPos, if_neg hc]; exact this.1 hp
    · intro hp; simp only [dropToPos, if_neg hc]; exact this.2 hp

theorem lx_dropToPos_advance (src pre cs : List Char) (l c : Nat)
    (h : dropToPos src l c = pre ++ cs) :
    dropToPos src (advance l c pre).1 (advance l c pre).2 = cs := by
  induction pre generalizing l c with
  | nil => simpa [advance] using h
  | cons a t ih =>
    have hs := lx_dropToPos_step src l c a (t ++ cs) (by simpa using h)
    unfold advance
    split
    · rename_i ha; exact ih _ _ (hs.1 ha)
    · rename_i ha; exact ih _ _ (hs.2 ha)

/-! ### unfolding `lexLoop` (its generated equations time out on the 36-way `candidates`) -/

theorem lx_lexLoop_zero (cs : List Char) (l c : Nat) : lexLoop 0 cs l c = none := rfl
theorem lx_lexLoop_nil (f l c : Nat) : lexLoop (f + 1) [] l c = some [] := rfl

attribute [local irreducible] bestOf candidates in
theorem lx_lexLoop_cons (f l c : Nat) (a : Char) (cs : List Char) : lexLoop (f + 1) (a :: cs) l c =
      match bestOf (candidates (a :: cs)) with
      | none => none
      | some (k, n) =>
          match lexLoop f ((a :: cs).drop n) (advance l c ((a :: cs).take n)).1 (advance l c ((a :: cs).take n)).2 with
          | none => none
          | some toks =>
              match k with
              | none => some toks
              | some kind => some ({ kind := kind, text := (a :: cs).take n, line := l, col := c } :: toks) := by
  rfl

/-! ### the loop invariant -/

theorem lx_loop_inv (src : List Char) (fuel : Nat) (cs : List Char) (line col : Nat) (ts : List Tok)
    (h : lexLoop fuel cs line col = some ts) (hd : dropToPos src line col = cs) :
    (∀ t ∈ ts, t.Located src) ∧ (∀ t ∈ ts, t.startPos.gtEq ⟨line, col⟩ = true) ∧ TokensSorted ts := by
  induction fuel generalizing cs line col ts with
  | zero => rw [lx_lexLoop_zero] at h; exact absurd h (by simp)
  | succ fuel ih =>
    cases cs with
    | nil =>
      rw [lx_lexLoop_nil] at h
      have : ts = [] := by simpa using h.symm
      subst this; simp [TokensSorted]
    | cons c cs =>
      rw [lx_lexLoop_cons] at h
      split at h
      · simp at h
      · rename_i k n hb
        split at h
        · simp at h
        · rename_i toks hrec
          have hsplit : c :: cs = (c :: cs).take n ++ (c :: cs).drop n := (List.take_append_drop n _).symm
          have hd' := lx_dropToPos_advance src ((c :: cs).take n) ((c :: cs).drop n) line col
            (by rw [hd]; exact hsplit)
          obtain ⟨iL, iG, iS⟩ := ih _ _ _ _ hrec hd'
          have iG' : ∀ t ∈ toks, t.startPos.gtEq ⟨line, col⟩ = true := fun t ht =>
            lx_gtEq_trans _ _ _ (iG t ht) (lx_advance_ge _ _ _)
          cases k with
          | none => simp at h; subst h; exact ⟨iL, iG', iS⟩
          | some kind =>
            simp at h; subst h
            obtain ⟨hn, hclean⟩ := lx_best_clean _ _ _ hb
            have hadv := lx_advance_clean _ line col hclean
            rw [hadv] at iG
            refine ⟨?_, ?_, ?_⟩
            · intro t ht
              rcases List.mem_cons.mp ht with rfl | ht
              · refine ⟨?_, hclean⟩
                simp only [hd]
                rw [List.length_take]
                exact List.take_eq_take_min.symm
              · exact iL t ht
            · intro t ht
              rcases List.mem_cons.mp ht with rfl | ht
              · exact lx_gtEq_refl _
              · exact iG' t ht
            · have hne : (c :: cs).take n ≠ [] := by
                cases n with
                | zero => exact absurd rfl hn
                | succ m => simp
              cases toks with
              | nil => exact hne
              | cons b rest =>
                exact ⟨hne, iG b (by simp), iS⟩

/-! ### fuel and lengths -/

theorem lx_drop_lt (c : Char) (cs : List Char) (n : Nat) (hn : n ≠ 0) :
    ((c :: cs).drop n).length ≤ cs.length := by
  simp only [List.length_drop, List.length_cons]; omega

theorem lx_fuel (f1 : Nat) : ∀ (f2 : Nat) (cs : List Char) (line col : Nat),
    cs.length < f1 → cs.length < f2 → lexLoop f1 cs line col = lexLoop f2 cs line col := by
  induction f1 with
  | zero => intro f2 cs line col h1; omega
  | succ f1 ih =>
    intro f2 cs line col h1 h2
    cases f2 with
    | zero => omega
    | succ f2 =>
      cases cs with
      | nil => rw [lx_lexLoop_nil, lx_lexLoop_nil]
      | cons c cs =>
        rw [lx_lexLoop_cons, lx_lexLoop_cons]
        generalize hb : bestOf (candidates (c :: cs)) = b
        cases b with
        | none => rfl
        | some kn =>
          obtain ⟨k, n⟩ := kn
          have hn := (lx_bestOf_mem _ _ _ hb).2
          have hlt := lx_drop_lt c cs n hn
          simp only [List.length_cons] at h1 h2
          simp only
          rw [ih f2 _ _ _ (by omega) (by omega)]

theorem lx_lengths (fuel : Nat) : ∀ (cs : List Char) (line col : Nat) (ts : List Tok),
    lexLoop fuel cs line col = some ts → (ts.map (fun t => t.text.length)).sum ≤ cs.length := by
  induction fuel with
  | zero => intro cs line col ts h; rw [lx_lexLoop_zero] at h; exact absurd h (by simp)
  | succ fuel ih =>
    intro cs line col ts h
    cases cs with
    | nil =>
      rw [lx_lexLoop_nil] at h
      have : ts = [] := by simpa using h.symm
      subst this; simp
    | cons c cs =>
      rw [lx_lexLoop_cons] at h
      split at h
      · simp at h
      · rename_i k n hb
        split at h
        · simp at h
        · rename_i toks hrec
          have hi := ih _ _ _ _ hrec
          have hlen : ((c :: cs).take n).length + ((c :: cs).drop n).length = (c :: cs).length := by
            rw [← List.length_append, List.take_append_drop]
          cases k with
          | none =>
            simp at h; subst h
            omega
          | some kind =>
            simp at h; subst h
            simp only [List.map_cons, List.sum_cons]
            omega

end NS
