/-
  Proofs/NamesLemmas.lean — frame lemmas of the static checker model with respect to
  the three name diagnostics, the unused list and the variable resolution table (C16).
-/
import Spec.Names
import Model.Nav

namespace NS

/-! ## The part of a checker state the name properties talk about -/

structure nm_Core where
  diags : List Diag
  declared : List (String × VarDecl)
  unused : List (String × Range)
  varRes : List ((Range × String) × VarDecl)
  fnRes : List (Range × String)

def nm_core (st : CState) : nm_Core := ⟨st.diags, st.declared, st.unused, st.varRes, st.fnRes⟩

def nm_names (a : nm_Core) : List String := a.declared.map (·.1)

/-- diagnostics that none of the three projections sees -/
def nm_benign : DiagKind → Prop
  | .unboundVariable _ => False
  | .duplicateVariable _ => False
  | .unusedVar _ => False
  | _ => True

theorem nm_proj_push (ds : List Diag) (r : Range) (k : DiagKind) (hk : nm_benign k) :
    unboundDiags (ds ++ [⟨r, k⟩]) = unboundDiags ds ∧
    duplicateDiags (ds ++ [⟨r, k⟩]) = duplicateDiags ds ∧
    unusedDiags (ds ++ [⟨r, k⟩]) = unusedDiags ds := by
  cases k <;> simp [nm_benign, unboundDiags, duplicateDiags, unusedDiags, List.filterMap_append] at hk ⊢

/-- frame without the clause on `fnRes` -/
structure nm_FrameW (a b : nm_Core) (us : List Occ) : Prop where
  declared : b.declared = a.declared
  unbound : unboundDiags b.diags = unboundDiags a.diags ++ us.filter (fun o => ! (nm_names a).contains o.2)
  dup : duplicateDiags b.diags = duplicateDiags a.diags
  unusedD : unusedDiags b.diags = unusedDiags a.diags
  unused : b.unused = a.unused.filter (fun p => ! us.any (fun o => o.2 == p.1))
  resMono : ∀ p ∈ a.varRes, p ∈ b.varRes
  resNew : ∀ o ∈ us, (nm_names a).contains o.2 = true → ∃ d, (o, d) ∈ b.varRes
  resSound : (∀ p ∈ a.varRes, (p.1.2, p.2) ∈ a.declared) → ∀ p ∈ b.varRes, (p.1.2, p.2) ∈ a.declared

theorem nm_FrameW.refl (a : nm_Core) : nm_FrameW a a [] := by
  constructor <;> first | exact (List.filter_eq_self.2 (by simp)).symm | simp

theorem nm_FrameW.trans {a b c : nm_Core} {us vs : List Occ}
    (h1 : nm_FrameW a b us) (h2 : nm_FrameW b c vs) : nm_FrameW a c (us ++ vs) := by
  have hn : nm_names b = nm_names a := by simp [nm_names, h1.declared]
  constructor
  · rw [h2.declared, h1.declared]
  · rw [h2.unbound, h1.unbound, hn, List.filter_append, List.append_assoc]
  · rw [h2.dup, h1.dup]
  · rw [h2.unusedD, h1.unusedD]
  · rw [h2.unused, h1.unused, List.filter_filter]
    apply List.filter_congr
    intro p _
    simp [List.any_append, Bool.and_comm]
  · intro p hp; exact h2.resMono p (h1.resMono p hp)
  · intro o ho hc
    rcases List.mem_append.1 ho with ho | ho
    · obtain ⟨d, hd⟩ := h1.resNew o ho hc
      exact ⟨d, h2.resMono _ hd⟩
    · exact h2.resNew o ho (by rw [hn]; exact hc)
  · intro hs p hp
    have := h2.resSound (by rw [h1.declared]; exact h1.resSound hs) p hp
    rwa [h1.declared] at this

theorem nm_FrameW.cast {a b : nm_Core} {us vs : List Occ} (h : nm_FrameW a b us) (e : us = vs) :
    nm_FrameW a b vs := e ▸ h

/-- frame: the weak frame, and `fnRes` is untouched -/
structure nm_Frame (a b : nm_Core) (us : List Occ) : Prop where
  w : nm_FrameW a b us
  fnRes : b.fnRes = a.fnRes

theorem nm_Frame.refl (a : nm_Core) : nm_Frame a a [] := ⟨nm_FrameW.refl a, rfl⟩

theorem nm_Frame.trans {a b c : nm_Core} {us vs : List Occ}
    (h1 : nm_Frame a b us) (h2 : nm_Frame b c vs) : nm_Frame a c (us ++ vs) :=
  ⟨h1.w.trans h2.w, by rw [h2.fnRes, h1.fnRes]⟩

theorem nm_Frame.cast {a b : nm_Core} {us vs : List Occ} (h : nm_Frame a b us) (e : us = vs) :
    nm_Frame a b vs := e ▸ h

theorem nm_Frame.trans0 {a b c : nm_Core} {us : List Occ}
    (h1 : nm_Frame a b us) (h2 : nm_Frame b c []) : nm_Frame a c us :=
  (h1.trans h2).cast (by simp)

theorem nm_Frame.trans0' {a b c : nm_Core} {us : List Occ}
    (h1 : nm_Frame a b []) (h2 : nm_Frame b c us) : nm_Frame a c us :=
  (h1.trans h2).cast (by simp)

/-! ## Elementary steps -/

theorem nm_push (st : CState) (r : Range) (k : DiagKind) (hk : nm_benign k) :
    nm_Frame (nm_core st) (nm_core (st.push r k)) [] := by
  obtain ⟨h1, h2, h3⟩ := nm_proj_push st.diags r k hk
  refine ⟨⟨rfl, ?_, ?_, ?_, ?_, ?_, ?_, ?_⟩, rfl⟩
  · simpa [nm_core, CState.push] using h1
  · simpa [nm_core, CState.push] using h2
  · simpa [nm_core, CState.push] using h3
  · exact (List.filter_eq_self.2 (by simp)).symm
  · intro p hp; exact hp
  · intro o ho; cases ho
  · intro hs p hp; exact hs p hp

theorem nm_assertHasType {st st' : CState} {lr : Option Range} {req act : String}
    (h : assertHasType st lr req act = .ok st') : nm_Frame (nm_core st) (nm_core st') [] := by
  unfold assertHasType at h
  split at h
  · cases h; exact nm_Frame.refl _
  · split at h
    · cases h
    · cases h; exact nm_push _ _ _ trivial

theorem nm_lookup_none {st : CState} {name : String} (h : lookupDecl st name = none) :
    (nm_names (nm_core st)).contains name = false := by
  unfold lookupDecl at h
  simp only [Option.map_eq_none_iff, List.find?_eq_none] at h
  simp only [nm_names, nm_core]
  cases hc : (List.map (fun x => x.1) st.declared).contains name
  · rfl
  · simp only [List.contains_iff_mem, List.mem_map] at hc
    obtain ⟨p, hp, rfl⟩ := hc
    exact absurd (by simp) (h p hp)

theorem nm_lookup_some {st : CState} {name : String} {d : VarDecl} (h : lookupDecl st name = some d) :
    (nm_names (nm_core st)).contains name = true ∧ (name, d) ∈ st.declared := by
  unfold lookupDecl at h
  simp only [Option.map_eq_some_iff] at h
  obtain ⟨p, hp, rfl⟩ := h
  have hm := List.mem_of_find?_eq_some hp
  have hn := List.find?_some hp
  simp only [beq_iff_eq] at hn
  subst hn
  refine ⟨?_, hm⟩
  simp only [nm_names, nm_core, List.contains_iff_mem, List.mem_map]
  exact ⟨p, hm, rfl⟩

theorem nm_filter_one (U : List (String × Range)) (r : Range) (name : String) :
    U.filter (fun p => p.1 != name) = U.filter (fun p => ! [(r, name)].any (fun o => o.2 == p.1)) := by
  apply List.filter_congr
  intro p _
  simp [bne, BEq.comm]

theorem nm_var_none {st : CState} (r : Range) {name : String} (h : lookupDecl st name = none) :
    nm_Frame (nm_core st)
      (nm_core { st.push r (.unboundVariable name) with
        unused := (st.push r (.unboundVariable name)).unused.filter (fun p => p.1 != name) }) [(r, name)] := by
  have hc := nm_lookup_none h
  refine ⟨⟨rfl, ?_, ?_, ?_, ?_, ?_, ?_, ?_⟩, rfl⟩
  · have hf : ([(r, name)] : List Occ).filter (fun o => ! (nm_names (nm_core st)).contains o.2) = [(r, name)] := by
      simpa [List.filter_cons] using hc
    rw [hf]
    simp [nm_core, CState.push, unboundDiags, List.filterMap_append]
  · simp [nm_core, CState.push, duplicateDiags, List.filterMap_append]
  · simp [nm_core, CState.push, unusedDiags, List.filterMap_append]
  · exact nm_filter_one _ r name
  · intro p hp; exact hp
  · intro o ho hco
    simp only [List.mem_singleton] at ho
    subst ho
    rw [hc] at hco; cases hco
  · intro hs p hp; exact hs p hp

theorem nm_var_some {st : CState} (r : Range) {name : String} {d : VarDecl} (h : lookupDecl st name = some d) :
    nm_Frame (nm_core st)
      (nm_core { st with varRes := ((r, name), d) :: st.varRes,
                         unused := st.unused.filter (fun p => p.1 != name) }) [(r, name)] := by
  obtain ⟨hc, hm⟩ := nm_lookup_some h
  refine ⟨⟨rfl, ?_, ?_, ?_, ?_, ?_, ?_, ?_⟩, rfl⟩
  · have hf : ([(r, name)] : List Occ).filter (fun o => ! (nm_names (nm_core st)).contains o.2) = [] := by
      simpa [List.filter_cons] using hc
    rw [hf]
    simp [nm_core]
  · rfl
  · rfl
  · exact nm_filter_one _ r name
  · intro p hp; exact List.mem_cons_of_mem _ hp
  · intro o ho _
    simp only [List.mem_singleton] at ho
    subst ho
    exact ⟨d, List.mem_cons_self⟩
  · intro hs p hp
    rcases List.mem_cons.1 hp with rfl | hp
    · exact hm
    · exact hs p hp

/-! ## Expressions -/

theorem nm_checkExpression : ∀ (e : Expr) (st st' : CState) (τ : String),
    checkExpression st e τ = .ok st' → nm_Frame (nm_core st) (nm_core st') (usesE e) := by
  intro e
  induction e with
  | nil => intro st st' τ h; simp only [checkExpression] at h; cases h; exact nm_Frame.refl _
  | monetaryNil =>
      intro st st' τ h
      simp only [checkExpression] at h
      split at h <;> cases h
  | var r name =>
      intro st st' τ h
      simp only [checkExpression] at h
      cases hl : lookupDecl st name with
      | none =>
          simp only [hl] at h
          cases h
          exact nm_var_none r hl
      | some d =>
          simp only [hl] at h
          have hv := nm_var_some r hl
          split at h
          · cases h; exact hv
          · split at h
            · exact hv.trans0 (nm_assertHasType h)
            · cases h; exact hv
  | asset r s => intro st st' τ h; simp only [checkExpression] at h; exact nm_assertHasType h
  | account r s => intro st st' τ h; simp only [checkExpression] at h; exact nm_assertHasType h
  | str r s => intro st st' τ h; simp only [checkExpression] at h; exact nm_assertHasType h
  | number r s => intro st st' τ h; simp only [checkExpression] at h; exact nm_assertHasType h
  | ratio r n d =>
      intro st st' τ h
      simp only [checkExpression] at h
      have h0 : nm_Frame (nm_core st) (nm_core (checkRatioLiteral st r d).1) [] := by
        unfold checkRatioLiteral; split
        · exact nm_push _ _ _ trivial
        · exact nm_Frame.refl _
      exact h0.trans0 (nm_assertHasType h)
  | monetary r a n iha ihn =>
      intro st st' τ h
      simp only [checkExpression] at h
      split at h
      · cases h
      · cases h
      · rename_i st1 h1
        split at h
        · cases h
        · cases h
        · rename_i st2 h2
          exact ((nm_assertHasType h1).trans0' ((iha _ _ _ h2).trans (ihn _ _ _ h)))
  | «infix» r op l rg ihl ihr =>
      intro st st' τ h
      simp only [checkExpression] at h
      split at h
      · split at h
        · cases h
        · cases h
        · rename_i st1 h1
          exact (ihl _ _ _ h1).trans (ihr _ _ _ h)
      · split at h
        · split at h
          · cases h
          · cases h
          · rename_i st1 h1
            split at h
            · cases h
            · cases h
            · rename_i st2 h2
              exact ((ihl _ _ _ h1).trans (ihr _ _ _ h2)).trans0 (nm_assertHasType h)
        · split at h
          · cases h
          · cases h
          · rename_i st1 h1
            split at h
            · cases h
            · cases h
            · rename_i st2 h2
              have h12 := (ihl _ _ _ h1).trans (ihr _ _ _ h2)
              split at h
              · cases h; exact h12
              · exact h12.trans0 (nm_assertHasType h)

/-! ## Calls, sent values, allotment values, source helpers -/

theorem nm_checkExpressions : ∀ (l : List (Expr × String)) (st st' : CState),
    checkExpressions st l = .ok st' → nm_Frame (nm_core st) (nm_core st') (usesEs (l.map (·.1))) := by
  intro l
  induction l with
  | nil => intro st st' h; simp only [checkExpressions] at h; cases h; exact nm_Frame.refl _
  | cons p rest ih =>
      intro st st' h
      obtain ⟨e, t⟩ := p
      simp only [checkExpressions] at h
      split at h
      · cases h
      · cases h
      · rename_i st1 h1
        exact (nm_checkExpression _ _ _ _ h1).trans (ih _ _ h)

def nm_validArgs (fn : FnCall) : List Expr :=
  fn.args.filter (fun a => match a with | .nil => false | _ => true)

/-- `checkFnCallArity` visits some list of arguments; which one is decided by `fnRes` -/
theorem nm_checkFnCallArity {st st' : CState} {fn : FnCall}
    (h : checkFnCallArity st fn = .ok st') :
    ∃ args, nm_Frame (nm_core st) (nm_core st') (usesEs args) ∧
      ∀ resolved : Bool,
        (match st.fnRes.find? (fun p => p.1 == fn.callerRange) with
          | some p => resolved = true ∧ p.2 = fn.name
          | none => resolved = false) → args = callArgs resolved fn := by
  unfold checkFnCallArity at h
  split at h
  · rename_i x bname hf
    try simp only at h
    split at h
    · cases h
    · cases h
    · rename_i st2 h2
      have hA : nm_Frame (nm_core st) (nm_core st2) [] := by
        split at h2
        · cases h2; exact nm_push _ _ _ trivial
        · split at h2
          · split at h2
            · split at h2
              · cases h2; exact nm_push _ _ _ trivial
              · cases h2
            · cases h2; exact nm_Frame.refl _
          · cases h2; exact nm_Frame.refl _
      refine ⟨(nm_validArgs fn).take (builtinParams bname).length, ?_, ?_⟩
      · refine (hA.trans0' (nm_checkExpressions _ _ _ h)).cast ?_
        congr 1
        rw [List.map_fst_zip]
        · rfl
        · rw [List.length_take]; omega
      · intro resolved hres
        rw [hf] at hres
        obtain ⟨rfl, hb⟩ := hres
        try simp only at hb
        subst hb
        simp only [callArgs, if_true]
        rfl
  · rename_i hf
    dsimp only at h
    split at h
    · cases h
    · cases h
    · rename_i st1 h1
      cases h
      refine ⟨nm_validArgs fn, ?_, ?_⟩
      · refine ((nm_checkExpressions _ _ _ h1).trans0 (nm_push st1 fn.callerRange (.unknownFunction fn.name) trivial)).cast ?_
        simp only [List.map_map, Function.comp_def, List.map_id']
        rfl
      · intro resolved hres
        rw [hf] at hres
        subst hres
        simp only [callArgs]
        rfl

theorem nm_checkSentValue {st st' : CState} {sv : SentValue}
    (h : checkSentValue st sv = .ok st') : nm_Frame (nm_core st) (nm_core st') (usesSV sv) := by
  cases sv with
  | nil => simp only [checkSentValue] at h; cases h; exact nm_Frame.refl _
  | lit r m => exact nm_checkExpression _ _ _ _ h
  | all r a => exact nm_checkExpression _ _ _ _ h

theorem nm_foldl_push (f : Range → DiagKind) (hf : ∀ r, nm_benign (f r)) :
    ∀ (l : List Range) (st : CState),
      nm_Frame (nm_core st) (nm_core (l.foldl (fun s r => s.push r (f r)) st)) [] := by
  intro l
  induction l with
  | nil => intro st; exact nm_Frame.refl _
  | cons r rest ih => intro st; exact (nm_push st r (f r) (hf r)).trans0 (ih _)

theorem nm_checkHasBadAllotmentSum (st : CState) (sum : Rat) (rng : Range) (rem : Option Range)
    (vl : List Range) :
    nm_Frame (nm_core st) (nm_core (checkHasBadAllotmentSum st sum rng rem vl)) [] := by
  unfold checkHasBadAllotmentSum
  split
  · have h0 := nm_foldl_push (fun _ => .fixedPortionVariable 0) (fun _ => trivial) vl st
    split
    · exact h0.trans0 (nm_push _ _ _ trivial)
    · exact h0
  · simp only
    split
    · exact nm_Frame.refl _
    · split
      · split
        · exact nm_push _ _ _ trivial
        · exact nm_Frame.refl _
      · exact nm_push _ _ _ trivial

theorem nm_checkAllotValue {st st1 : CState} {acc acc1 : AllotAcc} {a : AllotVal} {isLast : Bool}
    {whole : Range} (h : checkAllotValue st acc a isLast whole = .ok (st1, acc1)) :
    nm_Frame (nm_core st) (nm_core st1) (usesAllot a) := by
  unfold checkAllotValue at h
  split at h
  · cases h; exact nm_Frame.refl _
  · split at h
    · cases h; exact nm_Frame.refl _
    · cases h; exact nm_push _ _ _ trivial
  · split at h
    · cases h
    · cases h
    · rename_i st2 h2
      cases h
      exact nm_checkExpression _ _ _ _ h2
  · simp only [checkRatioLiteral] at h
    split at h
    · cases h; exact nm_push _ _ _ trivial
    · cases h; exact nm_Frame.refl _
  · rename_i hne1 hne2
    cases h
    refine (nm_Frame.refl _).cast ?_
    unfold usesAllot
    split
    · rename_i heq; injection heq with he; exact (hne1 _ _ he).elim
    · rfl
    done

theorem nm_sourceHead {st st' : CState} {src : Source} (h : sourceHead st src = .ok st') :
    nm_Frame (nm_core st) (nm_core st') [] := by
  unfold sourceHead at h
  split at h
  · split at h
    · cases h; exact nm_push _ _ _ trivial
    · cases h
  · cases h; exact nm_Frame.refl _

theorem nm_checkSourceAccountLit (st : CState) (e : Expr) :
    nm_Frame (nm_core st) (nm_core (checkSourceAccountLit st e)) [] := by
  unfold checkSourceAccountLit
  split
  · rename_i r name
    have h3 : ∀ (c1 c2 : Prop) [Decidable c1] [Decidable c2],
        nm_Frame (nm_core st) (nm_core (if c1 then st.push r .invalidUnboundedAccount
          else if c2 then { st with unboundedAccountInSend := true } else st)) [] := by
      intro c1 c2 _ _
      split
      · exact nm_push _ _ _ trivial
      · split
        · exact nm_Frame.refl _
        · exact nm_Frame.refl _
    have h4 : ∀ (s : CState) (c : Prop) [Decidable c],
        nm_Frame (nm_core s) (nm_core (if c then s.push r (.emptiedAccount name) else s)) [] := by
      intro s c _
      split
      · exact nm_push _ _ _ trivial
      · exact nm_Frame.refl _
    exact (h3 _ _).trans0 (h4 _ _)
  · exact nm_Frame.refl _

theorem nm_oh_aux {s2 st' : CState} {c : Prop} [Decidable c] {ro : Option Range} {msg : String}
    (h : (if c then
            match ro with
            | some ar => Outcome.ok (s2.push ar .invalidUnboundedAccount)
            | none => .panic msg
          else .ok s2) = .ok st') : nm_Frame (nm_core s2) (nm_core st') [] := by
  split at h
  · split at h
    · cases h; exact nm_push _ _ _ trivial
    · cases h
  · cases h; exact nm_Frame.refl _

theorem nm_oh1 (st : CState) (addr : Expr) :
    nm_Frame (nm_core st) (nm_core (match addr with
      | .account ar n => if n = WORLD then st.push ar .invalidWorldOverdraft else st
      | _ => st)) [] := by
  split
  · split
    · exact nm_push _ _ _ trivial
    · exact nm_Frame.refl _
  · exact nm_Frame.refl _

theorem nm_oh2 (s : CState) (c : Prop) [Decidable c] :
    nm_Frame (nm_core s) (nm_core (if c then { s with unboundedAccountInSend := true } else s)) [] := by
  split
  · exact nm_Frame.refl _
  · exact nm_Frame.refl _

theorem nm_checkOverdraftHead {st st' : CState} {addr : Expr} {b : Option Expr}
    (h : checkOverdraftHead st addr b = .ok st') : nm_Frame (nm_core st) (nm_core st') [] := by
  unfold checkOverdraftHead at h
  dsimp only at h
  exact ((nm_oh1 st addr).trans0 (nm_oh2 _ (b.isNone ∧ addr ≠ .nil))).trans0 (nm_oh_aux h)

/-! ## Sources -/

mutual
theorem nm_checkSource : ∀ (s : Source) (st0 st' : CState),
    checkSource st0 s = .ok st' → nm_Frame (nm_core st0) (nm_core st') (usesS s)
  | .nil, st0, st', h => by
      simp only [checkSource] at h; cases h; exact nm_Frame.refl _
  | .account e, st0, st', h => by
      simp only [checkSource] at h
      split at h
      · cases h
      · cases h
      · rename_i st hh
        split at h
        · cases h
        · cases h
        · rename_i st1 h1
          cases h
          exact ((nm_sourceHead hh).trans0' (nm_checkExpression _ _ _ _ h1)).trans0
            (nm_checkSourceAccountLit _ _)
  | .overdraft r addr bounded, st0, st', h => by
      simp only [checkSource] at h
      split at h
      · cases h
      · cases h
      · rename_i st hh
        split at h
        · cases h
        · cases h
        · rename_i st4 h4
          split at h
          · cases h
          · cases h
          · rename_i st5 h5
            have h05 := ((nm_sourceHead hh).trans0 (nm_checkOverdraftHead h4)).trans0'
              (nm_checkExpression _ _ _ _ h5)
            cases bounded with
            | none => cases h; exact h05.cast (by simp [usesS])
            | some b => exact (h05.trans (nm_checkExpression _ _ _ _ h)).cast (by simp [usesS])
  | .inorder r srcs, st0, st', h => by
      simp only [checkSource] at h
      split at h
      · cases h
      · cases h
      · rename_i st hh
        exact ((nm_sourceHead hh).trans0' (nm_checkSourceList srcs _ _ h)).cast (by simp [usesS])
  | .capped r cap src, st0, st', h => by
      simp only [checkSource] at h
      split at h
      · cases h
      · cases h
      · rename_i st hh
        split at h
        · cases h
        · cases h
        · rename_i st1 h1
          split at h
          · cases h
          · cases h
          · rename_i st2 h2
            cases h
            have e1 : nm_Frame (nm_core st) (nm_core st1) (usesE cap) := nm_checkExpression _ (enterCapped st) _ _ h1
            have e2 : nm_Frame (nm_core st1) (nm_core (exitCapped st2 st)) (usesS src) := nm_checkSource src st1 st2 h2
            exact ((nm_sourceHead hh).trans0' (e1.trans e2)).cast (by simp [usesS])
  | .allotment r items, st0, st', h => by
      simp only [checkSource] at h
      split at h
      · cases h
      · cases h
      · rename_i st hh
        split at h
        · cases h
        · cases h
        · rename_i st2 acc h2
          cases h
          have e1 : nm_Frame (nm_core st) (nm_core (if st.unboundedSend then st.push r .noAllotmentInSendAll else st)) [] := by
            split
            · exact nm_push _ _ _ trivial
            · exact nm_Frame.refl _
          exact ((((nm_sourceHead hh).trans0 e1).trans0' (nm_checkSrcItems items _ _ _ _ _ h2)).trans0
            (nm_checkHasBadAllotmentSum _ _ _ _ _)).cast (by simp [usesS])
theorem nm_checkSourceList : ∀ (ss : List Source) (st st' : CState),
    checkSourceList st ss = .ok st' → nm_Frame (nm_core st) (nm_core st') (usesSs ss)
  | [], st, st', h => by
      simp only [checkSourceList] at h; cases h; exact nm_Frame.refl _
  | s :: ss, st, st', h => by
      simp only [checkSourceList] at h
      split at h
      · cases h
      · cases h
      · rename_i st1 h1
        exact ((nm_checkSource s _ _ h1).trans (nm_checkSourceList ss _ _ h)).cast (by simp [usesSs])
theorem nm_checkSrcItems : ∀ (items : List SrcItem) (st st' : CState) (acc acc' : AllotAcc) (whole : Range),
    checkSrcItems st items acc whole = .ok (st', acc') → nm_Frame (nm_core st) (nm_core st') (usesSItems items)
  | [], st, st', acc, acc', whole, h => by
      simp only [checkSrcItems] at h; cases h; exact nm_Frame.refl _
  | (.mk ir a src) :: rest, st, st', acc, acc', whole, h => by
      simp only [checkSrcItems] at h
      split at h
      · cases h
      · cases h
      · rename_i st1 acc1 h1
        split at h
        · cases h
        · cases h
        · rename_i st2 h2
          have e2 : nm_Frame (nm_core st1) (nm_core st2) (usesS src) := nm_checkSource src (enterCapped st1) _ h2
          have e3 : nm_Frame (nm_core st2) (nm_core st') (usesSItems rest) := nm_checkSrcItems rest (exitCapped st2 st1) _ _ _ _ h
          exact (((nm_checkAllotValue h1).trans e2).trans e3).cast (by simp [usesSItems])
end


/-! ## Destinations -/

mutual
theorem nm_checkDestination : ∀ (d : Dest) (st st' : CState),
    checkDestination st d = .ok st' → nm_Frame (nm_core st) (nm_core st') (usesD d)
  | .nil, st, st', h => by
      simp only [checkDestination] at h; cases h; exact nm_Frame.refl _
  | .account e, st, st', h => by
      simp only [checkDestination] at h
      exact (nm_checkExpression _ _ _ _ h).cast (by simp [usesD])
  | .inorder r clauses remaining, st, st', h => by
      simp only [checkDestination] at h
      split at h
      · cases h
      · cases h
      · rename_i st1 h1
        exact ((nm_checkClauses clauses _ _ h1).trans (nm_checkKoD remaining _ _ h)).cast (by simp [usesD])
  | .allotment r items, st, st', h => by
      simp only [checkDestination] at h
      split at h
      · cases h
      · cases h
      · rename_i st1 acc h1
        cases h
        exact ((nm_checkDstItems items _ _ _ _ _ h1).trans0
          (nm_checkHasBadAllotmentSum _ _ _ _ _)).cast (by simp [usesD])
theorem nm_checkKoD : ∀ (k : KoD) (st st' : CState),
    checkKoD st k = .ok st' → nm_Frame (nm_core st) (nm_core st') (usesK k)
  | .nil, st, st', h => by
      simp only [checkKoD] at h; cases h; exact nm_Frame.refl _
  | .kept r, st, st', h => by
      simp only [checkKoD] at h; cases h; exact nm_Frame.refl _
  | .to d, st, st', h => by
      simp only [checkKoD] at h
      exact (nm_checkDestination d _ _ h).cast (by simp [usesK])
theorem nm_checkClauses : ∀ (cs : List DestClause) (st st' : CState),
    checkClauses st cs = .ok st' → nm_Frame (nm_core st) (nm_core st') (usesClauses cs)
  | [], st, st', h => by
      simp only [checkClauses] at h; cases h; exact nm_Frame.refl _
  | (.mk cr cap to) :: rest, st, st', h => by
      simp only [checkClauses] at h
      split at h
      · cases h
      · cases h
      · rename_i st1 h1
        split at h
        · cases h
        · cases h
        · rename_i st2 h2
          exact (((nm_checkExpression _ _ _ _ h1).trans (nm_checkKoD to _ _ h2)).trans
            (nm_checkClauses rest _ _ h)).cast (by simp [usesClauses])
theorem nm_checkDstItems : ∀ (items : List DestItem) (st st' : CState) (acc acc' : AllotAcc) (whole : Range),
    checkDstItems st items acc whole = .ok (st', acc') → nm_Frame (nm_core st) (nm_core st') (usesDItems items)
  | [], st, st', acc, acc', whole, h => by
      simp only [checkDstItems] at h; cases h; exact nm_Frame.refl _
  | (.mk ir a to) :: rest, st, st', acc, acc', whole, h => by
      simp only [checkDstItems] at h
      split at h
      · cases h
      · cases h
      · rename_i st1 acc1 h1
        split at h
        · cases h
        · cases h
        · rename_i st2 h2
          exact (((nm_checkAllotValue h1).trans (nm_checkKoD to _ _ h2)).trans
            (nm_checkDstItems rest _ _ _ _ _ h)).cast (by simp [usesDItems])
end


/-! ## Statements -/

theorem nm_FrameW.chg {a a' b : nm_Core} {us : List Occ} (h : nm_FrameW a' b us)
    (hd : a'.diags = a.diags) (hdec : a'.declared = a.declared) (hu : a'.unused = a.unused)
    (hv : a'.varRes = a.varRes) : nm_FrameW a b us := by
  cases a; cases a'
  simp only at hd hdec hu hv
  subst hd hdec hu hv
  exact ⟨h.declared, h.unbound, h.dup, h.unusedD, h.unused, h.resMono, h.resNew, h.resSound⟩

/-- a call checked right after its resolution was recorded -/
theorem nm_call_resolved {st st' : CState} {fn : FnCall} {rest : List (Range × String)}
    (hf : st.fnRes = (fn.callerRange, fn.name) :: rest) (h : checkFnCallArity st fn = .ok st') :
    nm_Frame (nm_core st) (nm_core st') (usesEs (callArgs true fn)) := by
  obtain ⟨args, hfr, hd⟩ := nm_checkFnCallArity h
  have := hd true (by rw [hf]; simp)
  exact hfr.cast (by rw [this])

theorem nm_call_unresolved {st st' : CState} {fn : FnCall}
    (hfresh : ∀ p ∈ st.fnRes, p.1 ≠ fn.callerRange) (h : checkFnCallArity st fn = .ok st') :
    nm_Frame (nm_core st) (nm_core st') (usesEs (callArgs false fn)) := by
  obtain ⟨args, hfr, hd⟩ := nm_checkFnCallArity h
  have hn : st.fnRes.find? (fun p => p.1 == fn.callerRange) = none := by
    rw [List.find?_eq_none]; intro p hp; simpa using hfresh p hp
  have := hd false (by rw [hn])
  exact hfr.cast (by rw [this])

theorem nm_checkStatement {st st' : CState} {s : Statement} (h : checkStatement st s = .ok st') :
    ∃ us, nm_FrameW (nm_core st) (nm_core st') us ∧
      (∀ p ∈ st'.fnRes, p ∈ st.fnRes ∨ p.1 ∈ stmtCall s) ∧
      ((∀ p ∈ st.fnRes, p.1 ∉ stmtCall s) → us = usesStmt s) := by
  unfold checkStatement at h
  cases s with
  | nil => cases h; exact ⟨[], (nm_Frame.refl _).w, fun p hp => Or.inl hp, fun _ => rfl⟩
  | fnCallNil => cases h
  | save r sv amount =>
      dsimp only at h
      split at h
      · cases h
      · cases h
      · rename_i st1 h1
        have e1 : nm_Frame (nm_core st) (nm_core st1) (usesSV sv) := (nm_checkSentValue h1 :)
        have e := e1.trans (nm_checkExpression _ _ _ _ h)
        have hfn : st'.fnRes = st.fnRes := e.fnRes
        exact ⟨_, e.w, fun p hp => Or.inl (by rw [hfn] at hp; exact hp), fun _ => rfl⟩
  | send r sv src dst =>
      dsimp only at h
      split at h
      · cases h
      · cases h
      · rename_i st1 h1
        split at h
        · cases h
        · cases h
        · rename_i st2 h2
          have e1 : nm_Frame (nm_core st) (nm_core st1) (usesSV sv) := (nm_checkSentValue h1 :)
          have e := (e1.trans (nm_checkSource _ _ _ h2)).trans (nm_checkDestination _ _ _ h)
          have hfn : st'.fnRes = st.fnRes := e.fnRes
          exact ⟨_, e.w, fun p hp => Or.inl (by rw [hfn] at hp; exact hp), fun _ => rfl⟩
  | fnCall fn =>
      dsimp only at h
      by_cases hb : isStatementBuiltin fn.name = true
      · rw [if_pos hb] at h
        have e := nm_call_resolved rfl h
        refine ⟨_, e.w.chg rfl rfl rfl rfl, ?_, ?_⟩
        · intro p hp
          have hfn : st'.fnRes = (fn.callerRange, fn.name) :: st.fnRes := e.fnRes
          rw [hfn] at hp
          rcases List.mem_cons.1 hp with rfl | hp
          · right; simp [stmtCall]
          · left; exact hp
        · intro _; simp [usesStmt, hb]
      · rw [if_neg hb] at h
        obtain ⟨args, hfr, hd⟩ := nm_checkFnCallArity h
        refine ⟨_, hfr.w.chg rfl rfl rfl rfl, ?_, ?_⟩
        · intro p hp
          have hfn : st'.fnRes = st.fnRes := hfr.fnRes
          rw [hfn] at hp
          left; exact hp
        · intro hfresh
          have hn : (st.fnRes.find? (fun p => p.1 == fn.callerRange)) = none := by
            rw [List.find?_eq_none]; intro p hp; simpa [stmtCall] using hfresh p hp
          have := hd false (by simp only [hn])
          simp [usesStmt, hb, this]



theorem nm_checkStatements : ∀ (ss : List Statement) (st st' : CState),
    checkStatements st ss = .ok st' →
    ∃ us, nm_FrameW (nm_core st) (nm_core st') us ∧
      ((ss.flatMap stmtCall).Nodup → (∀ p ∈ st.fnRes, p.1 ∉ ss.flatMap stmtCall) → us = usesStmts ss) := by
  intro ss
  induction ss with
  | nil =>
      intro st st' h
      simp only [checkStatements] at h; cases h
      exact ⟨[], nm_FrameW.refl _, fun _ _ => rfl⟩
  | cons s ss ih =>
      intro st st' h
      simp only [checkStatements] at h
      split at h
      · cases h
      · cases h
      · rename_i st1 h1
        obtain ⟨us1, f1, hfn1, hu1⟩ := nm_checkStatement h1
        obtain ⟨us2, f2, hu2⟩ := ih _ _ h
        refine ⟨us1 ++ us2, (f1.trans f2 :), ?_⟩
        intro hnd hfresh
        simp only [List.flatMap_cons, List.nodup_append, List.mem_append, not_or] at hnd hfresh
        obtain ⟨_, hnd2, hdisj⟩ := hnd
        have e1 := hu1 (fun p hp => (hfresh p hp).1)
        have e2 := hu2 hnd2 (by
          intro p hp
          rcases hfn1 p hp with hp | hp
          · exact (hfresh p hp).2
          · intro hin; exact hdisj _ hp _ hin rfl)
        rw [e1, e2]; rfl


/-! ## Declarations -/

theorem nm_checkVarOrigin {st st' : CState} {fn : FnCall} {d : VarDecl}
    (h : checkVarOrigin st fn d = .ok st') :
    ∃ us, nm_FrameW (nm_core st) (nm_core st') us ∧
      (∀ p ∈ st'.fnRes, p ∈ st.fnRes ∨ p.1 = fn.callerRange) ∧
      ((∀ p ∈ st.fnRes, p.1 ≠ fn.callerRange) → us = usesEs (callArgs (isOriginBuiltin fn.name) fn)) := by
  unfold checkVarOrigin at h
  by_cases hb : isOriginBuiltin fn.name = true
  · simp only [hb, if_true] at h
    split at h
    · cases h
    · cases h
    · rename_i st2 h2
      have e2 : nm_Frame (nm_core { st with fnRes := (fn.callerRange, fn.name) :: st.fnRes }) (nm_core st2) [] := by
        split at h2
        · exact nm_assertHasType h2
        · cases h2; exact nm_Frame.refl _
      have hf2 : st2.fnRes = (fn.callerRange, fn.name) :: st.fnRes := e2.fnRes
      have e := nm_call_resolved hf2 h
      have hfn : st'.fnRes = st2.fnRes := e.fnRes
      refine ⟨_, (e2.trans0' e).w.chg rfl rfl rfl rfl, ?_, ?_⟩
      · intro p hp
        rw [hfn, hf2] at hp
        rcases List.mem_cons.1 hp with rfl | hp
        · right; rfl
        · left; exact hp
      · intro _; rw [hb]
  · simp only [hb] at h
    obtain ⟨args, hfr, hd⟩ := nm_checkFnCallArity h
    have hfn : st'.fnRes = st.fnRes := hfr.fnRes
    refine ⟨_, hfr.w, ?_, ?_⟩
    · intro p hp; rw [hfn] at hp; left; exact hp
    · intro hfresh
      have hn : (st.fnRes.find? (fun p => p.1 == fn.callerRange)) = none := by
        rw [List.find?_eq_none]; intro p hp; simpa using hfresh p hp
      have := hd false (by simp only [hn])
      simp [hb, this]

theorem nm_any_names (l : List (String × VarDecl)) (name : String) :
    l.any (fun p => p.1 == name) = (l.map (·.1)).contains name := by
  induction l with
  | nil => rfl
  | cons p l ih => rw [List.any_cons, List.map_cons, List.contains_cons, ih, BEq.comm]

/-- the declaration step proper -/
def nm_declare (a : nm_Core) (d : VarDecl) : nm_Core :=
  match d.name with
  | some (r, name) =>
      if (nm_names a).contains name then { a with diags := a.diags ++ [⟨r, .duplicateVariable name⟩] }
      else { a with declared := a.declared ++ [(name, d)], unused := a.unused ++ [(name, r)] }
  | none => a

def nm_DeclStep (a b : nm_Core) (d : VarDecl) (us : List Occ) : Prop :=
  ∃ mid, nm_FrameW a mid us ∧ b = nm_declare mid d

theorem nm_checkVarDecl_core {st st1 st' : CState} {d : VarDecl}
    (e1 : nm_Frame (nm_core st) (nm_core st1) [])
    (h : (match (match d.origin with
                | some fn => checkVarOrigin st1 fn d
                | none => Outcome.ok st1) with
          | Outcome.panic s => Outcome.panic s
          | Outcome.err e => Outcome.err e
          | Outcome.ok st3 =>
            match d.name with
            | some (r, name) =>
                if st3.declared.any (fun p => p.1 == name) then Outcome.ok (st3.push r (.duplicateVariable name))
                else .ok { st3 with declared := st3.declared ++ [(name, d)], unused := st3.unused ++ [(name, r)] }
            | none => .ok st3) = .ok st') :
    ∃ us, nm_DeclStep (nm_core st) (nm_core st') d us ∧
      (∀ p ∈ st'.fnRes, p ∈ st.fnRes ∨ p.1 ∈ declCall d) ∧
      ((∀ p ∈ st.fnRes, p.1 ∉ declCall d) → us = usesOrigin d) := by
  split at h
  · cases h
  · cases h
  · rename_i st3 h3
    have hfn1 : st1.fnRes = st.fnRes := e1.fnRes
    -- the origin
    have e3 : ∃ us, nm_FrameW (nm_core st) (nm_core st3) us ∧
        (∀ p ∈ st3.fnRes, p ∈ st.fnRes ∨ p.1 ∈ declCall d) ∧
        ((∀ p ∈ st.fnRes, p.1 ∉ declCall d) → us = usesOrigin d) := by
      cases ho : d.origin with
      | none =>
          rw [ho] at h3
          cases h3
          refine ⟨[], e1.w, ?_, ?_⟩
          · intro p hp; rw [hfn1] at hp; left; exact hp
          · intro _; simp [usesOrigin, ho]
      | some fn =>
          rw [ho] at h3
          obtain ⟨us, f, hfn, hu⟩ := nm_checkVarOrigin h3
          have f' : nm_FrameW (nm_core st) (nm_core st3) us := (e1.w.trans f).cast (by simp)
          refine ⟨us, f', ?_, ?_⟩
          · intro p hp
            rcases hfn p hp with hp | hp
            · rw [hfn1] at hp; left; exact hp
            · right; simp [declCall, ho, hp]
          · intro hfresh
            rw [hu (by intro p hp; rw [hfn1] at hp; simpa [declCall, ho] using hfresh p hp)]
            simp [usesOrigin, ho]
    obtain ⟨us, f, hfn, hu⟩ := e3
    refine ⟨us, ⟨nm_core st3, f, ?_⟩, ?_, hu⟩
    · unfold nm_declare
      split at h
      · rename_i r name hname
        rw [nm_any_names] at h
        split at h
        · rename_i hc
          cases h
          have : (nm_names (nm_core st3)).contains name = true := hc
          rw [if_pos this]; rfl
        · rename_i hc
          cases h
          have : ¬ (nm_names (nm_core st3)).contains name = true := hc
          rw [if_neg this]; rfl
      · rename_i hname
        cases h; rfl
    · split at h
      · split at h
        · cases h; exact hfn
        · cases h; exact hfn
      · cases h; exact hfn


theorem nm_checkVarDecl {st st' : CState} {d : VarDecl} (h : checkVarDecl st d = .ok st') :
    ∃ us, nm_DeclStep (nm_core st) (nm_core st') d us ∧
      (∀ p ∈ st'.fnRes, p ∈ st.fnRes ∨ p.1 ∈ declCall d) ∧
      ((∀ p ∈ st.fnRes, p.1 ∉ declCall d) → us = usesOrigin d) := by
  unfold checkVarDecl at h
  dsimp only at h
  refine nm_checkVarDecl_core ?_ h
  split
  · split
    · exact nm_Frame.refl _
    · exact nm_push _ _ _ trivial
  · exact nm_Frame.refl _



/-- the run of `checkVarDecls` as a chain of declaration steps; when `P` holds the origin of
    each declaration was visited exactly as the specification says -/
inductive nm_Steps (P : Prop) : nm_Core → List VarDecl → nm_Core → Prop
  | nil (a : nm_Core) : nm_Steps P a [] a
  | cons {a b c : nm_Core} {d : VarDecl} {ds : List VarDecl} {us : List Occ} :
      nm_DeclStep a b d us → (P → us = usesOrigin d) → nm_Steps P b ds c → nm_Steps P a (d :: ds) c

theorem nm_checkVarDecls (P : Prop) : ∀ (ds : List VarDecl) (st st' : CState),
    (P → (ds.flatMap declCall).Nodup ∧ ∀ p ∈ st.fnRes, p.1 ∉ ds.flatMap declCall) →
    checkVarDecls st ds = .ok st' →
    nm_Steps P (nm_core st) ds (nm_core st') ∧
      (∀ p ∈ st'.fnRes, p ∈ st.fnRes ∨ p.1 ∈ ds.flatMap declCall) := by
  intro ds
  induction ds with
  | nil =>
      intro st st' _ h
      simp only [checkVarDecls] at h; cases h
      exact ⟨nm_Steps.nil _, fun p hp => Or.inl hp⟩
  | cons d ds ih =>
      intro st st' hP h
      simp only [checkVarDecls] at h
      split at h
      · cases h
      · cases h
      · rename_i st1 h1
        obtain ⟨us, hstep, hfn1, hu1⟩ := nm_checkVarDecl h1
        have hP1 : P → (ds.flatMap declCall).Nodup ∧ ∀ p ∈ st1.fnRes, p.1 ∉ ds.flatMap declCall := by
          intro hp
          obtain ⟨hnd, hfresh⟩ := hP hp
          simp only [List.flatMap_cons, List.nodup_append, List.mem_append, not_or] at hnd hfresh
          obtain ⟨_, hnd2, hdisj⟩ := hnd
          refine ⟨hnd2, ?_⟩
          intro p hp
          rcases hfn1 p hp with hp | hp
          · exact (hfresh p hp).2
          · intro hin; exact hdisj _ hp _ hin rfl
        obtain ⟨hsteps, hfn2⟩ := ih _ _ hP1 h
        refine ⟨nm_Steps.cons hstep ?_ hsteps, ?_⟩
        · intro hp
          obtain ⟨_, hfresh⟩ := hP hp
          apply hu1
          intro p hp hin
          exact hfresh p hp (by simp [List.flatMap_cons, hin])
        · intro p hp
          rcases hfn2 p hp with hp | hp
          · rcases hfn1 p hp with hp | hp
            · left; exact hp
            · right; simp [List.flatMap_cons, hp]
          · right; simp [List.flatMap_cons, hp]

/-! ### What a declaration step does to each observable -/

theorem nm_names_declare (mid : nm_Core) (d : VarDecl) :
    nm_names (nm_declare mid d) =
      (match declName d with
        | some n => if (nm_names mid).contains n then nm_names mid else nm_names mid ++ [n]
        | none => nm_names mid) := by
  unfold nm_declare declName
  cases d.name with
  | none => rfl
  | some p =>
      obtain ⟨r, name⟩ := p
      simp only [Option.map_some]
      split
      · rfl
      · simp [nm_names]

theorem nm_DeclStep.names {a b : nm_Core} {d : VarDecl} {us : List Occ} (h : nm_DeclStep a b d us) :
    nm_names b =
      (match declName d with
        | some n => if (nm_names a).contains n then nm_names a else nm_names a ++ [n]
        | none => nm_names a) := by
  obtain ⟨mid, f, rfl⟩ := h
  have hn : nm_names mid = nm_names a := by simp [nm_names, f.declared]
  rw [nm_names_declare, hn]

theorem nm_DeclStep.unbound {a b : nm_Core} {d : VarDecl} {us : List Occ} (h : nm_DeclStep a b d us) :
    unboundDiags b.diags = unboundDiags a.diags ++ us.filter (fun o => ! (nm_names a).contains o.2) := by
  obtain ⟨mid, f, rfl⟩ := h
  rw [← f.unbound]
  unfold nm_declare
  split
  · split
    · simp [unboundDiags, List.filterMap_append]
    · rfl
  · rfl

theorem nm_DeclStep.dup {a b : nm_Core} {d : VarDecl} {us : List Occ} (h : nm_DeclStep a b d us) :
    duplicateDiags b.diags = duplicateDiags a.diags ++
      (match d.name with
        | some (r, n) => if (nm_names a).contains n then [(r, n)] else []
        | none => []) := by
  obtain ⟨mid, f, rfl⟩ := h
  have hn : nm_names mid = nm_names a := by simp [nm_names, f.declared]
  rw [← f.dup, ← hn]
  unfold nm_declare
  cases hname : d.name with
  | none => simp
  | some p =>
      obtain ⟨r, name⟩ := p
      by_cases hc : (nm_names mid).contains name = true
      · simp only [hc, if_true]; simp [duplicateDiags, List.filterMap_append]
      · simp only [hc]; simp

theorem nm_DeclStep.unusedD {a b : nm_Core} {d : VarDecl} {us : List Occ} (h : nm_DeclStep a b d us) :
    unusedDiags b.diags = unusedDiags a.diags := by
  obtain ⟨mid, f, rfl⟩ := h
  rw [← f.unusedD]
  unfold nm_declare
  split
  · split
    · simp [unusedDiags, List.filterMap_append]
    · rfl
  · rfl

theorem nm_DeclStep.unused {a b : nm_Core} {d : VarDecl} {us : List Occ} (h : nm_DeclStep a b d us) :
    b.unused = a.unused.filter (fun p => ! us.any (fun o => o.2 == p.1)) ++
      (match d.name with
        | some (r, n) => if (nm_names a).contains n then [] else [(n, r)]
        | none => []) := by
  obtain ⟨mid, f, rfl⟩ := h
  have hn : nm_names mid = nm_names a := by simp [nm_names, f.declared]
  rw [← f.unused, ← hn]
  unfold nm_declare
  cases hname : d.name with
  | none => simp
  | some p =>
      obtain ⟨r, name⟩ := p
      by_cases hc : (nm_names mid).contains name = true
      · simp only [hc, if_true]; simp
      · simp only [hc]; simp

def nm_declInv (a : nm_Core) : Prop := ∀ q ∈ a.declared, declName q.2 = some q.1
def nm_resInv (a : nm_Core) : Prop := ∀ p ∈ a.varRes, (p.1.2, p.2) ∈ a.declared

theorem nm_DeclStep.inv {a b : nm_Core} {d : VarDecl} {us : List Occ} (h : nm_DeclStep a b d us)
    (h1 : nm_declInv a) (h2 : nm_resInv a) : nm_declInv b ∧ nm_resInv b := by
  obtain ⟨mid, f, rfl⟩ := h
  have h1' : nm_declInv mid := by unfold nm_declInv; rw [f.declared]; exact h1
  have h2' : nm_resInv mid := by unfold nm_resInv; rw [f.declared]; exact f.resSound h2
  unfold nm_declare
  split
  · rename_i r name hname
    split
    · exact ⟨h1', h2'⟩
    · constructor
      · intro q hq
        simp only [List.mem_append, List.mem_singleton] at hq
        rcases hq with hq | rfl
        · exact h1' q hq
        · simp [declName, hname]
      · intro p hp
        simp only [List.mem_append]
        exact Or.inl (h2' p hp)
  · exact ⟨h1', h2'⟩



/-! ### The chain of declaration steps against the specification -/

theorem nm_Steps.dup {P : Prop} {a c : nm_Core} {ds : List VarDecl} (h : nm_Steps P a ds c) :
    duplicateDiags c.diags = duplicateDiags a.diags ++ duplicateInDecls (nm_names a) ds := by
  induction h with
  | nil a => simp [duplicateInDecls]
  | @cons a b c d ds us hstep _ _ ih =>
      rw [ih, hstep.dup, hstep.names]
      simp only [duplicateInDecls, declName]
      cases hname : d.name with
      | none => simp
      | some p =>
          obtain ⟨r, n⟩ := p
          by_cases hc : (nm_names a).contains n = true
          · simp only [hc, if_true, Option.map_some]; simp
          · simp only [hc, Option.map_some]; simp

theorem nm_Steps.unbound {P : Prop} {a c : nm_Core} {ds : List VarDecl} (h : nm_Steps P a ds c) (hP : P) :
    unboundDiags c.diags = unboundDiags a.diags ++ unboundInDecls (nm_names a) ds := by
  induction h with
  | nil a => simp [unboundInDecls]
  | @cons a b c d ds us hstep hus _ ih =>
      rw [ih, hstep.unbound, hstep.names, hus hP]
      simp only [unboundInDecls, List.append_assoc]
      rfl

theorem nm_Steps.unusedD {P : Prop} {a c : nm_Core} {ds : List VarDecl} (h : nm_Steps P a ds c) :
    unusedDiags c.diags = unusedDiags a.diags := by
  induction h with
  | nil a => rfl
  | @cons a b c d ds us hstep _ _ ih => rw [ih, hstep.unusedD]

theorem nm_Steps.names {P : Prop} {a c : nm_Core} {ds : List VarDecl} (h : nm_Steps P a ds c) (n : String) :
    (nm_names c).contains n = ((nm_names a).contains n || (declNames ds).contains n) := by
  induction h with
  | nil a => simp [declNames]
  | @cons a b c d ds us hstep _ _ ih =>
      rw [ih, hstep.names]
      simp only [declNames]
      cases hd : declName d with
      | none => simp
      | some m =>
          by_cases hc : (nm_names a).contains m = true
          · simp only [hc, if_true]
            by_cases hnm : n = m
            · subst hnm; simp at hc; simp [hc]
            · simp [hnm]
          · simp only [hc]
            simp [Bool.or_assoc]

theorem nm_Steps.inv {P : Prop} {a c : nm_Core} {ds : List VarDecl} (h : nm_Steps P a ds c)
    (h1 : nm_declInv a) (h2 : nm_resInv a) : nm_declInv c ∧ nm_resInv c := by
  induction h with
  | nil a => exact ⟨h1, h2⟩
  | @cons a b c d ds us hstep _ _ ih =>
      obtain ⟨i1, i2⟩ := hstep.inv h1 h2
      exact ih i1 i2

/-- not used in `T` -/
def nm_nu (T : List Occ) (p : String × Range) : Bool := ! T.any (fun o => o.2 == p.1)

theorem nm_nu_eq (T : List Occ) : (fun (p : String × Range) => ! T.any (fun o => o.2 == p.1)) = nm_nu T := rfl

theorem nm_nu_append (A B : List Occ) (l : List (String × Range)) :
    (l.filter (nm_nu A)).filter (nm_nu B) = l.filter (nm_nu (A ++ B)) := by
  rw [List.filter_filter]
  apply List.filter_congr
  intro p _
  simp [nm_nu, List.any_append, Bool.and_comm]

/-- `unusedFrom` without the index bookkeeping: `T` = the uses after all declarations -/
def nm_unusedAux (seen : List String) : List VarDecl → List Occ → List Occ
  | [], _ => []
  | d :: ds, T =>
      match d.name with
      | some (r, n) =>
          if seen.contains n then nm_unusedAux seen ds T
          else (if (ds.flatMap usesOrigin ++ T).any (fun o => o.2 == n) then [] else [(r, n)]) ++
            nm_unusedAux (seen ++ [n]) ds T
      | none => nm_unusedAux seen ds T

theorem nm_unusedFrom_eq (prog : Program) : ∀ (ds : List VarDecl) (i : Nat) (seen : List String),
    prog.vars.drop i = ds →
    unusedFrom prog seen i ds = nm_unusedAux seen ds (usesStmts prog.stmts) := by
  intro ds
  induction ds with
  | nil => intro i seen _; rfl
  | cons d ds ih =>
      intro i seen hdrop
      have hdrop' : prog.vars.drop (i + 1) = ds := by
        have := congrArg (List.drop 1) hdrop
        simpa [List.drop_drop] using this
      simp only [unusedFrom, nm_unusedAux]
      cases hname : d.name with
      | none => simp only; exact ih _ _ hdrop'
      | some p =>
          obtain ⟨r, n⟩ := p
          simp only
          rw [ih _ _ hdrop', ih _ _ hdrop']
          simp only [usesAfter, hdrop']

theorem nm_Steps.unused {P : Prop} {a c : nm_Core} {ds : List VarDecl} (h : nm_Steps P a ds c) (hP : P)
    (T : List Occ) :
    (c.unused.filter (nm_nu T)).map (fun p => (p.2, p.1)) =
      (a.unused.filter (nm_nu (ds.flatMap usesOrigin ++ T))).map (fun p => (p.2, p.1)) ++
        nm_unusedAux (nm_names a) ds T := by
  induction h with
  | nil a => simp [nm_unusedAux]
  | @cons a b c d ds us hstep hus _ ih =>
      rw [ih, hstep.names, hstep.unused, hus hP, nm_nu_eq, List.filter_append, nm_nu_append,
        List.map_append, List.append_assoc, List.flatMap_cons, List.append_assoc]
      congr 1
      simp only [nm_unusedAux, declName]
      cases hname : d.name with
      | none => simp
      | some p =>
          obtain ⟨r, n⟩ := p
          by_cases hc : (nm_names a).contains n = true
          · simp only [hc, if_true, Option.map_some]; simp
          · simp only [hc, Option.map_some]
            by_cases hu : (ds.flatMap usesOrigin ++ T).any (fun o => o.2 == n) = true
            · simp only [hu, if_true]
              simp [nm_nu, hu]
            · simp only [hu]
              simp [nm_nu, hu]



/-! ### The final unused warnings and the whole program -/

theorem nm_final : ∀ (l : List (String × Range)) (s : CState),
    (l.foldl (fun s p => s.push p.2 (.unusedVar p.1)) s).diags =
        s.diags ++ l.map (fun p => ⟨p.2, .unusedVar p.1⟩) ∧
    (l.foldl (fun s p => s.push p.2 (.unusedVar p.1)) s).varRes = s.varRes := by
  intro l
  induction l with
  | nil => intro s; simp
  | cons p l ih =>
      intro s
      obtain ⟨h1, h2⟩ := ih (s.push p.2 (.unusedVar p.1))
      simp only [List.foldl_cons, h1, h2]
      simp [CState.push]

theorem nm_proj_unusedWarnings (l : List (String × Range)) :
    unboundDiags (l.map (fun p => (⟨p.2, .unusedVar p.1⟩ : Diag))) = [] ∧
    duplicateDiags (l.map (fun p => (⟨p.2, .unusedVar p.1⟩ : Diag))) = [] ∧
    unusedDiags (l.map (fun p => (⟨p.2, .unusedVar p.1⟩ : Diag))) = l.map (fun p => (p.2, p.1)) := by
  induction l with
  | nil => simp [unboundDiags, duplicateDiags, unusedDiags]
  | cons p l ih =>
      obtain ⟨h1, h2, h3⟩ := ih
      simp only [unboundDiags, duplicateDiags, unusedDiags] at h1 h2 h3 ⊢
      simp [h1, h2, h3]

/-- decomposition of a successful run of `checkProgram`; under `P` (distinct caller ranges) the
    visited occurrences are exactly those of the specification -/
theorem nm_checkProgram (P : Prop) {prog : Program} {pd : List Diag} {st : CState}
    (hP : P → (callRanges prog).Nodup) (h : checkProgram pd prog = .ok st) :
    ∃ st1 st2 us,
      nm_Steps P (nm_core { diags := pd }) prog.vars (nm_core st1) ∧
      nm_FrameW (nm_core st1) (nm_core st2) us ∧
      (P → us = usesStmts prog.stmts) ∧
      st.diags = st2.diags ++ st2.unused.map (fun p => ⟨p.2, .unusedVar p.1⟩) ∧
      st.varRes = st2.varRes := by
  unfold checkProgram at h
  split at h
  · cases h
  · cases h
  · rename_i st1 h1
    split at h
    · cases h
    · cases h
    · rename_i st2 h2
      cases h
      have hP' : P → (prog.vars.flatMap declCall).Nodup ∧ (prog.stmts.flatMap stmtCall).Nodup ∧
          ∀ a ∈ prog.vars.flatMap declCall, ∀ b ∈ prog.stmts.flatMap stmtCall, a ≠ b := by
        intro hp
        have := hP hp
        simp only [callRanges, List.nodup_append] at this
        exact this
      obtain ⟨hsteps, hfn1⟩ := nm_checkVarDecls P prog.vars { diags := pd } st1
        (fun hp => ⟨(hP' hp).1, by intro p hp'; cases hp'⟩) h1
      obtain ⟨us, f, hu⟩ := nm_checkStatements _ _ _ h2
      obtain ⟨e1, e2⟩ := nm_final st2.unused st2
      refine ⟨st1, st2, us, hsteps, f, ?_, e1, e2⟩
      intro hp
      obtain ⟨_, hnd2, hdisj⟩ := hP' hp
      apply hu hnd2
      intro p hp' hin
      rcases hfn1 p hp' with hp' | hp'
      · cases hp'
      · exact hdisj _ hp' _ hin rfl


end NS
