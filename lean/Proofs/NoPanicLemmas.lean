/-
  Proofs/NoPanicLemmas.lean — helper lemmas for property C12: on complete syntax trees no
  function of the interpreter model reaches a panic site.
-/
import Spec.Complete
import Model.Run
import Proofs.AllotLemmas
import Proofs.ReconcileLemmas
import Proofs.DrawBoundLemmas
import Proofs.DistributeLemmas
import Proofs.DistributeLemmas2
import Proofs.DrawLemmas
import Proofs.ReconcileTotals

namespace NS

/-- the outcome is a result or a typed error -/
def NoPanic {α : Type} (o : Outcome α) : Prop := ∀ s, o ≠ .panic s

@[simp] theorem np_ok {α} (a : α) : NoPanic (Outcome.ok a) := by intro s h; cases h
@[simp] theorem np_err {α} (e : Err) : NoPanic (Outcome.err e : Outcome α) := by intro s h; cases h
@[simp] theorem np_panic {α} (s : String) : ¬ NoPanic (Outcome.panic s : Outcome α) :=
  fun h => h s rfl

theorem np_bind {α β} {x : Outcome α} {f : α → Outcome β}
    (hx : NoPanic x) (hf : ∀ a, x = .ok a → NoPanic (f a)) : NoPanic (x >>= f) :=
  Outcome.bind_ne_panic hx (fun a s h => hf a h s)

theorem np_of_eq_panic {α} {o : Outcome α} {s} (h : NoPanic o) (he : o = .panic s) : False :=
  h s he

/-- close a `NoPanic` side goal: a hypothesis or a simp lemma -/
macro "np_close" : tactic =>
  `(tactic| first | assumption | (simp; done) | (with_reducible apply_assumption <;> assumption) | (simp [*]; done))

/-- walk through a cascade of `match … with | .panic s => .panic s | .err e => .err e | .ok v => …`:
    the panic branch contradicts a `NoPanic` fact in the context. -/
macro "np_walk" : tactic =>
  `(tactic| repeat' (first
      | exact np_ok _
      | exact np_err _
      | np_close
      | (exfalso; refine np_of_eq_panic ?_ ‹_ = Outcome.panic _›; np_close)
      | split
      | dsimp only))

/-! ### expect* -/

@[simp] theorem np_expectMonetary (v : Value) : NoPanic (expectMonetary v) := by
  cases v <;> simp [expectMonetary]
@[simp] theorem np_expectNumber (v : Value) : NoPanic (expectNumber v) := by
  cases v <;> simp [expectNumber]
@[simp] theorem np_expectString (v : Value) : NoPanic (expectString v) := by
  cases v <;> simp [expectString]
@[simp] theorem np_expectAsset (v : Value) : NoPanic (expectAsset v) := by
  cases v <;> simp [expectAsset]
@[simp] theorem np_expectAccount (v : Value) : NoPanic (expectAccount v) := by
  cases v <;> simp [expectAccount]
@[simp] theorem np_expectPortion (v : Value) : NoPanic (expectPortion v) := by
  cases v <;> simp [expectPortion]
@[simp] theorem np_expectMonetaryOfAsset (a : String) (v : Value) :
    NoPanic (expectMonetaryOfAsset a v) := by
  unfold expectMonetaryOfAsset
  np_walk

/-! ### expressions -/

theorem np_evalExpr (vars : Vars) : ∀ (e : Expr), e.Complete → NoPanic (evalExpr vars e)
  | .nil, hc => by simp [Expr.Complete] at hc
  | .monetaryNil, hc => by simp [Expr.Complete] at hc
  | .var _ _, _ => by unfold evalExpr; np_walk
  | .asset _ _, _ => by simp [evalExpr]
  | .account _ _, _ => by simp [evalExpr]
  | .str _ _, _ => by simp [evalExpr]
  | .number _ _, _ => by simp [evalExpr]
  | .ratio _ _ _, _ => by unfold evalExpr; np_walk
  | .monetary _ a n, hc => by
      have ha := np_evalExpr vars a hc.1
      have hn := np_evalExpr vars n hc.2
      unfold evalExpr
      np_walk
  | .infix _ op l r, hc => by
      have hl := np_evalExpr vars l hc.1
      have hr := np_evalExpr vars r hc.2
      unfold evalExpr
      np_walk

theorem np_evalAs {α : Type} (vars : Vars) (e : Expr) (hc : e.Complete) (expect : Value → Outcome α)
    (he : ∀ v, NoPanic (expect v)) : NoPanic (evalAs vars e expect) :=
  np_bind (np_evalExpr vars e hc) (fun v _ => he v)

theorem np_evalExprs (vars : Vars) : ∀ (es : List Expr), ExprsComplete es → NoPanic (evalExprs vars es)
  | [], _ => by simp [evalExprs]
  | e :: es, hc => by
      unfold evalExprs
      refine np_bind (np_evalExpr vars e hc.1) (fun v _ => ?_)
      refine np_bind (np_evalExprs vars es hc.2) (fun vs _ => ?_)
      simp

/-! ### allotments -/

theorem np_evalAllotItems (vars : Vars) : ∀ (items : List AllotVal), (∀ a ∈ items, a.Complete) →
    NoPanic (evalAllotItems vars items)
  | [], _ => by simp [evalAllotItems]
  | .nil :: _, hc => by simpa [AllotVal.Complete] using hc .nil
  | .remaining _ :: rest, hc => by
      unfold evalAllotItems
      refine np_bind (np_evalAllotItems vars rest (fun a ha => hc a (by simp [ha]))) (fun _ _ => ?_)
      simp
  | .portion e :: rest, hc => by
      unfold evalAllotItems
      have he : e.Complete := by simpa [AllotVal.Complete] using hc (.portion e)
      refine np_bind (np_evalAs vars e he _ np_expectPortion) (fun _ _ => ?_)
      refine np_bind (np_evalAllotItems vars rest (fun a ha => hc a (by simp [ha]))) (fun _ _ => ?_)
      simp

theorem np_allotOf (n : Int) (qs : List (Option Rat)) : NoPanic (allotOf n qs) := by
  unfold allotOf
  np_walk

theorem np_makeAllotment (vars : Vars) (n : Int) (items : List AllotVal)
    (hc : ∀ a ∈ items, a.Complete) : NoPanic (makeAllotment vars n items) := by
  rw [makeAllotment_eq]
  exact np_bind (np_evalAllotItems vars items hc) (fun qs _ => np_allotOf n qs)

theorem np_makeAllotment_length (vars : Vars) (n : Int) (items : List AllotVal) (parts : List Int)
    (h : makeAllotment vars n items = .ok parts) : parts.length = items.length := by
  rw [makeAllotment_eq] at h
  obtain ⟨qs, h1, h2⟩ := Outcome.bind_eq_ok h
  rw [allotOf_length n qs parts h2, evalAllotItems_length vars items qs h1]

theorem np_srcItems_allot : ∀ (items : List SrcItem), SrcItemsComplete items →
    ∀ a ∈ items.map SrcItem.allot, a.Complete
  | [], _ => by simp
  | (.mk _ a src) :: rest, hc => by
      simp only [SrcItemsComplete] at hc
      intro b hb
      simp only [List.map_cons, List.mem_cons] at hb
      rcases hb with rfl | hb
      · exact hc.1
      · exact np_srcItems_allot rest hc.2.2 b hb

theorem np_dstItems_allot : ∀ (items : List DestItem), DstItemsComplete items →
    ∀ a ∈ items.map DestItem.allot, a.Complete
  | [], _ => by simp
  | (.mk _ a kd) :: rest, hc => by
      simp only [DstItemsComplete] at hc
      intro b hb
      simp only [List.map_cons, List.mem_cons] at hb
      rcases hb with rfl | hb
      · exact hc.1
      · exact np_dstItems_allot rest hc.2.2 b hb

/-! ### text -/

theorem np_parseMonetary (s : String) : NoPanic (parseMonetary s) := by
  unfold parseMonetary
  np_walk

theorem np_ParsePortionSpecific (s : String) : NoPanic (ParsePortionSpecific s) := by
  have hres : NoPanic (match matchPercent s.toList with
    | some (i, f) => Outcome.ok (some (percentValue i f))
    | none =>
      match matchFraction s.toList with
      | some (n, d) =>
        if digitsVal d = 0 then Outcome.err (Err.badPortionParsing "invalid fractional format")
        else Outcome.ok (some (mkRat (↑(digitsVal n)) (digitsVal d)))
      | none => Outcome.ok none) := by np_walk
  unfold ParsePortionSpecific
  dsimp only
  np_walk

theorem np_parseVar (ty raw : String) : NoPanic (parseVar ty raw) := by
  have h1 := np_parseMonetary raw
  have h2 := np_ParsePortionSpecific raw
  unfold parseVar
  np_walk

/-! ### sources -/

theorem np_trySendingToAccount (env : Env) (addr : Expr) (hc : addr.Complete) (amount : Int)
    (od : Option Int) (snd : Senders) : NoPanic (trySendingToAccount env addr amount od snd) := by
  have h := np_evalAs env.vars addr hc _ np_expectAccount
  unfold trySendingToAccount
  np_walk

theorem np_sendAllToAccount (env : Env) (addr : Expr) (hc : addr.Complete)
    (od : Option Int) (snd : Senders) : NoPanic (sendAllToAccount env addr od snd) := by
  have h := np_evalAs env.vars addr hc _ np_expectAccount
  unfold sendAllToAccount
  np_walk

mutual
  theorem np_trySendingUpTo (env : Env) : (src : Source) → src.Complete → (amount : Int) →
      (snd : Senders) → NoPanic (trySendingUpTo env src amount snd)
    | .nil, hc, _, _ => by simp [Source.Complete] at hc
    | .account e, hc, amount, snd => by
        simp only [Source.Complete] at hc
        simp only [trySendingUpTo]
        exact np_trySendingToAccount env e hc amount _ snd
    | .overdraft _ addr none, hc, amount, snd => by
        simp only [Source.Complete] at hc
        simp only [trySendingUpTo]
        exact np_trySendingToAccount env addr hc amount _ snd
    | .overdraft _ addr (some b), hc, amount, snd => by
        simp only [Source.Complete] at hc
        have h1 := np_evalAs env.vars b hc.2 _ (np_expectMonetaryOfAsset env.asset)
        have h2 := fun cap => np_trySendingToAccount env addr hc.1 amount (some cap) snd
        simp only [trySendingUpTo]
        np_walk
    | .inorder _ srcs, hc, amount, snd => by
        simp only [Source.Complete] at hc
        have h := np_sendInorder env srcs hc amount snd
        simp only [trySendingUpTo]
        np_walk
    | .allotment _ items, hc, amount, snd => by
        simp only [Source.Complete] at hc
        have h1 := np_makeAllotment env.vars amount (items.map SrcItem.allot)
          (np_srcItems_allot items hc)
        simp only [trySendingUpTo]
        split
        · exact (np_of_eq_panic h1 ‹_›).elim
        · simp
        · rename_i parts hparts
          have hlen := np_makeAllotment_length _ _ _ _ hparts
          have h2 := np_sendAllotItems env items hc parts (by simp at hlen; omega) snd
          np_walk
    | .capped _ cap src, hc, amount, snd => by
        simp only [Source.Complete] at hc
        have h1 := np_evalAs env.vars cap hc.1 _ (np_expectMonetaryOfAsset env.asset)
        have h2 := fun c => np_trySendingUpTo env src hc.2 (max 0 (min amount c)) snd
        simp only [trySendingUpTo]
        np_walk

  theorem np_sendInorder (env : Env) : (srcs : List Source) → SourcesComplete srcs → (left : Int) →
      (snd : Senders) → NoPanic (sendInorder env srcs left snd)
    | [], _, _, _ => by simp [sendInorder]
    | s :: ss, hc, left, snd => by
        simp only [SourcesComplete] at hc
        have h1 := np_trySendingUpTo env s hc.1 left snd
        have h2 := fun l sd => np_sendInorder env ss hc.2 l sd
        simp only [sendInorder]
        np_walk

  theorem np_sendAllotItems (env : Env) : (items : List SrcItem) → SrcItemsComplete items →
      (parts : List Int) → items.length ≤ parts.length → (snd : Senders) →
      NoPanic (sendAllotItems env items parts snd)
    | [], _, _, _, _ => by simp [sendAllotItems]
    | _ :: _, _, [], hlen, _ => by simp at hlen
    | (.mk _ _ src) :: rest, hc, p :: ps, hlen, snd => by
        simp only [SrcItemsComplete] at hc
        have h1 := np_trySendingUpTo env src hc.2.1 p snd
        have h2 := fun sd => np_sendAllotItems env rest hc.2.2 ps (by simpa using hlen) sd
        simp only [sendAllotItems]
        np_walk
end

theorem np_trySendingExact (env : Env) (src : Source) (hc : src.Complete) (amount : Int)
    (snd : Senders) : NoPanic (trySendingExact env src amount snd) := by
  have h := np_trySendingUpTo env src hc amount snd
  unfold trySendingExact
  np_walk

mutual
  theorem np_sendAll (env : Env) : (src : Source) → src.Complete → (snd : Senders) →
      NoPanic (sendAll env src snd)
    | .nil, hc, _ => by simp [Source.Complete] at hc
    | .account e, hc, snd => by
        simp only [Source.Complete] at hc
        simp only [sendAll]
        exact np_sendAllToAccount env e hc _ snd
    | .overdraft _ addr none, hc, snd => by
        simp only [Source.Complete] at hc
        simp only [sendAll]
        exact np_sendAllToAccount env addr hc _ snd
    | .overdraft _ addr (some b), hc, snd => by
        simp only [Source.Complete] at hc
        have h1 := np_evalAs env.vars b hc.2 _ (np_expectMonetaryOfAsset env.asset)
        have h2 := fun cap => np_sendAllToAccount env addr hc.1 (some cap) snd
        simp only [sendAll]
        np_walk
    | .inorder _ srcs, hc, snd => by
        simp only [Source.Complete] at hc
        simp only [sendAll]
        exact np_sendAllList env srcs hc 0 snd
    | .capped _ cap src, hc, snd => by
        simp only [Source.Complete] at hc
        have h1 := np_evalAs env.vars cap hc.1 _ (np_expectMonetaryOfAsset env.asset)
        have h2 := fun c => np_trySendingUpTo env src hc.2 (max 0 c) snd
        simp only [sendAll]
        np_walk
    | .allotment _ _, _, _ => by simp [sendAll]

  theorem np_sendAllList (env : Env) : (srcs : List Source) → SourcesComplete srcs → (total : Int) →
      (snd : Senders) → NoPanic (sendAllList env srcs total snd)
    | [], _, _, _ => by simp [sendAllList]
    | s :: ss, hc, total, snd => by
        simp only [SourcesComplete] at hc
        have h1 := np_sendAll env s hc.1 snd
        have h2 := fun t sd => np_sendAllList env ss hc.2 t sd
        simp only [sendAllList]
        np_walk
end

/-! ### destinations -/

mutual
  theorem np_receiveFrom (env : Env) : (dst : Dest) → dst.Complete → (amount : Int) →
      (rcv : Receivers) → NoPanic (receiveFrom env dst amount rcv)
    | .nil, hc, _, _ => by simp [Dest.Complete] at hc
    | .account e, hc, amount, rcv => by
        simp only [Dest.Complete] at hc
        have h1 := np_evalAs env.vars e hc _ np_expectAccount
        simp only [receiveFrom]
        np_walk
    | .allotment _ items, hc, amount, rcv => by
        simp only [Dest.Complete] at hc
        have h1 := np_makeAllotment env.vars amount (items.map DestItem.allot)
          (np_dstItems_allot items hc)
        simp only [receiveFrom]
        split
        · exact (np_of_eq_panic h1 ‹_›).elim
        · simp
        · rename_i parts hparts
          have hlen := np_makeAllotment_length _ _ _ _ hparts
          exact np_receiveAllotItems env items hc parts (by simp at hlen; omega) rcv
    | .inorder _ clauses remaining, hc, amount, rcv => by
        simp only [Dest.Complete] at hc
        have h1 := np_receiveClauses env clauses hc.1 amount rcv
        have h2 := fun l r => np_receiveKoD env remaining hc.2 l r
        simp only [receiveFrom]
        np_walk

  theorem np_receiveKoD (env : Env) : (k : KoD) → k.Complete → (amount : Int) →
      (rcv : Receivers) → NoPanic (receiveKoD env k amount rcv)
    | .nil, hc, _, _ => by simp [KoD.Complete] at hc
    | .kept _, _, _, _ => by simp [receiveKoD]
    | .to d, hc, amount, rcv => by
        simp only [KoD.Complete] at hc
        simp only [receiveKoD]
        exact np_receiveFrom env d hc amount rcv

  theorem np_receiveClauses (env : Env) : (clauses : List DestClause) → ClausesComplete clauses →
      (left : Int) → (rcv : Receivers) → NoPanic (receiveClauses env clauses left rcv)
    | [], _, _, _ => by simp [receiveClauses]
    | (.mk _ cap kd) :: rest, hc, left, rcv => by
        simp only [ClausesComplete] at hc
        have h1 := np_evalAs env.vars cap hc.1 _ (np_expectMonetaryOfAsset env.asset)
        have h2 := fun a r => np_receiveKoD env kd hc.2.1 a r
        have h3 := fun l r => np_receiveClauses env rest hc.2.2 l r
        simp only [receiveClauses]
        np_walk

  theorem np_receiveAllotItems (env : Env) : (items : List DestItem) → DstItemsComplete items →
      (parts : List Int) → items.length ≤ parts.length → (rcv : Receivers) →
      NoPanic (receiveAllotItems env items parts rcv)
    | [], _, _, _, _ => by simp [receiveAllotItems]
    | _ :: _, _, [], hlen, _ => by simp at hlen
    | (.mk _ _ kd) :: rest, hc, p :: ps, hlen, rcv => by
        simp only [DstItemsComplete] at hc
        have h1 := np_receiveKoD env kd hc.2.1 p rcv
        have h2 := fun r => np_receiveAllotItems env rest hc.2.2 ps (by simpa using hlen) r
        simp only [receiveAllotItems]
        np_walk
end

/-! ### preloading -/

theorem np_evaluateSentAmt (vars : Vars) : (sv : SentValue) → sv.Complete →
    NoPanic (evaluateSentAmt vars sv)
  | .nil, hc => by simp [SentValue.Complete] at hc
  | .all _ a, hc => by
      simp only [SentValue.Complete] at hc
      have h := np_evalAs vars a hc _ np_expectAsset
      simp only [evaluateSentAmt]
      np_walk
  | .lit _ m, hc => by
      simp only [SentValue.Complete] at hc
      have h := np_evalAs vars m hc _ np_expectMonetary
      simp only [evaluateSentAmt]
      np_walk

mutual
  theorem np_findBalancesQueries (vars : Vars) (asset : String) : (src : Source) → src.Complete →
      (p : BalanceQuery) → NoPanic (findBalancesQueries vars asset src p)
    | .nil, hc, _ => by simp [Source.Complete] at hc
    | .account e, hc, p => by
        simp only [Source.Complete] at hc
        have h := np_evalAs vars e hc _ np_expectAccount
        simp only [findBalancesQueries]
        np_walk
    | .overdraft _ _ none, _, _ => by simp [findBalancesQueries]
    | .overdraft _ addr (some _), hc, p => by
        simp only [Source.Complete] at hc
        have h := np_evalAs vars addr hc.1 _ np_expectAccount
        simp only [findBalancesQueries]
        np_walk
    | .inorder _ srcs, hc, p => by
        simp only [Source.Complete] at hc
        simp only [findBalancesQueries]
        exact np_findQueriesList vars asset srcs hc p
    | .capped _ _ src, hc, p => by
        simp only [Source.Complete] at hc
        simp only [findBalancesQueries]
        exact np_findBalancesQueries vars asset src hc.2 p
    | .allotment _ items, hc, p => by
        simp only [Source.Complete] at hc
        simp only [findBalancesQueries]
        exact np_findQueriesItems vars asset items hc p

  theorem np_findQueriesList (vars : Vars) (asset : String) : (srcs : List Source) →
      SourcesComplete srcs → (p : BalanceQuery) → NoPanic (findQueriesList vars asset srcs p)
    | [], _, _ => by simp [findQueriesList]
    | s :: ss, hc, p => by
        simp only [SourcesComplete] at hc
        have h1 := np_findBalancesQueries vars asset s hc.1 p
        have h2 := fun p' => np_findQueriesList vars asset ss hc.2 p'
        simp only [findQueriesList]
        np_walk

  theorem np_findQueriesItems (vars : Vars) (asset : String) : (items : List SrcItem) →
      SrcItemsComplete items → (p : BalanceQuery) → NoPanic (findQueriesItems vars asset items p)
    | [], _, _ => by simp [findQueriesItems]
    | (.mk _ _ src) :: rest, hc, p => by
        simp only [SrcItemsComplete] at hc
        have h1 := np_findBalancesQueries vars asset src hc.2.1 p
        have h2 := fun p' => np_findQueriesItems vars asset rest hc.2.2 p'
        simp only [findQueriesItems]
        np_walk
end

theorem np_findBalancesQueriesInStatement (vars : Vars) : (st : Statement) → st.Complete →
    (p : BalanceQuery) → NoPanic (findBalancesQueriesInStatement vars st p)
  | .nil, hc, _ => by simp [Statement.Complete] at hc
  | .fnCallNil, hc, _ => by simp [Statement.Complete] at hc
  | .fnCall _, _, _ => by simp [findBalancesQueriesInStatement]
  | .save _ sv amount, hc, p => by
      simp only [Statement.Complete] at hc
      have h1 := np_evaluateSentAmt vars sv hc.1
      have h2 := np_evalAs vars amount hc.2 _ np_expectAccount
      simp only [findBalancesQueriesInStatement]
      np_walk
  | .send _ sv src _, hc, p => by
      simp only [Statement.Complete] at hc
      have h1 := np_evaluateSentAmt vars sv hc.1
      have h2 := fun asset => np_findBalancesQueries vars asset src hc.2.1 p
      simp only [findBalancesQueriesInStatement]
      np_walk

theorem np_preload (vars : Vars) : (ss : List Statement) → StatementsComplete ss →
    (p : BalanceQuery) → NoPanic (preload vars ss p)
  | [], _, _ => by simp [preload]
  | s :: ss, hc, p => by
      simp only [StatementsComplete] at hc
      have h1 := np_findBalancesQueriesInStatement vars s hc.1 p
      have h2 := fun p' => np_preload vars ss hc.2 p'
      unfold preload
      np_walk

/-! ### statements -/

theorem np_runSendStatement (vars : Vars) (st : RState) (sv : SentValue) (hsv : sv.Complete)
    (src : Source) (hsrc : src.Complete) (dst : Dest) (hdst : dst.Complete) :
    NoPanic (runSendStatement vars st sv src dst) := by
  cases sv with
  | nil => simp [SentValue.Complete] at hsv
  | all r a =>
    simp only [SentValue.Complete] at hsv
    have h1 := np_evalAs vars a hsv _ np_expectAsset
    have h2 := fun env snd => np_sendAll env src hsrc snd
    have h3 := fun env n rcv => np_receiveFrom env dst hdst n rcv
    simp only [runSendStatement]
    np_walk
  | lit r m =>
    simp only [SentValue.Complete] at hsv
    have h1 := np_evalAs vars m hsv _ np_expectMonetary
    have h2 := fun env n snd => np_trySendingExact env src hsrc n snd
    have h3 := fun env n rcv => np_receiveFrom env dst hdst n rcv
    simp only [runSendStatement]
    np_walk

theorem np_runSaveStatement (vars : Vars) (st : RState) (sv : SentValue) (hsv : sv.Complete)
    (amount : Expr) (ha : amount.Complete) : NoPanic (runSaveStatement vars st sv amount) := by
  have h1 := np_evaluateSentAmt vars sv hsv
  have h2 := np_evalAs vars amount ha _ np_expectAccount
  unfold runSaveStatement
  np_walk

theorem np_parseArgs2 {α β : Type} (args : List Value) (e1 : Value → Outcome α)
    (e2 : Value → Outcome β) (h1 : ∀ v, NoPanic (e1 v)) (h2 : ∀ v, NoPanic (e2 v)) :
    NoPanic (parseArgs2 args e1 e2) := by
  unfold parseArgs2
  split
  · refine np_bind (h1 _) (fun _ _ => ?_)
    refine np_bind (h2 _) (fun _ _ => ?_)
    simp
  · simp

theorem np_parseArgs3 {α β γ : Type} (args : List Value) (e1 : Value → Outcome α)
    (e2 : Value → Outcome β) (e3 : Value → Outcome γ) (h1 : ∀ v, NoPanic (e1 v))
    (h2 : ∀ v, NoPanic (e2 v)) (h3 : ∀ v, NoPanic (e3 v)) :
    NoPanic (parseArgs3 args e1 e2 e3) := by
  unfold parseArgs3
  split
  · refine np_bind (h1 _) (fun _ _ => ?_)
    refine np_bind (h2 _) (fun _ _ => ?_)
    refine np_bind (h3 _) (fun _ _ => ?_)
    simp
  · simp

theorem np_runStatement (vars : Vars) (st : RState) : (s : Statement) → s.Complete →
    NoPanic (runStatement vars st s)
  | .nil, hc => by simp [Statement.Complete] at hc
  | .fnCallNil, hc => by simp [Statement.Complete] at hc
  | .send _ sv src dst, hc => by
      simp only [Statement.Complete] at hc
      simp only [runStatement]
      exact np_runSendStatement vars st sv hc.1 src hc.2.1 dst hc.2.2
  | .save _ sv amount, hc => by
      simp only [Statement.Complete] at hc
      simp only [runStatement]
      exact np_runSaveStatement vars st sv hc.1 amount hc.2
  | .fnCall fn, hc => by
      simp only [Statement.Complete, FnCall.Complete] at hc
      have h1 := np_evalExprs vars fn.args hc
      have h2 := fun args => np_parseArgs2 args expectString (fun v => Outcome.ok v)
        np_expectString (fun v => np_ok v)
      have h3 := fun args => np_parseArgs3 args expectAccount expectString (fun v => Outcome.ok v)
        np_expectAccount np_expectString (fun v => np_ok v)
      simp only [runStatement]
      np_walk

theorem np_runStatements (vars : Vars) : (ss : List Statement) → StatementsComplete ss →
    (st : RState) → NoPanic (runStatements vars ss st)
  | [], _, _ => by simp [runStatements]
  | s :: ss, hc, st => by
      simp only [StatementsComplete] at hc
      have h1 := np_runStatement vars st s hc.1
      have h2 := fun st' => np_runStatements vars ss hc.2 st'
      unfold runStatements
      np_walk

/-! ### variables -/

theorem np_getBalance (store : Store) (q : QState) (account asset : String) :
    NoPanic (getBalance store q account asset) := by
  unfold getBalance
  np_walk

theorem np_handleOrigin (store : Store) (flag : Bool) (vars : Vars) (q : QState) (ty : String)
    (fn : FnCall) (hc : fn.Complete) : NoPanic (handleOrigin store flag vars q ty fn) := by
  have h1 := np_evalExprs vars fn.args hc
  have h2 := fun args => np_parseArgs2 args expectAccount expectString
    np_expectAccount np_expectString
  have h3 := fun args => np_parseArgs2 args expectAccount expectAsset
    np_expectAccount np_expectAsset
  have h4 := fun raw => np_parseVar ty raw
  have h5 := fun account asset => np_getBalance store q account asset
  unfold handleOrigin
  np_walk

theorem np_parseVars (store : Store) (flag : Bool) (rawVars : List (String × String)) :
    (ds : List VarDecl) → VarDeclsComplete ds → (vars : Vars) → (q : QState) →
    NoPanic (parseVars store flag rawVars ds vars q)
  | [], _, _, _ => by simp [parseVars]
  | d :: rest, hc, vars, q => by
      simp only [VarDeclsComplete, VarDecl.Complete] at hc
      obtain ⟨⟨hn, ht, ho⟩, hrest⟩ := hc
      have h1 := fun vs q' => np_parseVars store flag rawVars rest hrest vs q'
      have h2 := fun ty raw => np_parseVar ty raw
      have h3 := fun ty fn (h : d.origin = some fn) =>
        np_handleOrigin store flag vars q ty fn (ho fn h)
      unfold parseVars
      split
      · rename_i h; simp [h] at hn
      · rename_i h; simp [h] at ht
      · np_walk

theorem np_RunProgram (prog : Program) (hc : prog.Complete) (rawVars : List (String × String))
    (store : Store) (flag : Bool) : NoPanic (RunProgram prog rawVars store flag) := by
  have h1 := np_parseVars store flag rawVars prog.vars hc.1 [] ⟨[], [], 0, []⟩
  have h2 := fun vars p => np_preload vars prog.stmts hc.2 p
  have h3 := fun vars st => np_runStatements vars prog.stmts hc.2 st
  unfold RunProgram
  np_walk

end NS
