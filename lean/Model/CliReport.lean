/-
  Model/CliReport.lean — what `numscript check FILE` prints (internal/cmd/check.go: check), given the
  diagnostics the library computed: they are sorted by start position, each is printed as
  `FILE:line:char - <severity>` and its message on the next line, blocks separated by a blank line,
  then a summary line; the exit status is 1 exactly when some diagnostic has error severity.
  `Kind.Message()` is an input (a string per diagnostic); the ANSI colouring is internal/ansi.
-/
namespace NS

structure RDiag where
  line : Nat
  char : Nat
  sev : Nat            -- 1 error, 2 warning, 3 information, 4 hint
  msg : String
  deriving DecidableEq, Repr

/-- `ansi.col` -/
def ansiCol (s : String) (code : Nat) : String := "\x1b[" ++ toString code ++ "m" ++ s ++ "\x1b[0m"

/-- `SeverityToAnsiString` (`none`: the non-exhaustive-match panic) -/
def sevAnsi : Nat → Option String
  | 1 => some (ansiCol "Error" 31)
  | 2 => some (ansiCol "Warning" 33)
  | 3 => some "Info"
  | 4 => some "Hint"
  | _ => none

/-- `p2.GtEq(p1)` on start positions: the order `sort.Slice` is given -/
def startLe (a b : RDiag) : Bool := a.line < b.line || (a.line == b.line && a.char ≤ b.char)

/-- a stable insertion sort by start position (the real `sort.Slice` may order diagnostics that start
    at the same position differently; the report is specified for any order sorted by `startLe`) -/
def insertDiag (d : RDiag) : List RDiag → List RDiag
  | [] => [d]
  | x :: xs => if startLe x d then x :: insertDiag d xs else d :: x :: xs

def sortDiags : List RDiag → List RDiag
  | [] => []
  | d :: ds => insertDiag d (sortDiags ds)

def SortedByStart : List RDiag → Prop
  | [] => True
  | [_] => True
  | a :: b :: t => startLe a b = true ∧ SortedByStart (b :: t)

/-- one diagnostic: `fmt.Printf("%s:%d:%d - %s\n%s\n", path, line, char, errType, message)` -/
def diagBlock (path : String) (d : RDiag) : Option String :=
  (sevAnsi d.sev).map (fun s => path ++ ":" ++ toString d.line ++ ":" ++ toString d.char ++ " - " ++ s ++ "\n" ++ d.msg ++ "\n")

/-- the loop: `if i != 0 { fmt.Print("\n\n") }` then the block -/
def diagBlocks (path : String) : List RDiag → Bool → Option String
  | [], _ => some ""
  | d :: ds, first =>
    match diagBlock path d, diagBlocks path ds false with
    | some b, some rest => some ((if first then "" else "\n\n") ++ b ++ rest)
    | _, _ => none

def errorsOf (ds : List RDiag) : Nat := (ds.filter (fun d => d.sev == 1)).length

/-- the summary and the exit status -/
def reportTail (ds : List RDiag) : String × Nat :=
  let sep := if ds.isEmpty then "" else "\n\n"
  let n := errorsOf ds
  if n ≠ 0 then
    (sep ++ "\x1b[31mFound " ++ toString n ++ " " ++ (if n = 1 then "error" else "errors") ++ "\x1b[0m\n", 1)
  else (sep ++ "No errors found ✅\n", 0)

/-- stdout and exit status of `check` for diagnostics already in printing order (`none`: panic on an
    unknown severity) -/
def checkReport (path : String) (ds : List RDiag) : Option (String × Nat) :=
  (diagBlocks path ds true).map (fun body => (body ++ (reportTail ds).1, (reportTail ds).2))

end NS
