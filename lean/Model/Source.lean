/-
  Model/Source.lean — the source side of a send:
  `trySendingUpTo`, `trySendingToAccount`, `trySendingExact`, `sendAll`,
  `sendAllToAccount`, `availableFunds`, `pushSender`
  (internal/interpreter/interpreter.go).

  During the statement phase the balance cache is only read (the insertion of a
  default zero by `getCachedBalance` is unobservable there: no balance query is
  issued after the first statement starts), so the functions take the cache in
  a read-only environment and thread the list of senders.
-/
import Model.Allot

namespace NS

abbrev Cache := List ((String × String) × Int)

/-- `getCachedBalance` as a read: an absent entry reads as 0 -/
def cacheGet (c : Cache) (account asset : String) : Int :=
  match c.find? (fun p => p.1 == (account, asset)) with
  | some p => p.2
  | none => 0

structure Env where
  vars : Vars
  cache : Cache
  asset : String        -- CurrentAsset

abbrev Senders := List (String × Int)      -- in push order

/-- what the current statement already pulled from `account` -/
def pulled : Senders → String → Int
  | [], _ => 0
  | (n, m) :: t, a => (if n = a then m else 0) + pulled t a

/-- `availableFunds`: balance − already pulled + overdraft, never below zero -/
def availableFunds (env : Env) (snd : Senders) (account : String) (overdraft : Int) : Int :=
  max 0 (cacheGet env.cache account env.asset - pulled snd account + overdraft)

/-- `pushSender`: zero amounts are not queued -/
def pushSender (snd : Senders) (name : String) (amt : Int) : Senders :=
  if amt = 0 then snd else snd ++ [(name, amt)]

/-- `trySendingToAccount`; `overdraft = none` is the unbounded case -/
def trySendingToAccount (env : Env) (addr : Expr) (amount : Int) (overdraft : Option Int)
    (snd : Senders) : Outcome (Int × Senders) :=
  match evalAs env.vars addr expectAccount with
  | .panic s => .panic s
  | .err e => .err e
  | .ok account =>
    let od := if account = WORLD then none else overdraft
    let sent := match od with
      | none => amount
      | some o => min (availableFunds env snd account o) amount
    .ok (sent, pushSender snd account sent)

/-- `sendAllToAccount` -/
def sendAllToAccount (env : Env) (addr : Expr) (overdraft : Option Int) (snd : Senders) :
    Outcome (Int × Senders) :=
  match evalAs env.vars addr expectAccount with
  | .panic s => .panic s
  | .err e => .err e
  | .ok account =>
    match overdraft with
    | none => .err (.invalidUnboundedInSendAll account)
    | some o =>
      if account = WORLD then .err (.invalidUnboundedInSendAll account)
      else
        let sent := availableFunds env snd account o
        .ok (sent, pushSender snd account sent)

def SrcItem.allot : SrcItem → AllotVal
  | .mk _ a _ => a

mutual
  /-- `trySendingUpTo` -/
  def trySendingUpTo (env : Env) : Source → Int → Senders → Outcome (Int × Senders)
    | .nil, _, _ => .panic "trySendingUpTo:nil source"
    | .account e, amount, snd => trySendingToAccount env e amount (some 0) snd
    | .overdraft _ addr none, amount, snd => trySendingToAccount env addr amount none snd
    | .overdraft _ addr (some b), amount, snd =>
        match evalAs env.vars b (expectMonetaryOfAsset env.asset) with
        | .panic s => .panic s
        | .err e => .err e
        | .ok cap => trySendingToAccount env addr amount (some cap) snd
    | .inorder _ srcs, amount, snd =>
        match sendInorder env srcs amount snd with
        | .panic s => .panic s
        | .err e => .err e
        | .ok (left, snd') => .ok (amount - left, snd')
    | .allotment _ items, amount, snd =>
        match makeAllotment env.vars amount (items.map SrcItem.allot) with
        | .panic s => .panic s
        | .err e => .err e
        | .ok parts =>
          match sendAllotItems env items parts snd with
          | .panic s => .panic s
          | .err e => .err e
          | .ok snd' => .ok (amount, snd')
    | .capped _ cap src, amount, snd =>
        match evalAs env.vars cap (expectMonetaryOfAsset env.asset) with
        | .panic s => .panic s
        | .err e => .err e
        | .ok c => trySendingUpTo env src (max 0 (min amount c)) snd

  /-- the loop of the `SourceInorder` case; returns `totalLeft` -/
  def sendInorder (env : Env) : List Source → Int → Senders → Outcome (Int × Senders)
    | [], left, snd => .ok (left, snd)
    | s :: ss, left, snd =>
        match trySendingUpTo env s left snd with
        | .panic p => .panic p
        | .err e => .err e
        | .ok (sent, snd') => sendInorder env ss (left - sent) snd'

  /-- the loop of the `SourceAllotment` case: `trySendingExact` on each item -/
  def sendAllotItems (env : Env) : List SrcItem → List Int → Senders → Outcome Senders
    | [], _, snd => .ok snd
    | _ :: _, [], _ => .panic "trySendingUpTo:allot index out of range"
    | (.mk _ _ src) :: rest, p :: ps, snd =>
        match trySendingUpTo env src p snd with
        | .panic s => .panic s
        | .err e => .err e
        | .ok (sent, snd') =>
          if sent = p then sendAllotItems env rest ps snd'
          else .err (.missingFunds env.asset p sent)
end

/-- `trySendingExact` -/
def trySendingExact (env : Env) (src : Source) (amount : Int) (snd : Senders) : Outcome Senders :=
  match trySendingUpTo env src amount snd with
  | .panic s => .panic s
  | .err e => .err e
  | .ok (sent, snd') =>
    if sent = amount then .ok snd' else .err (.missingFunds env.asset amount sent)

mutual
  /-- `sendAll` -/
  def sendAll (env : Env) : Source → Senders → Outcome (Int × Senders)
    | .nil, _ => .panic "sendAll:nil source"
    | .account e, snd => sendAllToAccount env e (some 0) snd
    | .overdraft _ addr none, snd => sendAllToAccount env addr none snd
    | .overdraft _ addr (some b), snd =>
        match evalAs env.vars b (expectMonetaryOfAsset env.asset) with
        | .panic s => .panic s
        | .err e => .err e
        | .ok cap => sendAllToAccount env addr (some cap) snd
    | .inorder _ srcs, snd => sendAllList env srcs 0 snd
    | .capped _ cap src, snd =>
        match evalAs env.vars cap (expectMonetaryOfAsset env.asset) with
        | .panic s => .panic s
        | .err e => .err e
        | .ok c => trySendingUpTo env src (max 0 c) snd
    | .allotment _ _, _ => .err .invalidAllotmentInSendAll

  /-- the loop of `sendAll`'s `SourceInorder` case; threads `totalSent` -/
  def sendAllList (env : Env) : List Source → Int → Senders → Outcome (Int × Senders)
    | [], total, snd => .ok (total, snd)
    | s :: ss, total, snd =>
        match sendAll env s snd with
        | .panic p => .panic p
        | .err e => .err e
        | .ok (sent, snd') => sendAllList env ss (total + sent) snd'
end

end NS
