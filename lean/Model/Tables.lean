/-
  Model/Tables.lean — tables of internal/analysis (builtin signatures, allowed
  types, diagnostic severities).  REGENERATED from the Go sources by
  /verif/extract on every run (vlib/tables.py); this committed copy is what the
  generator produced for the pinned tree and is overwritten before each build.
-/
namespace NS

def allowedTypes : List String := ["monetary", "account", "portion", "asset", "number", "string"]

/-- (name, context, parameter types, return type) ; context: "statement" | "origin" -/
def builtinsTable : List (String × String × List String × String) := [
  ("set_tx_meta", "statement", ["string", "any"], ""),
  ("set_account_meta", "statement", ["account", "string", "any"], ""),
  ("meta", "origin", ["account", "string"], "any"),
  ("balance", "origin", ["account", "asset"], "monetary"),
  ("overdraft", "origin", ["account", "asset"], "monetary")
]

/-- (diagnostic kind, severity) ; 1 = error, 2 = warning -/
def severityTable : List (String × Nat) := [
  ("Parsing", 1), ("InvalidType", 1), ("DuplicateVariable", 1), ("UnboundVariable", 1), ("UnusedVar", 2),
  ("TypeMismatch", 1), ("RemainingIsNotLast", 1), ("BadAllotmentSum", 1), ("FixedPortionVariable", 2),
  ("RedundantRemaining", 2), ("UnknownFunction", 1), ("BadArity", 1), ("InvalidWorldOverdraft", 2),
  ("NoAllotmentInSendAll", 2), ("InvalidUnboundedAccount", 1), ("EmptiedAccount", 2),
  ("UnboundedAccountIsNotLast", 2), ("DivByZero", 1)
]

def builtinDocsTable : List (String × String) := [
  ("set_tx_meta", "set transaction metadata"),
  ("set_account_meta", "set account metadata"),
  ("meta", "fetch account metadata"),
  ("balance", "fetch account balance"),
  ("overdraft", "get absolute amount of the overdraft of an account. Returns zero if balance is not negative")
]

def builtinDocs (name : String) : String :=
  match builtinDocsTable.find? (fun p => p.1 == name) with
  | some p => p.2
  | none => ""

def builtinEntry (name : String) : Option (String × String × List String × String) :=
  builtinsTable.find? (fun p => p.1 == name)

def isStatementBuiltin (name : String) : Bool :=
  match builtinEntry name with
  | some (_, ctx, _, _) => ctx == "statement"
  | none => false

def isOriginBuiltin (name : String) : Bool :=
  match builtinEntry name with
  | some (_, ctx, _, _) => ctx == "origin"
  | none => false

def builtinParams (name : String) : List String :=
  match builtinEntry name with
  | some (_, _, ps, _) => ps
  | none => []

def builtinReturn (name : String) : String :=
  match builtinEntry name with
  | some (_, _, _, r) => r
  | none => ""

end NS
