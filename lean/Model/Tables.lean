/-
  Model/Tables.lean — REGENERATED from the tree under check on every run of bin/check (do not edit): builtin
  signatures, allowed types and diagnostic severities as the program holds them at run time (/verif/extract/rt),
  CLI exit sites from the source of internal/cmd (/verif/extract --exits).
-/
namespace NS

def allowedTypes : List String := ["monetary", "account", "portion", "asset", "number", "string"]

/-- (name, context, parameter types, return type) ; context: "statement" | "origin" -/
def builtinsTable : List (String × String × List String × String) := [
  ("balance", "origin", ["account", "asset"], "monetary"),
  ("meta", "origin", ["account", "string"], "any"),
  ("overdraft", "origin", ["account", "asset"], "monetary"),
  ("set_account_meta", "statement", ["account", "string", "any"], ""),
  ("set_tx_meta", "statement", ["string", "any"], "")
]

def builtinDocsTable : List (String × String) := [
  ("balance", "fetch account balance"),
  ("meta", "fetch account metadata"),
  ("overdraft", "get absolute amount of the overdraft of an account. Returns zero if balance is not negative"),
  ("set_account_meta", "set account metadata"),
  ("set_tx_meta", "set transaction metadata")
]

/-- (diagnostic kind, severity) ; 1 = error, 2 = warning -/
def severityTable : List (String × Nat) := [
  ("BadAllotmentSum", 1),
  ("BadArity", 1),
  ("DivByZero", 1),
  ("DuplicateVariable", 1),
  ("EmptiedAccount", 2),
  ("FixedPortionVariable", 2),
  ("InvalidType", 1),
  ("InvalidUnboundedAccount", 1),
  ("InvalidWorldOverdraft", 2),
  ("NoAllotmentInSendAll", 2),
  ("Parsing", 1),
  ("RedundantRemaining", 2),
  ("RemainingIsNotLast", 1),
  ("TypeMismatch", 1),
  ("UnboundVariable", 1),
  ("UnboundedAccountIsNotLast", 2),
  ("UnknownFunction", 1),
  ("UnusedVar", 2)
]

/-- os.Exit sites of internal/cmd: (function, nearest enclosing if-condition, argument), as source text -/
def cliExitTable : List (String × String × String) := [
  ("check", "GetErrorsCount() != 0", "1"),
  ("run", "len(parseResult.Errors) != 0", "1"),
  ("run", "err != nil", "1"),
  ("Execute", "Execute() != nil", "1")
]

/-- package-level variables of the hand-written packages: (package, name, kind) -/
def packageStateTable : List (String × String × String) := [
  (".", "ParseErrorsToString", "alias"),
  ("internal/analysis", "AllowedTypes", "table"),
  ("internal/analysis", "Builtins", "table"),
  ("internal/cmd", "checkCmd", "cobra"),
  ("internal/cmd", "lspCmd", "cobra"),
  ("internal/cmd", "overdraftFeatureFlag", "scalar"),
  ("internal/cmd", "rootCmd", "cobra"),
  ("internal/cmd", "runBalancesOpt", "scalar"),
  ("internal/cmd", "runMetaOpt", "scalar"),
  ("internal/cmd", "runOutFormatOpt", "scalar"),
  ("internal/cmd", "runRawOpt", "scalar"),
  ("internal/cmd", "runStdinFlag", "scalar"),
  ("internal/cmd", "runVariablesOpt", "scalar"),
  ("internal/interpreter", "accountNameRegex", "regexp"),
  ("internal/interpreter", "fractionRegex", "regexp"),
  ("internal/interpreter", "percentRegex", "regexp"),
  ("internal/numscript", "Version", "scalar")
]

def builtinDocs (name : String) : String :=
  match builtinDocsTable.find? (fun p => p.1 == name) with
  | some p => p.2
  | none => ""

def builtinEntry (name : String) : Option (String × String × List String × String) :=
  builtinsTable.find? (fun p => p.1 == name)

def isStatementBuiltin (name : String) : Bool :=
  match builtinEntry name with
  | some (_, ctx, _, _) => ctx == "statement"
  | none => false

def isOriginBuiltin (name : String) : Bool :=
  match builtinEntry name with
  | some (_, ctx, _, _) => ctx == "origin"
  | none => false

def builtinParams (name : String) : List String :=
  match builtinEntry name with
  | some (_, _, ps, _) => ps
  | none => []

def builtinReturn (name : String) : String :=
  match builtinEntry name with
  | some (_, _, _, r) => r
  | none => ""

end NS
