/-
  Model/Check.lean — transliteration of internal/analysis/check.go (static
  checker) over the nil-tolerant AST.  Every point where the Go code would
  dereference a nil child or call a method on a nil interface is an explicit
  `.panic`.  Builtin signatures, allowed types and severities come from
  Model/Tables.lean (regenerated from the Go sources on every run).
-/
import Model.Basic
import Model.Tables

namespace NS

inductive DiagKind where
  | parsing (msg : String)
  | invalidType (name : String)
  | duplicateVariable (name : String)
  | unboundVariable (name : String)
  | unusedVar (name : String)
  | typeMismatch (expected got : String)
  | remainingIsNotLast
  | badAllotmentSum (sum : Rat)
  | fixedPortionVariable (value : Rat)
  | redundantRemaining
  | unknownFunction (name : String)
  | badArity (expected actual : Nat)
  | invalidWorldOverdraft
  | noAllotmentInSendAll
  | invalidUnboundedAccount
  | emptiedAccount (name : String)
  | unboundedAccountIsNotLast
  | divByZero
  deriving Repr, DecidableEq, Inhabited

def DiagKind.name : DiagKind → String
  | .parsing _ => "Parsing"
  | .invalidType _ => "InvalidType"
  | .duplicateVariable _ => "DuplicateVariable"
  | .unboundVariable _ => "UnboundVariable"
  | .unusedVar _ => "UnusedVar"
  | .typeMismatch _ _ => "TypeMismatch"
  | .remainingIsNotLast => "RemainingIsNotLast"
  | .badAllotmentSum _ => "BadAllotmentSum"
  | .fixedPortionVariable _ => "FixedPortionVariable"
  | .redundantRemaining => "RedundantRemaining"
  | .unknownFunction _ => "UnknownFunction"
  | .badArity _ _ => "BadArity"
  | .invalidWorldOverdraft => "InvalidWorldOverdraft"
  | .noAllotmentInSendAll => "NoAllotmentInSendAll"
  | .invalidUnboundedAccount => "InvalidUnboundedAccount"
  | .emptiedAccount _ => "EmptiedAccount"
  | .unboundedAccountIsNotLast => "UnboundedAccountIsNotLast"
  | .divByZero => "DivByZero"

/-- 1 = error, 2 = warning (table regenerated from diagnostic_kind.go) -/
def DiagKind.severity (k : DiagKind) : Nat :=
  match severityTable.find? (fun p => p.1 == k.name) with
  | some p => p.2
  | none => 0

structure Diag where
  range : Range
  kind : DiagKind
  deriving Repr, DecidableEq, Inhabited

def isTypeAllowed (t : String) : Bool := allowedTypes.contains t

structure CState where
  diags : List Diag := []
  declared : List (String × VarDecl) := []          -- declaredVars
  unused : List (String × Range) := []              -- unusedVars
  varRes : List ((Range × String) × VarDecl) := []  -- varResolution, keyed by the occurrence
  fnRes : List (Range × String) := []               -- fnCallResolution: caller range ↦ builtin name
  emptied : List String := []                       -- emptiedAccount
  unboundedAccountInSend : Bool := false
  unboundedSend : Bool := false

def CState.push (st : CState) (r : Range) (k : DiagKind) : CState :=
  { st with diags := st.diags ++ [⟨r, k⟩] }

def lookupDecl (st : CState) (name : String) : Option VarDecl :=
  (st.declared.find? (fun p => p.1 == name)).map (·.2)

/-- `assertHasType`; `lit` may be a nil pointer boxed in an interface -/
def assertHasType (st : CState) (litRange : Option Range) (required actual : String) : Outcome CState :=
  if required = "any" ∨ required = actual then .ok st
  else match litRange with
    | none => .panic "assertHasType:nil literal"
    | some r => .ok (st.push r (.typeMismatch required actual))

def Expr.rangeOpt : Expr → Option Range
  | .nil => none
  | .monetaryNil => none
  | e => some e.range

/-- `inferType` -/
def inferType (st : CState) : Expr → String
  | .var _ name =>
      match lookupDecl st name with
      | some d =>
          match d.type with
          | some (_, t) => if isTypeAllowed t then t else ""
          | none => ""
      | none => ""
  | .monetary _ _ _ => "monetary"
  | .monetaryNil => "monetary"
  | .account _ _ => "account"
  | .ratio _ _ _ => "portion"
  | .asset _ _ => "asset"
  | .number _ _ => "number"
  | .str _ _ => "string"
  | .infix _ _ l _ => inferType st l
  | .nil => ""

/-- `checkRatioLiteral` -/
def checkRatioLiteral (st : CState) (r : Range) (den : Nat) : CState × Bool :=
  if den = 0 then (st.push r .divByZero, false) else (st, true)

/-- `checkExpression` -/
def checkExpression (st : CState) : Expr → String → Outcome CState
  | .nil, _ => .ok st
  | .monetaryNil, required =>
      -- assertHasType(lit, required, monetary) then lit.Asset: nil dereference
      match assertHasType st none required "monetary" with
      | .ok _ => .panic "checkExpression:nil *MonetaryLiteral"
      | .err e => .err e
      | .panic s => .panic s
  | .var r name, required =>
      let (st1, resolved) : CState × Option VarDecl :=
        match lookupDecl st name with
        | some d => ({ st with varRes := ((r, name), d) :: st.varRes }, some d)
        | none => (st.push r (.unboundVariable name), none)
      let st2 := { st1 with unused := st1.unused.filter (fun p => p.1 != name) }
      match resolved with
      | none => .ok st2
      | some d =>
          match d.type with
          | none => .ok st2
          | some (_, t) =>
              if isTypeAllowed t then assertHasType st2 (some r) required t else .ok st2
  | .monetary r a n, required =>
      match assertHasType st (some r) required "monetary" with
      | .panic s => .panic s
      | .err e => .err e
      | .ok st1 =>
        match checkExpression st1 a "asset" with
        | .panic s => .panic s
        | .err e => .err e
        | .ok st2 => checkExpression st2 n "number"
  | .account r _, required => assertHasType st (some r) required "account"
  | .ratio r _ den, required =>
      assertHasType (checkRatioLiteral st r den).1 (some r) required "portion"
  | .asset r _, required => assertHasType st (some r) required "asset"
  | .number r _, required => assertHasType st (some r) required "number"
  | .str r _, required => assertHasType st (some r) required "string"
  | .infix r _ l rgt, required =>
      if required = "number" ∨ required = "monetary" then
        match checkExpression st l required with
        | .panic s => .panic s
        | .err e => .err e
        | .ok st1 => checkExpression st1 rgt required
      else
        let leftType := inferType st l
        if leftType = "number" ∨ leftType = "monetary" then
          match checkExpression st l leftType with
          | .panic s => .panic s
          | .err e => .err e
          | .ok st1 =>
            match checkExpression st1 rgt leftType with
            | .panic s => .panic s
            | .err e => .err e
            | .ok st2 => assertHasType st2 (some r) required leftType
        else
          match checkExpression st l "any" with
          | .panic s => .panic s
          | .err e => .err e
          | .ok st1 =>
            match checkExpression st1 rgt "any" with
            | .panic s => .panic s
            | .err e => .err e
            | .ok st2 =>
              if leftType = "" then .ok st2
              else assertHasType st2 l.rangeOpt "monetary|number" leftType

def checkExpressions (st : CState) : List (Expr × String) → Outcome CState
  | [] => .ok st
  | (e, t) :: rest =>
      match checkExpression st e t with
      | .panic s => .panic s
      | .err e => .err e
      | .ok st1 => checkExpressions st1 rest

/-- `checkFnCallArity` -/
def checkFnCallArity (st : CState) (fn : FnCall) : Outcome CState :=
  let validArgs := fn.args.filter (fun a => match a with | .nil => false | _ => true)
  match st.fnRes.find? (fun p => p.1 == fn.callerRange) with
  | some (_, bname) =>
      let sig := builtinParams bname
      let actual := validArgs.length
      let expected := sig.length
      let st1 : Outcome CState :=
        if actual < expected then .ok (st.push fn.r (.badArity expected actual))
        else if actual > expected then
          match validArgs[expected]?, validArgs.getLast? with
          | some first, some last =>
              match first.rangeOpt, last.rangeOpt with
              | some fr, some lr => .ok (st.push ⟨fr.s, lr.e⟩ (.badArity expected actual))
              | _, _ => .panic "checkFnCallArity:GetRange on nil *MonetaryLiteral"
          | _, _ => .ok st
        else .ok st
      match st1 with
      | .panic s => .panic s
      | .err e => .err e
      | .ok st2 => checkExpressions st2 ((validArgs.take expected).zip sig)
  | none =>
      match checkExpressions st (validArgs.map (fun a => (a, "any"))) with
      | .panic s => .panic s
      | .err e => .err e
      | .ok st1 => .ok (st1.push fn.callerRange (.unknownFunction fn.name))

/-- `checkSentValue` -/
def checkSentValue (st : CState) : SentValue → Outcome CState
  | .nil => .ok st
  | .all _ a => checkExpression st a "asset"
  | .lit _ m => checkExpression st m "monetary"

/-- `checkHasBadAllotmentSum` -/
def checkHasBadAllotmentSum (st : CState) (sum : Rat) (rng : Range) (remaining : Option Range)
    (variableLiterals : List Range) : CState :=
  if sum = 1 then
    let st1 := variableLiterals.foldl (fun s r => s.push r (.fixedPortionVariable 0)) st
    match remaining with
    | some rr => st1.push rr .redundantRemaining
    | none => st1
  else
    let less := sum < 1
    if (less ∧ remaining.isSome) ∨ (less ∧ variableLiterals.length > 1) then st
    else if less ∧ variableLiterals.length = 1 then
      match variableLiterals with
      | [r] => st.push r (.fixedPortionVariable (1 - sum))
      | _ => st
    else st.push rng (.badAllotmentSum sum)

/-- range of a source as `source.GetRange()` computes it (nil interface inside a `SourceAccount` panics) -/
def Source.rangeOpt : Source → Option Range
  | .nil => none
  | .account e => e.rangeOpt
  | .overdraft r _ _ => some r
  | .inorder r _ => some r
  | .capped r _ _ => some r
  | .allotment r _ => some r

structure AllotAcc where
  sum : Rat := 0
  remaining : Option Range := none
  vars : List Range := []

/-- the per-item part of the allotment loops that looks at the allotment value -/
def checkAllotValue (st : CState) (acc : AllotAcc) (a : AllotVal) (isLast : Bool) (whole : Range) :
    Outcome (CState × AllotAcc) :=
  match a with
  | .nil => .ok (st, acc)
  | .remaining r =>
      if isLast then .ok (st, { acc with remaining := some r })
      else .ok (st.push whole .remainingIsNotLast, acc)
  | .portion (.var r name) =>
      match checkExpression st (.var r name) "portion" with
      | .panic s => .panic s
      | .err e => .err e
      | .ok st1 => .ok (st1, { acc with vars := acc.vars ++ [r] })
  | .portion (.ratio r num den) =>
      let (st1, valid) := checkRatioLiteral st r den
      .ok (st1, if valid then { acc with sum := acc.sum + mkRat num den } else acc)
  | .portion _ => .ok (st, acc)

/-- the prologue common to all cases of `checkSource`:
    "Inorder sources after an unbounded overdraft are never reached" -/
def sourceHead (st : CState) (src : Source) : Outcome CState :=
  if st.unboundedAccountInSend then
    match src.rangeOpt with
    | some r => .ok (st.push r .unboundedAccountIsNotLast)
    | none => .panic "checkSource:GetRange on a SourceAccount holding a nil expression"
  else .ok st

/-- `enterCappedSource`: the emptied-account set is cloned, the two send-all flags are reset -/
def enterCapped (st : CState) : CState :=
  { st with unboundedAccountInSend := false, unboundedSend := false }

/-- the `onExit` of `enterCappedSource`: restore the three saved fields -/
def exitCapped (inner outer : CState) : CState :=
  { inner with emptied := outer.emptied, unboundedAccountInSend := outer.unboundedAccountInSend, unboundedSend := outer.unboundedSend }

/-- the `SourceAccount` case after the expression itself was checked -/
def checkSourceAccountLit (st1 : CState) (e : Expr) : CState :=
  match e with
  | .account r name =>
      let isWorld := name = WORLD
      let st3 : CState :=
        if isWorld ∧ st1.unboundedSend then st1.push r .invalidUnboundedAccount
        else if isWorld then { st1 with unboundedAccountInSend := true }
        else st1
      let st4 := if st3.emptied.contains name ∧ ¬ isWorld then st3.push r (.emptiedAccount name) else st3
      { st4 with emptied := if st4.emptied.contains name then st4.emptied else name :: st4.emptied }
  | _ => st1

/-- the `SourceOverdraft` case before its expressions are checked -/
def checkOverdraftHead (st : CState) (addr : Expr) (bounded : Option Expr) : Outcome CState :=
  let isWorld : Bool := match addr with | .account _ n => n == WORLD | _ => false
  let st1 := match addr with
    | .account ar n => if n = WORLD then st.push ar .invalidWorldOverdraft else st
    | _ => st
  let st2 := if bounded.isNone ∧ addr ≠ .nil then { st1 with unboundedAccountInSend := true } else st1
  if st2.unboundedSend ∧ (bounded.isNone ∨ isWorld) then
    match addr.rangeOpt with
    | some ar => .ok (st2.push ar .invalidUnboundedAccount)
    | none => .panic "checkSource:Address.GetRange on nil"
  else .ok st2

mutual
  /-- `checkSource` -/
  def checkSource (st0 : CState) : Source → Outcome CState
    | .nil => .ok st0
    | .account e =>
        match sourceHead st0 (.account e) with
        | .panic s => .panic s
        | .err e => .err e
        | .ok st =>
          match checkExpression st e "account" with
          | .panic s => .panic s
          | .err e => .err e
          | .ok st1 => .ok (checkSourceAccountLit st1 e)
    | .overdraft r addr bounded =>
        match sourceHead st0 (.overdraft r addr bounded) with
        | .panic s => .panic s
        | .err e => .err e
        | .ok st =>
          match checkOverdraftHead st addr bounded with
          | .panic s => .panic s
          | .err e => .err e
          | .ok st4 =>
            match checkExpression st4 addr "account" with
            | .panic s => .panic s
            | .err e => .err e
            | .ok st5 =>
              match bounded with
              | none => .ok st5
              | some b => checkExpression st5 b "monetary"
    | .inorder r srcs =>
        match sourceHead st0 (.inorder r srcs) with
        | .panic s => .panic s
        | .err e => .err e
        | .ok st => checkSourceList st srcs
    | .capped r cap src =>
        match sourceHead st0 (.capped r cap src) with
        | .panic s => .panic s
        | .err e => .err e
        | .ok st =>
          match checkExpression (enterCapped st) cap "monetary" with
          | .panic s => .panic s
          | .err e => .err e
          | .ok st1 =>
            match checkSource st1 src with
            | .panic s => .panic s
            | .err e => .err e
            | .ok st2 => .ok (exitCapped st2 st)
    | .allotment r items =>
        match sourceHead st0 (.allotment r items) with
        | .panic s => .panic s
        | .err e => .err e
        | .ok st =>
          let st1 := if st.unboundedSend then st.push r .noAllotmentInSendAll else st
          match checkSrcItems st1 items {} r with
          | .panic s => .panic s
          | .err e => .err e
          | .ok (st2, acc) => .ok (checkHasBadAllotmentSum st2 acc.sum r acc.remaining acc.vars)

  def checkSourceList (st : CState) : List Source → Outcome CState
    | [] => .ok st
    | s :: ss =>
        match checkSource st s with
        | .panic x => .panic x
        | .err e => .err e
        | .ok st1 => checkSourceList st1 ss

  def checkSrcItems (st : CState) : List SrcItem → AllotAcc → Range → Outcome (CState × AllotAcc)
    | [], acc, _ => .ok (st, acc)
    | (.mk _ a src) :: rest, acc, whole =>
        match checkAllotValue st acc a rest.isEmpty whole with
        | .panic s => .panic s
        | .err e => .err e
        | .ok (st1, acc1) =>
          match checkSource (enterCapped st1) src with
          | .panic s => .panic s
          | .err e => .err e
          | .ok st2 => checkSrcItems (exitCapped st2 st1) rest acc1 whole
end

mutual
  /-- `checkDestination` -/
  def checkDestination (st : CState) : Dest → Outcome CState
    | .nil => .ok st
    | .account e => checkExpression st e "account"
    | .inorder _ clauses remaining =>
        match checkClauses st clauses with
        | .panic s => .panic s
        | .err e => .err e
        | .ok st1 => checkKoD st1 remaining
    | .allotment r items =>
        match checkDstItems st items {} r with
        | .panic s => .panic s
        | .err e => .err e
        | .ok (st1, acc) => .ok (checkHasBadAllotmentSum st1 acc.sum r acc.remaining acc.vars)

  /-- `checkKeptOrDestination` -/
  def checkKoD (st : CState) : KoD → Outcome CState
    | .nil => .ok st
    | .kept _ => .ok st
    | .to d => checkDestination st d

  def checkClauses (st : CState) : List DestClause → Outcome CState
    | [] => .ok st
    | (.mk _ cap to) :: rest =>
        match checkExpression st cap "monetary" with
        | .panic s => .panic s
        | .err e => .err e
        | .ok st1 =>
          match checkKoD st1 to with
          | .panic s => .panic s
          | .err e => .err e
          | .ok st2 => checkClauses st2 rest

  def checkDstItems (st : CState) : List DestItem → AllotAcc → Range → Outcome (CState × AllotAcc)
    | [], acc, _ => .ok (st, acc)
    | (.mk _ a to) :: rest, acc, whole =>
        match checkAllotValue st acc a rest.isEmpty whole with
        | .panic s => .panic s
        | .err e => .err e
        | .ok (st1, acc1) =>
          match checkKoD st1 to with
          | .panic s => .panic s
          | .err e => .err e
          | .ok st2 => checkDstItems st2 rest acc1 whole
end

/-- `checkStatement` -/
def checkStatement (st : CState) (s : Statement) : Outcome CState :=
  let st := { st with emptied := [] }
  match s with
  | .nil => .ok st
  | .fnCallNil => .panic "checkStatement:nil *FnCall"
  | .save _ sv amount =>
      match checkSentValue st sv with
      | .panic x => .panic x
      | .err e => .err e
      | .ok st1 => checkExpression st1 amount "account"
  | .send _ sv src dst =>
      let isAll := match sv with | .all _ _ => true | _ => false
      let st0 := { st with unboundedSend := isAll }
      match checkSentValue st0 sv with
      | .panic x => .panic x
      | .err e => .err e
      | .ok st1 =>
        match checkSource st1 src with
        | .panic x => .panic x
        | .err e => .err e
        | .ok st2 => checkDestination st2 dst
  | .fnCall fn =>
      let st1 := if isStatementBuiltin fn.name then { st with fnRes := (fn.callerRange, fn.name) :: st.fnRes } else st
      checkFnCallArity st1 fn

/-- `checkVarOrigin` -/
def checkVarOrigin (st : CState) (fn : FnCall) (d : VarDecl) : Outcome CState :=
  let st1 : Outcome CState :=
    if isOriginBuiltin fn.name then
      let st' := { st with fnRes := (fn.callerRange, fn.name) :: st.fnRes }
      match d.type, d.name with
      | some (_, t), some (nr, _) => assertHasType st' (some nr) (builtinReturn fn.name) t
      | _, _ => .ok st'
    else .ok st
  match st1 with
  | .panic s => .panic s
  | .err e => .err e
  | .ok st2 => checkFnCallArity st2 fn

def checkVarDecl (st : CState) (d : VarDecl) : Outcome CState :=
  let st1 := match d.type with
    | some (r, t) => if isTypeAllowed t then st else st.push r (.invalidType t)
    | none => st
  -- the origin is checked before the variable is declared (it is not visible in its own origin)
  let st2 : Outcome CState := match d.origin with
    | some fn => checkVarOrigin st1 fn d
    | none => .ok st1
  match st2 with
  | .panic s => .panic s
  | .err e => .err e
  | .ok st3 =>
    match d.name with
    | some (r, name) =>
        if st3.declared.any (fun p => p.1 == name) then .ok (st3.push r (.duplicateVariable name))
        else .ok { st3 with declared := st3.declared ++ [(name, d)], unused := st3.unused ++ [(name, r)] }
    | none => .ok st3

def checkVarDecls (st : CState) : List VarDecl → Outcome CState
  | [] => .ok st
  | d :: ds =>
      match checkVarDecl st d with
      | .panic s => .panic s
      | .err e => .err e
      | .ok st1 => checkVarDecls st1 ds

def checkStatements (st : CState) : List Statement → Outcome CState
  | [] => .ok st
  | s :: ss =>
      match checkStatement { st with unboundedAccountInSend := false } s with
      | .panic x => .panic x
      | .err e => .err e
      | .ok st1 => checkStatements st1 ss

/-- `check`: parse errors first (as `CheckSource` does), then declarations, statements,
    and the unused-variable warnings (Go iterates a map here: the order of these last
    diagnostics is unspecified; the model lists them in declaration order). -/
def checkProgram (parseDiags : List Diag) (prog : Program) : Outcome CState :=
  match checkVarDecls { diags := parseDiags } prog.vars with
  | .panic s => .panic s
  | .err e => .err e
  | .ok st1 =>
    match checkStatements st1 prog.stmts with
    | .panic s => .panic s
    | .err e => .err e
    | .ok st2 => .ok (st2.unused.foldl (fun s p => s.push p.2 (.unusedVar p.1)) st2)

def errorCount (ds : List Diag) : Nat := (ds.filter (fun d => d.kind.severity = 1)).length

/-- `GetSymbols` (unordered in Go): name, declared type, range of the name -/
def getSymbols (st : CState) : Outcome (List (String × String × Range)) :=
  st.declared.foldl (fun acc p =>
    match acc with
    | .ok l =>
        match p.2.type, p.2.name with
        | some (_, t), some (r, _) => .ok (l ++ [(p.1, t, r)])
        | none, _ => .panic "GetSymbols:nil Type"
        | _, none => .panic "GetSymbols:nil Name"
    | other => other) (.ok [])

end NS
