/-
  Model/Parse.lean — the parser of Numscript.g4 on a token stream, together with the
  conversion of internal/parser/parser.go (tree → AST with ranges), for texts WITHOUT
  syntax errors: `parseProgram` answers `none` exactly where the real parser reports at
  least one error (ANTLR's recovery and the partial trees it builds are not modelled —
  those trees are the `Benign` class of C18).

  Decisions ANTLR takes by adaptive prediction are written out:
   * `[ e * ]` (send-all) vs a value expression starting with a monetary literal: the `*`;
   * source `{ … }`: an allotment when the second token is an allotment head followed by
     `from`, otherwise an ordered list;
   * destination `{ … }`: an ordered list when it starts with `max`, otherwise an allotment
     (`{ remaining to X }` matches both alternatives; ANTLR takes the first, the allotment);
   * `+`/`-` associate to the left (ANTLR's rewriting of the left-recursive rule).

  Every function returns the node, the last token it consumed (`ctx.GetStop()`) and the
  remaining tokens.  Fuel bounds the nesting; `parseProgram` supplies enough.
-/
import Model.Lex

namespace NS

/-- `ctxToRange`: first character of the first token to just past the last token -/
def rangeOf (first stop : Tok) : Range := ⟨first.startPos, stop.endPos⟩

def tokString (cs : List Char) : String := String.ofList cs

abbrev PR (α : Type) := Option (α × Tok × List Tok)

/-- the next token has this kind: consume it -/
def expect (k : TK) : List Tok → Option (Tok × List Tok)
  | t :: rest => if t.kind = k then some (t, rest) else none
  | [] => none

def isPrimaryStart (k : TK) : Bool :=
  k = .varName || k = .asset || k = .string || k = .account || k = .number || k = .lbracket ||
  k = .ratio || k = .percent

/-- `parsePortionSource` on a portion token -/
def portionExpr (t : Tok) : Option Expr :=
  if t.kind = .ratio then
    match ratioLiteral t.text with
    | some (n, d) => some (.ratio (rangeOf t t) n d)
    | none => none
  else if t.kind = .percent then
    match percentLiteral t.text with
    | some (n, d) => some (.ratio (rangeOf t t) n d)
    | none => none
  else none

mutual
  /-- valueExpr: a primary followed by `(('+'|'-') primary)*`, left-associative -/
  def pExpr : Nat → List Tok → PR Expr
    | 0, _ => none
    | _, [] => none
    | f + 1, first :: rest =>
        match pPrimary f (first :: rest) with
        | some (e, stop, rest') => pInfixTail f first e stop rest'
        | none => none

  def pPrimary : Nat → List Tok → PR Expr
    | 0, _ => none
    | _, [] => none
    | f + 1, t :: rest =>
        match t.kind with
        | .varName => some (.var (rangeOf t t) (tokString t.text.tail), t, rest)
        | .asset => some (.asset (rangeOf t t) (tokString t.text), t, rest)
        | .string => some (.str (rangeOf t t) (tokString t.text.tail.dropLast), t, rest)
        | .account => some (.account (rangeOf t t) (tokString t.text.tail), t, rest)
        | .number =>
            match numberTokenValue t.text with
            | some v => some (.number (rangeOf t t) v, t, rest)
            | none => none
        | .ratio | .percent =>
            match portionExpr t with
            | some e => some (e, t, rest)
            | none => none
        | .lbracket =>
            match pExpr f rest with
            | some (a, _, r1) =>
                match pExpr f r1 with
                | some (b, _, r2) =>
                    match expect .rbracket r2 with
                    | some (rb, r3) => some (.monetary (rangeOf t rb) a b, rb, r3)
                    | none => none
                | none => none
            | none => none
        | _ => none

  def pInfixTail : Nat → Tok → Expr → Tok → List Tok → PR Expr
    | 0, _, _, _, _ => none
    | _ + 1, _, l, stop, [] => some (l, stop, [])
    | f + 1, first, l, stop, op :: rest =>
        if op.kind = .plus ∨ op.kind = .minus then
          match pPrimary f rest with
          | some (r, stop', rest') =>
              pInfixTail f first (.infix (rangeOf first stop') (if op.kind = .plus then .plus else .minus) l r) stop' rest'
          | none => none
        else some (l, stop, op :: rest)
end

/-- `functionCallArgs: valueExpr (COMMA valueExpr)*` (after the first expression) -/
def pArgsTail : Nat → List Tok → Option (List Expr × List Tok)
  | 0, _ => none
  | f + 1, ts =>
      match expect .comma ts with
      | some (_, rest) =>
          match pExpr f rest with
          | some (e, _, rest') =>
              match pArgsTail f rest' with
              | some (es, rest'') => some (e :: es, rest'')
              | none => none
          | none => none
      | none => some ([], ts)

/-- `functionCall: fnName=(OVERDRAFT | IDENTIFIER) LPARENS functionCallArgs? RPARENS` -/
def pFnCall (f : Nat) : List Tok → PR FnCall
  | name :: lp :: rest =>
      if (name.kind = .ident ∨ name.kind = .kwOverdraft) ∧ lp.kind = .lparen then
        match expect .rparen rest with
        | some (rp, rest') => some (⟨rangeOf name rp, rangeOf name name, tokString name.text, []⟩, rp, rest')
        | none =>
            match pExpr f rest with
            | some (e, _, r1) =>
                match pArgsTail f r1 with
                | some (es, r2) =>
                    match expect .rparen r2 with
                    | some (rp, r3) => some (⟨rangeOf name rp, rangeOf name name, tokString name.text, e :: es⟩, rp, r3)
                    | none => none
                | none => none
            | none => none
      else none
  | _ => none

/-- `allotment: portion | VARIABLE_NAME | REMAINING` -/
def isAllotHead (k : TK) : Bool := k = .ratio || k = .percent || k = .varName || k = .kwRemaining

def allotOfTok (t : Tok) : Option AllotVal :=
  if t.kind = .kwRemaining then some (.remaining (rangeOf t t))
  else if t.kind = .varName then some (.portion (.var (rangeOf t t) (tokString t.text.tail)))
  else (portionExpr t).map .portion

def isSourceStart (k : TK) : Bool := isPrimaryStart k || k = .lbrace || k = .kwMax

mutual
  def pSource : Nat → List Tok → PR Source
    | 0, _ => none
    | _, [] => none
    | f + 1, t :: rest =>
        if t.kind = .lbrace then
          match rest with
          | a :: fr :: _ =>
              if isAllotHead a.kind ∧ fr.kind = .kwFrom then
                match pSrcItems f rest with
                | some (items, r1) =>
                    match expect .rbrace r1 with
                    | some (rb, r2) => some (.allotment (rangeOf t rb) items, rb, r2)
                    | none => none
                | none => none
              else pSrcInorder f t rest
          | _ => pSrcInorder f t rest
        else if t.kind = .kwMax then
          match pExpr f rest with
          | some (cap, _, r1) =>
              match expect .kwFrom r1 with
              | some (_, r2) =>
                  match pSource f r2 with
                  | some (src, stop, r3) => some (.capped (rangeOf t stop) cap src, stop, r3)
                  | none => none
              | none => none
          | none => none
        else
          match pExpr f (t :: rest) with
          | some (addr, stop, r1) =>
              match expect .kwAllowing r1 with
              | some (_, r2) =>
                  match r2 with
                  | u :: o :: r3 =>
                      if u.kind = .kwUnbounded ∧ o.kind = .kwOverdraft then
                        some (.overdraft (rangeOf t o) addr none, o, r3)
                      else if u.kind = .kwOverdraft then
                        match expect .kwUp (o :: r3) with
                        | some (_, r4) =>
                            match expect .kwTo r4 with
                            | some (_, r5) =>
                                match pExpr f r5 with
                                | some (b, stop', r6) => some (.overdraft (rangeOf t stop') addr (some b), stop', r6)
                                | none => none
                            | none => none
                        | none => none
                      else none
                  | _ => none
              | none => some (.account addr, stop, r1)
          | none => none

  /-- `LBRACE source* RBRACE` after the brace -/
  def pSrcInorder : Nat → Tok → List Tok → PR Source
    | 0, _, _ => none
    | f + 1, lb, rest =>
        match pSources f rest with
        | some (srcs, r1) =>
            match expect .rbrace r1 with
            | some (rb, r2) => some (.inorder (rangeOf lb rb) srcs, rb, r2)
            | none => none
        | none => none

  /-- `source*` -/
  def pSources : Nat → List Tok → Option (List Source × List Tok)
    | 0, _ => none
    | _ + 1, [] => some ([], [])
    | f + 1, t :: rest =>
        if isSourceStart t.kind then
          match pSource f (t :: rest) with
          | some (s, _, r1) =>
              match pSources f r1 with
              | some (ss, r2) => some (s :: ss, r2)
              | none => none
          | none => none
        else some ([], t :: rest)

  /-- `allotmentClauseSrc+` -/
  def pSrcItems : Nat → List Tok → Option (List SrcItem × List Tok)
    | 0, _ => none
    | _ + 1, [] => none
    | f + 1, a :: rest =>
        match allotOfTok a with
        | some av =>
            match expect .kwFrom rest with
            | some (_, r1) =>
                match pSource f r1 with
                | some (src, stop, r2) =>
                    let item := SrcItem.mk (rangeOf a stop) av src
                    match r2 with
                    | nx :: _ =>
                        if isAllotHead nx.kind then
                          match pSrcItems f r2 with
                          | some (items, r3) => some (item :: items, r3)
                          | none => none
                        else some ([item], r2)
                    | [] => some ([item], r2)
                | none => none
            | none => none
        | none => none
end

mutual
  def pDest : Nat → List Tok → PR Dest
    | 0, _ => none
    | _, [] => none
    | f + 1, t :: rest =>
        if t.kind = .lbrace then
          match rest with
          | a :: _ =>
              if a.kind = .kwMax then
                match pClauses f rest with
                | some (clauses, r1) =>
                    match expect .kwRemaining r1 with
                    | some (_, r2) =>
                        match pKoD f r2 with
                        | some (k, _, r3) =>
                            match expect .rbrace r3 with
                            | some (rb, r4) => some (.inorder (rangeOf t rb) clauses k, rb, r4)
                            | none => none
                        | none => none
                    | none => none
                | none => none
              else if isAllotHead a.kind then
                match pDstItems f rest with
                | some (items, r1) =>
                    match expect .rbrace r1 with
                    | some (rb, r2) => some (.allotment (rangeOf t rb) items, rb, r2)
                    | none => none
                | none => none
              else none
          | [] => none
        else
          match pExpr f (t :: rest) with
          | some (e, stop, r1) => some (.account e, stop, r1)
          | none => none

  /-- `keptOrDestination: TO destination | KEPT` -/
  def pKoD : Nat → List Tok → PR KoD
    | 0, _ => none
    | _, [] => none
    | f + 1, t :: rest =>
        if t.kind = .kwKept then some (.kept (rangeOf t t), t, rest)
        else if t.kind = .kwTo then
          match pDest f rest with
          | some (d, stop, r1) => some (.to d, stop, r1)
          | none => none
        else none

  /-- `destinationInOrderClause*` (each starts with MAX) -/
  def pClauses : Nat → List Tok → Option (List DestClause × List Tok)
    | 0, _ => none
    | _ + 1, [] => some ([], [])
    | f + 1, t :: rest =>
        if t.kind = .kwMax then
          match pExpr f rest with
          | some (cap, _, r1) =>
              match pKoD f r1 with
              | some (k, stop, r2) =>
                  match pClauses f r2 with
                  | some (cs, r3) => some (DestClause.mk (rangeOf t stop) cap k :: cs, r3)
                  | none => none
              | none => none
          | none => none
        else some ([], t :: rest)

  /-- `allotmentClauseDest+` -/
  def pDstItems : Nat → List Tok → Option (List DestItem × List Tok)
    | 0, _ => none
    | _ + 1, [] => none
    | f + 1, a :: rest =>
        match allotOfTok a with
        | some av =>
            match pKoD f rest with
            | some (k, stop, r1) =>
                let item := DestItem.mk (rangeOf a stop) av k
                match r1 with
                | nx :: _ =>
                    if isAllotHead nx.kind then
                      match pDstItems f r1 with
                      | some (items, r2) => some (item :: items, r2)
                      | none => none
                    else some ([item], r1)
                | [] => some ([item], r1)
            | none => none
        | none => none
end

/-- `sentValue: valueExpr | LBRACKET valueExpr STAR RBRACKET` -/
def pSentValue (f : Nat) : List Tok → PR SentValue
  | [] => none
  | t :: rest =>
      let lit : PR SentValue :=
        match pExpr f (t :: rest) with
        | some (e, stop, r1) => some (.lit (rangeOf t stop) e, stop, r1)
        | none => none
      if t.kind = .lbracket then
        match pExpr f rest with
        | some (a, _, r1) =>
            match expect .star r1 with
            | some (_, r2) =>
                match expect .rbracket r2 with
                | some (rb, r3) => some (.all (rangeOf t rb) a, rb, r3)
                | none => none
            | none => lit
        | none => none
      else lit

/-- `statement` -/
def pStatement (f : Nat) : List Tok → Option (Statement × Tok × List Tok)
  | [] => none
  | t :: rest =>
      if t.kind = .kwSend then do
        let (sv, _, r1) ← pSentValue f rest
        let (_, r2) ← expect .lparen r1
        let (_, r3) ← expect .kwSource r2
        let (_, r4) ← expect .eq r3
        let (src, _, r5) ← pSource f r4
        let (_, r6) ← expect .kwDestination r5
        let (_, r7) ← expect .eq r6
        let (dst, _, r8) ← pDest f r7
        let (rp, r9) ← expect .rparen r8
        some (.send (rangeOf t rp) sv src dst, rp, r9)
      else if t.kind = .kwSave then
        match pSentValue f rest with
        | some (sv, _, r1) =>
            match expect .kwFrom r1 with
            | some (_, r2) =>
                match pExpr f r2 with
                | some (e, stop, r3) => some (.save (rangeOf t stop) sv e, stop, r3)
                | none => none
            | none => none
        | none => none
      else
        match pFnCall f (t :: rest) with
        | some (c, stop, r1) => some (.fnCall c, stop, r1)
        | none => none

/-- `statement* EOF` -/
def pStatements (f : Nat) : Nat → List Tok → Option (List Statement)
  | 0, _ => none
  | _ + 1, [] => some []
  | n + 1, ts =>
      match pStatement f ts with
      | some (s, _, rest) =>
          match pStatements f n rest with
          | some ss => some (s :: ss)
          | none => none
      | none => none

/-- `varDeclaration: type_=IDENTIFIER name=VARIABLE_NAME varOrigin?` -/
def pVarDecl (f : Nat) : List Tok → PR VarDecl
  | ty :: nm :: rest =>
      if ty.kind = .ident ∧ nm.kind = .varName then
        let tyD := some (rangeOf ty ty, tokString ty.text)
        let nmD := some (rangeOf nm nm, tokString nm.text.tail)
        match expect .eq rest with
        | some (_, r1) =>
            match pFnCall f r1 with
            | some (c, stop, r2) => some (⟨rangeOf ty stop, nmD, tyD, some c⟩, stop, r2)
            | none => none
        | none => some (⟨rangeOf ty nm, nmD, tyD, none⟩, nm, rest)
      else none
  | _ => none

/-- `varDeclaration*` up to the closing brace -/
def pVarDecls (f : Nat) : Nat → List Tok → Option (List VarDecl × List Tok)
  | 0, _ => none
  | _ + 1, [] => none
  | n + 1, t :: rest =>
      if t.kind = .rbrace then some ([], rest)
      else
        match pVarDecl f (t :: rest) with
        | some (d, _, r1) =>
            match pVarDecls f n r1 with
            | some (ds, r2) => some (d :: ds, r2)
            | none => none
        | none => none

/-- `program: varsDeclaration? statement* EOF` -/
def parseTokens (ts : List Tok) : Option Program :=
  let f := 4 * ts.length + 8
  match ts with
  | v :: lb :: rest =>
      if v.kind = .kwVars then
        if lb.kind = .lbrace then
          match pVarDecls f (ts.length + 1) rest with
          | some (ds, r1) =>
              match pStatements f (ts.length + 1) r1 with
              | some ss => some ⟨ds, ss⟩
              | none => none
          | none => none
        else none
      else (pStatements f (ts.length + 1) ts).map (fun ss => ⟨[], ss⟩)
  | _ => (pStatements f (ts.length + 1) ts).map (fun ss => ⟨[], ss⟩)

/-- every NUMBER token fits a machine integer (`Parse` reports the others) -/
def numbersInRange (ts : List Tok) : Bool :=
  ts.all (fun t => t.kind != .number || (numberTokenValue t.text).isSome)

/-- `parser.Parse` for error-free texts: `none` = at least one error is reported -/
def parseProgram (text : List Char) : Option Program :=
  match lex text with
  | some ts => if numbersInRange ts then parseTokens ts else none
  | none => none

end NS
