/-
  Model/Nav.lean — transliteration of internal/analysis/hover.go,
  goto_definition.go, and of the position predicates of internal/parser/range.go.
-/
import Model.Check

namespace NS

/-- `Position.GtEq` -/
def Pos.gtEq (p1 p2 : Pos) : Bool :=
  if p1.line = p2.line then p1.char ≥ p2.char else p1.line > p2.line

/-- `Range.Contains`: both ends inclusive -/
def Range.contains (r : Range) (p : Pos) : Bool := p.gtEq r.s && r.e.gtEq p

inductive Hover where
  | variable (r : Range) (name : String)
  | builtinFn (r : Range) (fn : FnCall)
  deriving Repr, Inhabited

/-- `hoverOnExpression` -/
def hoverOnExpression : Expr → Pos → Outcome (Option Hover)
  | .nil, _ => .ok none
  | .monetaryNil, _ => .panic "hoverOnExpression:GetRange on nil *MonetaryLiteral"
  | .var r name, pos => .ok (if r.contains pos then some (.variable r name) else none)
  | .monetary r a n, pos =>
      if ! r.contains pos then .ok none
      else
        match hoverOnExpression n pos with
        | .panic s => .panic s
        | .err e => .err e
        | .ok (some h) => .ok (some h)
        | .ok none => hoverOnExpression a pos
  | .infix r _ l rgt, pos =>
      if ! r.contains pos then .ok none
      else
        match hoverOnExpression l pos with
        | .panic s => .panic s
        | .err e => .err e
        | .ok (some h) => .ok (some h)
        | .ok none => hoverOnExpression rgt pos
  | .asset _ _, _ => .ok none
  | .account _ _, _ => .ok none
  | .str _ _, _ => .ok none
  | .number _ _, _ => .ok none
  | .ratio _ _ _, _ => .ok none

def hoverOnExprs : List Expr → Pos → Outcome (Option Hover)
  | [], _ => .ok none
  | e :: es, pos =>
      match hoverOnExpression e pos with
      | .panic s => .panic s
      | .err e => .err e
      | .ok (some h) => .ok (some h)
      | .ok none => hoverOnExprs es pos

/-- `hoverOnFnCall` -/
def hoverOnFnCall (fn : FnCall) (pos : Pos) : Outcome (Option Hover) :=
  if ! fn.r.contains pos then .ok none
  else if fn.callerRange.contains pos then .ok (some (.builtinFn fn.callerRange fn))
  else hoverOnExprs fn.args pos

/-- `hoverOnSentValue` -/
def hoverOnSentValue : SentValue → Pos → Outcome (Option Hover)
  | .nil, _ => .ok none
  | .all _ a, pos => hoverOnExpression a pos
  | .lit _ m, pos => hoverOnExpression m pos

/-- the allotment value when it is also a `ValueExpr` (ratio literal or variable) -/
def hoverOnAllot : AllotVal → Pos → Outcome (Option Hover)
  | .portion e, pos => hoverOnExpression e pos
  | _, _ => .ok none

mutual
  /-- `hoverOnSource` -/
  def hoverOnSource : Source → Pos → Outcome (Option Hover)
    | .nil, _ => .ok none
    | .account e, pos =>
        match e.rangeOpt with
        | none => .panic "hoverOnSource:GetRange on a SourceAccount holding a nil expression"
        | some r => if r.contains pos then hoverOnExpression e pos else .ok none
    | .capped r cap src, pos =>
        if ! r.contains pos then .ok none
        else
          match hoverOnExpression cap pos with
          | .panic s => .panic s
          | .err e => .err e
          | .ok (some h) => .ok (some h)
          | .ok none => hoverOnSource src pos
    | .overdraft r addr bounded, pos =>
        if ! r.contains pos then .ok none
        else
          match hoverOnExpression addr pos with
          | .panic s => .panic s
          | .err e => .err e
          | .ok (some h) => .ok (some h)
          | .ok none =>
            match bounded with
            | none => .ok none
            | some b => hoverOnExpression b pos
    | .inorder r srcs, pos => if r.contains pos then hoverOnSourceList srcs pos else .ok none
    | .allotment r items, pos => if r.contains pos then hoverOnSrcItems items pos else .ok none

  def hoverOnSourceList : List Source → Pos → Outcome (Option Hover)
    | [], _ => .ok none
    | s :: ss, pos =>
        -- `if source == nil || !source.GetRange().Contains(position) { continue }` is part of hoverOnSource
        match hoverOnSource s pos with
        | .panic x => .panic x
        | .err e => .err e
        | .ok (some h) => .ok (some h)
        | .ok none => hoverOnSourceList ss pos

  def hoverOnSrcItems : List SrcItem → Pos → Outcome (Option Hover)
    | [], _ => .ok none
    | (.mk r a src) :: rest, pos =>
        if ! r.contains pos then hoverOnSrcItems rest pos
        else
          match hoverOnAllot a pos with
          | .panic x => .panic x
          | .err e => .err e
          | .ok (some h) => .ok (some h)
          | .ok none =>
            match hoverOnSource src pos with
            | .panic x => .panic x
            | .err e => .err e
            | .ok (some h) => .ok (some h)
            | .ok none => hoverOnSrcItems rest pos
end

def Dest.rangeOpt : Dest → Option Range
  | .nil => none
  | .account e => e.rangeOpt
  | .inorder r _ _ => some r
  | .allotment r _ => some r

mutual
  /-- `hoverOnDestination` -/
  def hoverOnDestination : Dest → Pos → Outcome (Option Hover)
    | .nil, _ => .ok none
    | .account e, pos =>
        match e.rangeOpt with
        | none => .panic "hoverOnDestination:GetRange on a DestinationAccount holding a nil expression"
        | some r => if r.contains pos then hoverOnExpression e pos else .ok none
    | .inorder r clauses remaining, pos =>
        if ! r.contains pos then .ok none
        else
          match hoverOnClauses clauses pos with
          | .panic s => .panic s
          | .err e => .err e
          | .ok (some h) => .ok (some h)
          | .ok none => hoverOnKoD remaining pos
    | .allotment r items, pos => if r.contains pos then hoverOnDstItems items pos else .ok none

  /-- `hoverOnKeptOrDestination` -/
  def hoverOnKoD : KoD → Pos → Outcome (Option Hover)
    | .nil, _ => .ok none
    | .kept _, _ => .ok none
    | .to d, pos => hoverOnDestination d pos

  def hoverOnClauses : List DestClause → Pos → Outcome (Option Hover)
    | [], _ => .ok none
    | (.mk r cap to) :: rest, pos =>
        if ! r.contains pos then hoverOnClauses rest pos
        else
          match hoverOnExpression cap pos with
          | .panic x => .panic x
          | .err e => .err e
          | .ok (some h) => .ok (some h)
          | .ok none =>
            match hoverOnKoD to pos with
            | .panic x => .panic x
            | .err e => .err e
            | .ok (some h) => .ok (some h)
            | .ok none => hoverOnClauses rest pos

  def hoverOnDstItems : List DestItem → Pos → Outcome (Option Hover)
    | [], _ => .ok none
    | (.mk r a to) :: rest, pos =>
        if ! r.contains pos then hoverOnDstItems rest pos
        else
          match hoverOnAllot a pos with
          | .panic x => .panic x
          | .err e => .err e
          | .ok (some h) => .ok (some h)
          | .ok none =>
            match hoverOnKoD to pos with
            | .panic x => .panic x
            | .err e => .err e
            | .ok (some h) => .ok (some h)
            | .ok none => hoverOnDstItems rest pos
end

/-- the statement loop of `HoverOn` -/
def hoverOnStatement (s : Statement) (pos : Pos) : Outcome (Option Hover) :=
  match s with
  | .nil => .ok none
  | .fnCallNil => .panic "HoverOn:GetRange on nil *FnCall"
  | .send r sv src dst =>
      if ! r.contains pos then .ok none
      else
        match hoverOnSentValue sv pos with
        | .panic x => .panic x
        | .err e => .err e
        | .ok (some h) => .ok (some h)
        | .ok none =>
          match hoverOnSource src pos with
          | .panic x => .panic x
          | .err e => .err e
          | .ok (some h) => .ok (some h)
          | .ok none => hoverOnDestination dst pos
  | .save r sv amount =>
      if ! r.contains pos then .ok none
      else
        match hoverOnSentValue sv pos with
        | .panic x => .panic x
        | .err e => .err e
        | .ok (some h) => .ok (some h)
        | .ok none => hoverOnExpression amount pos
  | .fnCall fn => hoverOnFnCall fn pos

def hoverOnStatements : List Statement → Pos → Outcome (Option Hover)
  | [], _ => .ok none
  | s :: ss, pos =>
      match hoverOnStatement s pos with
      | .panic x => .panic x
      | .err e => .err e
      | .ok (some h) => .ok (some h)
      | .ok none => hoverOnStatements ss pos

def hoverOnVars : List VarDecl → Pos → Outcome (Option Hover)
  | [], _ => .ok none
  | d :: ds, pos =>
      let here : Outcome (Option Hover) :=
        if ! d.r.contains pos then .ok none
        else match d.origin with
          | some fn => hoverOnFnCall fn pos
          | none => .ok none
      match here with
      | .panic x => .panic x
      | .err e => .err e
      | .ok (some h) => .ok (some h)
      | .ok none => hoverOnVars ds pos

/-- `HoverOn` -/
def hoverOn (prog : Program) (pos : Pos) : Outcome (Option Hover) :=
  match hoverOnVars prog.vars pos with
  | .panic x => .panic x
  | .err e => .err e
  | .ok (some h) => .ok (some h)
  | .ok none => hoverOnStatements prog.stmts pos

/-- `CheckResult.ResolveVar` (keyed by the occurrence) -/
def resolveVar (st : CState) (r : Range) (name : String) : Option VarDecl :=
  (st.varRes.find? (fun p => p.1 == (r, name))).map (·.2)

/-- `GotoDefinition`: the range of the declaration's name -/
def gotoDefinition (prog : Program) (st : CState) (pos : Pos) : Outcome (Option Range) :=
  match hoverOn prog pos with
  | .panic x => .panic x
  | .err e => .err e
  | .ok (some (.variable r name)) =>
      match resolveVar st r name with
      | none => .ok none
      | some d =>
          match d.name with
          | some (nr, _) => .ok (some nr)
          | none => .panic "GotoDefinition:nil Name"
  | .ok _ => .ok none

def joinComma : List String → String
  | [] => ""
  | [x] => x
  | x :: xs => x ++ ", " ++ joinComma xs

/-- the text of `handleHover` (internal/lsp/handlers.go) with its range -/
def lspHover (prog : Program) (st : CState) (pos : Pos) : Outcome (Option (String × Range)) :=
  match hoverOn prog pos with
  | .panic x => .panic x
  | .err e => .err e
  | .ok none => .ok none
  | .ok (some (.variable r name)) =>
      match resolveVar st r name with
      | none => .ok none
      | some d =>
          match d.type with
          | none => .panic "handleHover:nil Type"
          | some (_, t) => .ok (some ("```numscript\n$" ++ name ++ ": " ++ t ++ "\n```", r))
  | .ok (some (.builtinFn r fn)) =>
      match st.fnRes.find? (fun p => p.1 == fn.callerRange) with
      | none => .ok none
      | some (_, bname) =>
          let params := "(" ++ joinComma (builtinParams bname) ++ ")"
          if isStatementBuiltin bname then
            .ok (some ("`" ++ fn.name ++ params ++ "`\n\n" ++ builtinDocs bname, r))
          else
            .ok (some ("`" ++ fn.name ++ params ++ " -> " ++ builtinReturn bname ++ "`\n\n" ++ builtinDocs bname, r))

end NS
