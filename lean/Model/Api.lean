/-
  Model/Api.lean — the public API of the root package (numscript.go): `Parse`, `ParseResult.Run`,
  `ParseResult.RunWithFeatureFlags`.  Go returns a pair (result, error); the model keeps the pair, so that "a result
  together with an error" is a statement one can make (and refute).  `Run` is `RunWithFeatureFlags` with no flag
  (a nil map is replaced by an empty one); the only flag the interpreter reads is the overdraft one.
-/
import Model.Run
import Model.Parse

namespace NS

def overdraftFlagName : String := "experimental-overdraft-function"

def emptyResult : ExecResult := ⟨[], [], [], []⟩

/-- `RunWithFeatureFlags`: `if err != nil { return ExecutionResult{}, err }; return *res, nil` (`none`: a panic) -/
def apiRunWithFeatureFlags (prog : Program) (rawVars : List (String × String)) (store : Store)
    (flags : List String) : Option (ExecResult × Option Err) :=
  match RunProgram prog rawVars store (flags.contains overdraftFlagName) with
  | .ok r => some (r, none)
  | .err e => some (emptyResult, some e)
  | .panic _ => none

/-- `Run` -/
def apiRun (prog : Program) (rawVars : List (String × String)) (store : Store) : Option (ExecResult × Option Err) :=
  apiRunWithFeatureFlags prog rawVars store []

end NS
