/-
  Model/Run.lean — the store interface, the balance cache and its queries
  (batch_balances_query.go), variable initialisation (`parseVars`,
  `handleOrigin`, `meta`, `balance`, `overdraft`), statements and `RunProgram`
  (interpreter.go).
-/
import Model.Reconcile
import Model.Text

namespace NS

/-! ## Store -/

abbrev BalanceQuery := List (String × List String)
abbrev BalanceAnswer := List ((String × String) × Int)
abbrev MetaAnswer := List ((String × String) × String)

inductive StoreCall where
  | balances (q : BalanceQuery)
  | metadata (account key : String)
  deriving Repr, DecidableEq

/-- A store: the answer may depend on the index of the call (fault injection). -/
structure Store where
  getBalances : Nat → BalanceQuery → Except String BalanceAnswer
  getMeta : Nat → String → String → Except String MetaAnswer

/-! ## Cache and pending query -/

def cacheHas (c : Cache) (account asset : String) : Bool :=
  c.any (fun p => p.1 == (account, asset))

/-- `getCachedBalance` as a write: make the entry exist (default 0) -/
def cacheEnsure (c : Cache) (account asset : String) : Cache :=
  if cacheHas c account asset then c else c ++ [((account, asset), 0)]

def cacheSet (c : Cache) (account asset : String) (v : Int) : Cache :=
  if cacheHas c account asset then
    c.map (fun p => if p.1 == (account, asset) then (p.1, v) else p)
  else c ++ [((account, asset), v)]

/-- merge a store answer: entries already cached are kept; the balance of @world is never
    requested and is ignored if the store volunteers it -/
def cacheMerge (c : Cache) : BalanceAnswer → Cache
  | [] => c
  | ((a, s), v) :: t => cacheMerge (if a = WORLD ∨ cacheHas c a s then c else c ++ [((a, s), v)]) t

/-- `batchQuery` -/
def batchQuery (pending : BalanceQuery) (account asset : String) : BalanceQuery :=
  if account = WORLD then pending
  else if pending.any (fun p => p.1 == account) then
    pending.map (fun p => if p.1 == account ∧ ¬ p.2.contains asset then (p.1, p.2 ++ [asset]) else p)
  else pending ++ [(account, [asset])]

structure QState where
  cache : Cache
  pending : BalanceQuery
  calls : Nat
  log : List StoreCall

/-- `runBalancesQuery`; the error is the store's message -/
def runBalancesQuery (store : Store) (q : QState) : Except String QState :=
  let filtered := q.pending.filter (fun p => p.2.any (fun c => ! cacheHas q.cache p.1 c))
  if filtered.isEmpty then .ok q
  else
    match store.getBalances q.calls filtered with
    | .error msg => .error msg
    | .ok answer =>
        .ok { cache := cacheMerge q.cache answer, pending := [], calls := q.calls + 1,
              log := q.log ++ [.balances filtered] }

/-- `getBalance` -/
def getBalance (store : Store) (q : QState) (account asset : String) : Outcome (Int × QState) :=
  let q1 := { q with pending := batchQuery q.pending account asset }
  match runBalancesQuery store q1 with
  | .error msg => .err (.queryBalance msg)
  | .ok q2 =>
      .ok (cacheGet q2.cache account asset,
           { q2 with cache := cacheEnsure q2.cache account asset })

/-! ## Builtins used as variable origins -/

/-- the `argsParser` protocol for two typed parameters: wrong count → BadArity
    (even if an argument is ill-typed), else the first type error -/
def parseArgs2 {α β : Type} (args : List Value) (e1 : Value → Outcome α) (e2 : Value → Outcome β) :
    Outcome (α × β) :=
  match args with
  | [a, b] => do
      let x ← e1 a
      let y ← e2 b
      pure (x, y)
  | _ => .err (.badArity 2 args.length)

def parseArgs3 {α β γ : Type} (args : List Value) (e1 : Value → Outcome α)
    (e2 : Value → Outcome β) (e3 : Value → Outcome γ) : Outcome (α × β × γ) :=
  match args with
  | [a, b, c] => do
      let x ← e1 a
      let y ← e2 b
      let z ← e3 c
      pure (x, y, z)
  | _ => .err (.badArity 3 args.length)

def lookupMeta (m : MetaAnswer) (account key : String) : Option String :=
  (m.find? (fun p => p.1 == (account, key))).map (·.2)

def FLAG_OVERDRAFT : String := "experimental-overdraft-function"

/-- `handleOrigin` -/
def handleOrigin (store : Store) (flagOverdraft : Bool) (vars : Vars) (q : QState)
    (type_ : String) (fn : FnCall) : Outcome (Value × QState) :=
  match evalExprs vars fn.args with
  | .panic s => .panic s
  | .err e => .err e
  | .ok args =>
    if fn.name = "meta" then
      match parseArgs2 args expectAccount expectString with
      | .panic s => .panic s
      | .err e => .err e
      | .ok (account, key) =>
        match store.getMeta q.calls account key with
        | .error msg => .err (.queryMetadata msg)
        | .ok answer =>
          let q' := { q with calls := q.calls + 1, log := q.log ++ [.metadata account key] }
          match lookupMeta answer account key with
          | none => .err (.metadataNotFound account key)
          | some raw =>
            match parseVar type_ raw with
            | .panic s => .panic s
            | .err e => .err e
            | .ok v => .ok (v, q')
    else if fn.name = "balance" then
      match parseArgs2 args expectAccount expectAsset with
      | .panic s => .panic s
      | .err e => .err e
      | .ok (account, asset) =>
        match getBalance store q account asset with
        | .panic s => .panic s
        | .err e => .err e
        | .ok (b, q') =>
          if b < 0 then .err (.negativeBalance account b)
          else .ok (.monetary asset b, q')
    else if fn.name = "overdraft" then
      if ! flagOverdraft then .err (.experimentalFeature FLAG_OVERDRAFT)
      else
      match parseArgs2 args expectAccount expectAsset with
      | .panic s => .panic s
      | .err e => .err e
      | .ok (account, asset) =>
        match getBalance store q account asset with
        | .panic s => .panic s
        | .err e => .err e
        | .ok (b, q') =>
          if b > 0 then .ok (.monetary asset 0, q') else .ok (.monetary asset (-b), q')
    else .err (.unboundFunction fn.name)

/-- `parseVars` -/
def parseVars (store : Store) (flagOverdraft : Bool) (rawVars : List (String × String)) :
    List VarDecl → Vars → QState → Outcome (Vars × QState)
  | [], vars, q => .ok (vars, q)
  | d :: rest, vars, q =>
    match d.name, d.type with
    | none, _ => .panic "parseVars:nil Name"
    | some _, none => .panic "parseVars:nil Type"
    | some (_, name), some (_, ty) =>
      match d.origin with
      | none =>
        match (rawVars.find? (fun p => p.1 == name)).map (·.2) with
        | none => .err (.missingVariable name)
        | some raw =>
          match parseVar ty raw with
          | .panic s => .panic s
          | .err e => .err e
          | .ok v => parseVars store flagOverdraft rawVars rest ((name, v) :: vars) q
      | some fn =>
        match handleOrigin store flagOverdraft vars q ty fn with
        | .panic s => .panic s
        | .err e => .err e
        | .ok (v, q') =>
          parseVars store flagOverdraft rawVars rest ((name, v) :: vars) q'

/-! ## Balance preloading (`findBalancesQueries*`) -/

/-- `evaluateSentAmt`: asset, and the amount unless "send all" -/
def evaluateSentAmt (vars : Vars) : SentValue → Outcome (String × Option Int)
  | .nil => .panic "evaluateSentAmt:NonExhaustiveMatch(nil)"
  | .all _ a =>
      match evalAs vars a expectAsset with
      | .panic s => .panic s
      | .err e => .err e
      | .ok asset => .ok (asset, none)
  | .lit _ m =>
      match evalAs vars m expectMonetary with
      | .panic s => .panic s
      | .err e => .err e
      | .ok (asset, n) => .ok (asset, some n)

mutual
  /-- `findBalancesQueries` -/
  def findBalancesQueries (vars : Vars) (asset : String) : Source → BalanceQuery → Outcome BalanceQuery
    | .nil, _ => .panic "findBalancesQueries:nil source"
    | .account e, p =>
        match evalAs vars e expectAccount with
        | .panic s => .panic s
        | .err e => .err e
        | .ok account => .ok (batchQuery p account asset)
    | .overdraft _ _ none, p => .ok p
    | .overdraft _ addr (some _), p =>
        match evalAs vars addr expectAccount with
        | .panic s => .panic s
        | .err e => .err e
        | .ok account => .ok (batchQuery p account asset)
    | .inorder _ srcs, p => findQueriesList vars asset srcs p
    | .capped _ _ src, p => findBalancesQueries vars asset src p
    | .allotment _ items, p => findQueriesItems vars asset items p

  def findQueriesList (vars : Vars) (asset : String) : List Source → BalanceQuery → Outcome BalanceQuery
    | [], p => .ok p
    | s :: ss, p =>
        match findBalancesQueries vars asset s p with
        | .panic x => .panic x
        | .err e => .err e
        | .ok p' => findQueriesList vars asset ss p'

  def findQueriesItems (vars : Vars) (asset : String) : List SrcItem → BalanceQuery → Outcome BalanceQuery
    | [], p => .ok p
    | (.mk _ _ src) :: rest, p =>
        match findBalancesQueries vars asset src p with
        | .panic x => .panic x
        | .err e => .err e
        | .ok p' => findQueriesItems vars asset rest p'
end

/-- `findBalancesQueriesInStatement` -/
def findBalancesQueriesInStatement (vars : Vars) : Statement → BalanceQuery → Outcome BalanceQuery
  | .nil, _ => .panic "findBalancesQueriesInStatement:NonExhaustiveMatch(nil)"
  | .fnCallNil, p => .ok p
  | .fnCall _, p => .ok p
  | .save _ sv amount, p =>
      match evaluateSentAmt vars sv with
      | .panic s => .panic s
      | .err e => .err e
      | .ok (asset, _) =>
        match evalAs vars amount expectAccount with
        | .panic s => .panic s
        | .err e => .err e
        | .ok account => .ok (batchQuery p account asset)
  | .send _ sv src _, p =>
      match evaluateSentAmt vars sv with
      | .panic s => .panic s
      | .err e => .err e
      | .ok (asset, _) => findBalancesQueries vars asset src p

def preload (vars : Vars) : List Statement → BalanceQuery → Outcome BalanceQuery
  | [], p => .ok p
  | s :: ss, p =>
      match findBalancesQueriesInStatement vars s p with
      | .panic x => .panic x
      | .err e => .err e
      | .ok p' => preload vars ss p'

/-! ## Statements -/

abbrev TxMeta := List (String × Value)
abbrev AccMeta := List ((String × String) × String)

def assocSet {κ ν : Type} [BEq κ] (m : List (κ × ν)) (k : κ) (v : ν) : List (κ × ν) :=
  if m.any (fun p => p.1 == k) then m.map (fun p => if p.1 == k then (k, v) else p)
  else m ++ [(k, v)]

structure RState where
  cache : Cache
  txMeta : TxMeta
  accMeta : AccMeta

/-- apply the postings of a statement to the cache (`getPostings`) -/
def applyPostings (c : Cache) : List Posting → Cache
  | [] => c
  | p :: ps =>
      let c1 := cacheSet c p.source p.asset (cacheGet c p.source p.asset - p.amount)
      let c2 := cacheSet c1 p.destination p.asset (cacheGet c1 p.destination p.asset + p.amount)
      applyPostings c2 ps

/-- `runSendStatement` -/
def runSendStatement (vars : Vars) (st : RState) (sv : SentValue) (src : Source) (dst : Dest) :
    Outcome (List Posting × RState) :=
  match sv with
  | .nil => .panic "runSendStatement:NonExhaustiveMatch(nil)"
  | .all _ a =>
      match evalAs vars a expectAsset with
      | .panic s => .panic s
      | .err e => .err e
      | .ok asset =>
        let env : Env := ⟨vars, st.cache, asset⟩
        match sendAll env src [] with
        | .panic s => .panic s
        | .err e => .err e
        | .ok (sent, snd) =>
          match receiveFrom env dst sent [] with
          | .panic s => .panic s
          | .err e => .err e
          | .ok rcv =>
            let ps := Reconcile asset snd rcv
            .ok (ps, { st with cache := applyPostings st.cache ps })
  | .lit _ m =>
      match evalAs vars m expectMonetary with
      | .panic s => .panic s
      | .err e => .err e
      | .ok (asset, amt) =>
        if amt < 0 then .err (.negativeAmount amt)
        else
        let env : Env := ⟨vars, st.cache, asset⟩
        match trySendingExact env src amt [] with
        | .panic s => .panic s
        | .err e => .err e
        | .ok snd =>
          match receiveFrom env dst amt [] with
          | .panic s => .panic s
          | .err e => .err e
          | .ok rcv =>
            let ps := Reconcile asset snd rcv
            .ok (ps, { st with cache := applyPostings st.cache ps })

/-- the new visible balance after a save -/
def savedBalance (balance : Int) : Option Int → Int
  | none => if balance > 0 then 0 else balance
  | some amt => if balance > 0 then max 0 (balance - amt) else balance

/-- `runSaveStatement` -/
def runSaveStatement (vars : Vars) (st : RState) (sv : SentValue) (amount : Expr) :
    Outcome (List Posting × RState) :=
  match evaluateSentAmt vars sv with
  | .panic s => .panic s
  | .err e => .err e
  | .ok (asset, amt) =>
    match evalAs vars amount expectAccount with
    | .panic s => .panic s
    | .err e => .err e
    | .ok account =>
      let newBalance := savedBalance (cacheGet st.cache account asset) amt
      let st' : RState := { st with cache := cacheSet st.cache account asset newBalance }
      match amt with
      | some n => if n < 0 then .err (.negativeAmount n) else .ok ([], st')
      | none => .ok ([], st')

/-- `runStatement` -/
def runStatement (vars : Vars) (st : RState) : Statement → Outcome (List Posting × RState)
  | .nil => .panic "runStatement:NonExhaustiveMatch(nil)"
  | .fnCallNil => .panic "runStatement:nil *FnCall"
  | .send _ sv src dst => runSendStatement vars st sv src dst
  | .save _ sv amount => runSaveStatement vars st sv amount
  | .fnCall fn =>
      match evalExprs vars fn.args with
      | .panic s => .panic s
      | .err e => .err e
      | .ok args =>
        if fn.name = "set_tx_meta" then
          match parseArgs2 args expectString (fun v => Outcome.ok v) with
          | .panic s => .panic s
          | .err e => .err e
          | .ok (key, v) => .ok ([], { st with txMeta := assocSet st.txMeta key v })
        else if fn.name = "set_account_meta" then
          match parseArgs3 args expectAccount expectString (fun v => Outcome.ok v) with
          | .panic s => .panic s
          | .err e => .err e
          | .ok (account, key, v) =>
              .ok ([], { st with accMeta := assocSet st.accMeta (account, key) v.render })
        else .err (.unboundFunction fn.name)

def runStatements (vars : Vars) : List Statement → RState → Outcome (List Posting × RState)
  | [], st => .ok ([], st)
  | s :: ss, st =>
      match runStatement vars st s with
      | .panic x => .panic x
      | .err e => .err e
      | .ok (ps, st') =>
        match runStatements vars ss st' with
        | .panic x => .panic x
        | .err e => .err e
        | .ok (ps', st'') => .ok (ps ++ ps', st'')

structure ExecResult where
  postings : List Posting
  txMeta : TxMeta
  accMeta : AccMeta
  log : List StoreCall          -- the store calls made by the run (C10, C12)

/-- `RunProgram` -/
def RunProgram (prog : Program) (rawVars : List (String × String)) (store : Store)
    (flagOverdraft : Bool) : Outcome ExecResult :=
  match parseVars store flagOverdraft rawVars prog.vars [] ⟨[], [], 0, []⟩ with
  | .panic s => .panic s
  | .err e => .err e
  | .ok (vars, q) =>
    match preload vars prog.stmts q.pending with
    | .panic s => .panic s
    | .err e => .err e
    | .ok pending =>
      match runBalancesQuery store { q with pending := pending } with
      | .error msg => .err (.queryBalance msg)
      | .ok q' =>
        match runStatements vars prog.stmts ⟨q'.cache, [], []⟩ with
        | .panic s => .panic s
        | .err e => .err e
        | .ok (ps, st) => .ok ⟨ps, st.txMeta, st.accMeta, q'.log⟩

end NS
