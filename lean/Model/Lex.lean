/-
  Model/Lex.lean — the lexer of Numscript.g4 as ANTLR runs it: at every position
  the longest match among all lexer rules wins, ties go to the rule written first;
  WS and comments are skipped; a character no rule matches is a token recognition
  error (the script is rejected).  Positions: 0-based line, column counted in
  characters (code points), a line ends at '\n' only (ANTLR's LexerATNSimulator).

  Hand-written matchers, one per lexer rule.  Core Lean only.
-/
import Model.Text

namespace NS

inductive TK where
  | kwVars | kwMax | kwSource | kwDestination | kwSend | kwFrom | kwUp | kwTo | kwRemaining
  | kwAllowing | kwUnbounded | kwOverdraft | kwKept | kwSave
  | lparen | rparen | lbracket | rbracket | lbrace | rbrace | comma | eq | star | minus | plus
  | ratio | percent | string | ident | number | varName | account | asset
  deriving DecidableEq, Repr, Inhabited

structure Tok where
  kind : TK
  text : List Char
  line : Nat
  col : Nat
  deriving DecidableEq, Repr, Inhabited

def Tok.startPos (t : Tok) : Pos := ⟨t.line, t.col⟩
/-- `tokenToRange`/`ctxToRange`: a token does not span lines -/
def Tok.endPos (t : Tok) : Pos := ⟨t.line, t.col + t.text.length⟩

/-! ### matchers: number of characters matched at the head of the input, 0 = no match -/

def spanLen (p : Char → Bool) : List Char → Nat
  | [] => 0
  | c :: t => if p c then spanLen p t + 1 else 0

def isWsChar (c : Char) : Bool := c = ' ' || c = '\t' || c = '\r' || c = '\n'
def isNlChar (c : Char) : Bool := c = '\r' || c = '\n'
def isLowerChar (c : Char) : Bool := 'a' ≤ c && c ≤ 'z'
def isUpperChar (c : Char) : Bool := 'A' ≤ c && c ≤ 'Z'
def isIdentTail (c : Char) : Bool := isLowerChar c || c = '_'
def isVarHead (c : Char) : Bool := isLowerChar c || c = '_'
def isVarTail (c : Char) : Bool := isLowerChar c || isDigit c || c = '_'
def isAcctChar (c : Char) : Bool := isLowerChar c || isUpperChar c || isDigit c || c = '_' || c = '-'
def isAssetChar (c : Char) : Bool := isUpperChar c || c = '/' || isDigit c

/-- WS: `[ \t\r\n]+` -/
def mWs (cs : List Char) : Nat := spanLen isWsChar cs

/-- body of a block comment after its opening `/*`: characters up to and including the closing
    `*/`.  `(MULTILINE_COMMENT | .)*? '*/'`: at an inner `/*` a nested comment is tried first; when
    the rest of the outer comment cannot be completed that way, the `/` is taken as a plain character. -/
def commentBody : Nat → List Char → Option Nat
  | 0, _ => none
  | _, [] => none
  | fuel + 1, c :: rest =>
    match c, rest with
    | '*', '/' :: _ => some 2
    | '/', '*' :: rest' =>
        match commentBody fuel rest' with
        | some k =>
            match commentBody fuel (rest'.drop k) with
            | some r => some (2 + k + r)
            | none => (commentBody fuel rest).map (· + 1)
        | none => (commentBody fuel rest).map (· + 1)
    | _, _ => (commentBody fuel rest).map (· + 1)

/-- MULTILINE_COMMENT -/
def mBlockComment (cs : List Char) : Nat :=
  match cs with
  | '/' :: '*' :: rest =>
      match commentBody (rest.length + 1) rest with
      | some n => 2 + n
      | none => 0
  | _ => 0

/-- LINE_COMMENT: `'//' .*? NEWLINE`, NEWLINE = `[\r\n]+` (a last line without newline is no comment) -/
def mLineComment (cs : List Char) : Nat :=
  match cs with
  | '/' :: '/' :: rest =>
      let n := spanLen (fun c => !isNlChar c) rest
      let m := spanLen isNlChar (rest.drop n)
      if m = 0 then 0 else 2 + n + m
  | _ => 0

def mLiteral (kw : List Char) (cs : List Char) : Nat := if kw.isPrefixOf cs then kw.length else 0

/-- RATIO_PORTION_LITERAL: `[0-9]+ [ ]? '/' [ ]? [0-9]+` -/
def mRatio (cs : List Char) : Nat :=
  let a := spanLen isDigit cs
  if a = 0 then 0 else
  let r1 := cs.drop a
  let s1 := match r1 with | ' ' :: _ => 1 | _ => 0
  match r1.drop s1 with
  | '/' :: r3 =>
      let s2 := match r3 with | ' ' :: _ => 1 | _ => 0
      let b := spanLen isDigit (r3.drop s2)
      if b = 0 then 0 else a + s1 + 1 + s2 + b
  | _ => 0

/-- PERCENTAGE_PORTION_LITERAL: `[0-9]+ ('.' [0-9]+)? '%'` -/
def mPercent (cs : List Char) : Nat :=
  let a := spanLen isDigit cs
  if a = 0 then 0 else
  match cs.drop a with
  | '%' :: _ => a + 1
  | '.' :: r =>
      let b := spanLen isDigit r
      if b = 0 then 0 else
      match r.drop b with
      | '%' :: _ => a + 1 + b + 1
      | _ => 0
  | _ => 0

/-- after the opening quote: longest `('\\"' | ~[\r\n"])* '"'` -/
def strBody : List Char → Option Nat
  | [] => none
  | '"' :: _ => some 1
  | '\\' :: '"' :: rest =>
      match strBody rest with
      | some n => some (n + 2)
      | none => some 2
  | c :: rest => if isNlChar c then none else (strBody rest).map (· + 1)

/-- STRING -/
def mString (cs : List Char) : Nat :=
  match cs with
  | '"' :: rest => match strBody rest with | some n => n + 1 | none => 0
  | _ => 0

/-- IDENTIFIER: `[a-z]+ [a-z_]*` -/
def mIdent (cs : List Char) : Nat :=
  match cs with
  | c :: t => if isLowerChar c then 1 + spanLen isIdentTail t else 0
  | [] => 0

/-- NUMBER: `MINUS? [0-9]+` -/
def mNumber (cs : List Char) : Nat :=
  match cs with
  | '-' :: t => let n := spanLen isDigit t; if n = 0 then 0 else n + 1
  | _ => spanLen isDigit cs

/-- VARIABLE_NAME: `'$' [a-z_]+ [a-z0-9_]*` -/
def mVarName (cs : List Char) : Nat :=
  match cs with
  | '$' :: c :: t => if isVarHead c then 2 + spanLen isVarTail t else 0
  | _ => 0

/-- `(':' [a-zA-Z0-9_-]+)*` -/
def acctTail : Nat → List Char → Nat
  | fuel + 1, ':' :: t =>
      let n := spanLen isAcctChar t
      if n = 0 then 0 else 1 + n + acctTail fuel (t.drop n)
  | _, _ => 0

/-- ACCOUNT: `'@' [a-zA-Z0-9_-]+ (':' [a-zA-Z0-9_-]+)*` -/
def mAccount (cs : List Char) : Nat :=
  match cs with
  | '@' :: t =>
      let n := spanLen isAcctChar t
      if n = 0 then 0 else 1 + n + acctTail t.length (t.drop n)
  | _ => 0

/-- ASSET: `[A-Z/0-9]+` -/
def mAsset (cs : List Char) : Nat := spanLen isAssetChar cs

/-! ### longest match, first rule on ties -/

/-- the rules in the order of the grammar; `none` = skipped (`-> skip`) -/
def candidates (cs : List Char) : List (Option TK × Nat) :=
  [ (none, mWs cs), (none, mBlockComment cs), (none, mLineComment cs),
    (some .kwVars, mLiteral "vars".toList cs), (some .kwMax, mLiteral "max".toList cs),
    (some .kwSource, mLiteral "source".toList cs), (some .kwDestination, mLiteral "destination".toList cs),
    (some .kwSend, mLiteral "send".toList cs), (some .kwFrom, mLiteral "from".toList cs),
    (some .kwUp, mLiteral "up".toList cs), (some .kwTo, mLiteral "to".toList cs),
    (some .kwRemaining, mLiteral "remaining".toList cs), (some .kwAllowing, mLiteral "allowing".toList cs),
    (some .kwUnbounded, mLiteral "unbounded".toList cs), (some .kwOverdraft, mLiteral "overdraft".toList cs),
    (some .kwKept, mLiteral "kept".toList cs), (some .kwSave, mLiteral "save".toList cs),
    (some .lparen, mLiteral ['('] cs), (some .rparen, mLiteral [')'] cs),
    (some .lbracket, mLiteral ['['] cs), (some .rbracket, mLiteral [']'] cs),
    (some .lbrace, mLiteral ['{'] cs), (some .rbrace, mLiteral ['}'] cs),
    (some .comma, mLiteral [','] cs), (some .eq, mLiteral ['='] cs), (some .star, mLiteral ['*'] cs),
    (some .minus, mLiteral ['-'] cs),
    (some .ratio, mRatio cs), (some .percent, mPercent cs), (some .string, mString cs),
    (some .ident, mIdent cs), (some .number, mNumber cs), (some .varName, mVarName cs),
    (some .account, mAccount cs), (some .asset, mAsset cs), (some .plus, mLiteral ['+'] cs) ]

/-- first candidate of maximal (non-zero) length -/
def bestOf : List (Option TK × Nat) → Option (Option TK × Nat)
  | [] => none
  | (k, n) :: rest =>
      match bestOf rest with
      | some (k', n') => if n ≥ n' ∧ n ≠ 0 then some (k, n) else some (k', n')
      | none => if n ≠ 0 then some (k, n) else none

/-- position after consuming the given characters -/
def advance (line col : Nat) : List Char → Nat × Nat
  | [] => (line, col)
  | c :: t => if c = '\n' then advance (line + 1) 0 t else advance line (col + 1) t

/-- the token stream on the default channel; `none`: some character starts no token -/
def lexLoop : Nat → List Char → Nat → Nat → Option (List Tok)
  | 0, _, _, _ => none
  | _ + 1, [], _, _ => some []
  | fuel + 1, c :: cs, line, col =>
      match bestOf (candidates (c :: cs)) with
      | none => none
      | some (k, n) =>
          let txt := (c :: cs).take n
          let p := advance line col txt
          match lexLoop fuel ((c :: cs).drop n) p.1 p.2 with
          | none => none
          | some toks =>
              match k with
              | none => some toks
              | some kind => some ({ kind := kind, text := txt, line := line, col := col } :: toks)

def lex (cs : List Char) : Option (List Tok) := lexLoop (cs.length + 1) cs 0 0

/-- `strconv.Atoi` on the text of a NUMBER token (64-bit int) -/
def numberTokenValue (text : List Char) : Option Int :=
  let v : Int := match text with
    | '-' :: ds => - (digitsVal ds : Int)
    | ds => (digitsVal ds : Int)
  if - (2 ^ 63 : Int) ≤ v ∧ v < (2 ^ 63 : Int) then some v else none

end NS
