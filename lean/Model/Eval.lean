/-
  Model/Eval.lean — transliteration of internal/interpreter/evaluate_expr.go,
  infix.go and the `expect*` helpers of value.go.
-/
import Model.Basic

namespace NS

abbrev Vars := List (String × Value)

def lookupVar (vars : Vars) (name : String) : Option Value :=
  (vars.find? (fun p => p.1 == name)).map (·.2)

/-! ### expect* (value.go) -/

def expectMonetary : Value → Outcome (String × Int)
  | .monetary a n => .ok (a, n)
  | v => .err (.typeError "monetary" v)

def expectNumber : Value → Outcome Int
  | .number n => .ok n
  | v => .err (.typeError "number" v)

def expectString : Value → Outcome String
  | .str s => .ok s
  | v => .err (.typeError "string" v)

def expectAsset : Value → Outcome String
  | .asset s => .ok s
  | v => .err (.typeError "asset" v)

def expectAccount : Value → Outcome String
  | .account s => .ok s
  | v => .err (.typeError "account" v)

def expectPortion : Value → Outcome Rat
  | .portion q => .ok q
  | v => .err (.typeError "portion" v)

def expectMonetaryOfAsset (expectedAsset : String) (v : Value) : Outcome Int :=
  match expectMonetary v with
  | .ok (a, n) => if a = expectedAsset then .ok n else .err (.mismatchedCurrency expectedAsset a)
  | .err e => .err e
  | .panic s => .panic s

/-! ### evaluateExpr -/

/-- `evaluateExpr`; `plusOp`/`subOp` and `evalAdd`/`evalSub` are inlined in the
    `infix` case (left operand first, then the right one with the type the left
    one dictates). -/
def evalExpr (vars : Vars) : Expr → Outcome Value
  | .nil => .panic "evaluateExpr:NonExhaustiveMatch(nil)"
  | .monetaryNil => .panic "evaluateExpr:nil *MonetaryLiteral"
  | .asset _ s => .ok (.asset s)
  | .account _ s => .ok (.account s)
  | .str _ s => .ok (.str s)
  | .ratio _ num den =>
      if den = 0 then .err (.divideByZero num) else .ok (.portion (mkRat num den))
  | .number _ n => .ok (.number n)
  | .monetary _ a n =>
      match evalExpr vars a with
      | .panic s => .panic s
      | .err e => .err e
      | .ok va =>
        match expectAsset va with
        | .panic s => .panic s
        | .err e => .err e
        | .ok asset =>
          match evalExpr vars n with
          | .panic s => .panic s
          | .err e => .err e
          | .ok vn =>
            match expectNumber vn with
            | .panic s => .panic s
            | .err e => .err e
            | .ok amount => .ok (.monetary asset amount)
  | .var _ name =>
      match lookupVar vars name with
      | some v => .ok v
      | none => .err (.unboundVariable name)
  | .infix _ op l r =>
      match evalExpr vars l with
      | .panic s => .panic s
      | .err e => .err e
      | .ok (.monetary a1 n1) =>
        (match evalExpr vars r with
        | .panic s => .panic s
        | .err e => .err e
        | .ok vr =>
          match expectMonetary vr with
          | .panic s => .panic s
          | .err e => .err e
          | .ok (a2, n2) =>
            if a1 = a2 then
              .ok (.monetary a1 (match op with | .plus => n1 + n2 | .minus => n1 - n2))
            else .err (.mismatchedCurrency a1 a2))
      | .ok (.number n1) =>
        (match evalExpr vars r with
        | .panic s => .panic s
        | .err e => .err e
        | .ok vr =>
          match expectNumber vr with
          | .panic s => .panic s
          | .err e => .err e
          | .ok n2 => .ok (.number (match op with | .plus => n1 + n2 | .minus => n1 - n2)))
      | .ok v => .err (.typeError "monetary|number" v)

/-- `evaluateExprAs` -/
def evalAs {α : Type} (vars : Vars) (e : Expr) (expect : Value → Outcome α) : Outcome α :=
  evalExpr vars e >>= expect

/-- `evaluateExpressions` -/
def evalExprs (vars : Vars) : List Expr → Outcome (List Value)
  | [] => .ok []
  | e :: es => do
      let v ← evalExpr vars e
      let vs ← evalExprs vars es
      pure (v :: vs)

end NS
