/-
  Model/Reconcile.lean — `Reconcile` (internal/interpreter/reconciler.go).

  Go reverses both slices once and uses them as stacks; here the lists are
  consumed from the head, which is the same order. Postings are accumulated in
  reverse (`acc` head = last posting, the only one a merge can touch).
-/
import Model.Dest

namespace NS

/-- the kept loop: withhold `kept` from as many pending senders as needed -/
def withhold : Int → Senders → Senders
  | _, [] => []
  | kept, (n, m) :: t =>
      if kept ≤ 0 then (n, m) :: t
      else if m > kept then (n, m - kept) :: t
      else withhold (kept - m) t

theorem withhold_length_le (k : Int) (s : Senders) : (withhold k s).length ≤ s.length := by
  induction s generalizing k with
  | nil => simp [withhold]
  | cons h t ih =>
    obtain ⟨n, m⟩ := h
    unfold withhold
    split
    · simp
    · split
      · simp
      · exact Nat.le_trans (ih _) (Nat.le_succ _)

/-- append a posting, merging it into the last one when source and destination coincide -/
def addPosting (acc : List Posting) (src dst : String) (amt : Int) (asset : String) : List Posting :=
  match acc with
  | p :: rest =>
      if p.source = src ∧ p.destination = dst then { p with amount := p.amount + amt } :: rest
      else ⟨src, dst, amt, asset⟩ :: p :: rest
  | [] => [⟨src, dst, amt, asset⟩]

/-- the main loop of `Reconcile` -/
def reconcileLoop (asset : String) (senders : Senders) (receivers : Receivers)
    (acc : List Posting) : List Posting :=
  match receivers with
  | [] => acc
  | (rn, rm) :: rs =>
    if rn = KEPT_ADDR then
      reconcileLoop asset (withhold rm senders) rs acc
    else
      match senders with
      | [] => acc
      | (sn, sm) :: ss =>
        if sm = rm then
          reconcileLoop asset ss rs (addPosting acc sn rn sm asset)
        else if sm < rm then
          reconcileLoop asset ss ((rn, rm - sm) :: rs) (addPosting acc sn rn sm asset)
        else
          reconcileLoop asset ((sn, sm - rm) :: ss) rs (addPosting acc sn rn rm asset)
termination_by senders.length + receivers.length
decreasing_by
  all_goals simp_wf
  · have := withhold_length_le rm senders; omega
  all_goals omega

def Reconcile (asset : String) (senders : Senders) (receivers : Receivers) : List Posting :=
  (reconcileLoop asset senders receivers []).reverse

end NS
