/-
  Model/LexAll.lean — the lexer WITH its error recovery (antlr4 runtime: BaseLexer.NextToken,
  LexerATNSimulator.execATN/failOrAccept, BaseLexer.NotifyListeners/Recover).

  When no lexer rule matches a non-empty prefix of the remaining input, the simulator has consumed the
  longest prefix that could still become a token (`failLen`) and stops on the next character; the
  listener is told `token recognition error at: '<that prefix and the offending character>'` at the
  position where the attempt started; `Recover` consumes the offending character and lexing goes on
  behind it.  Only three rules can be entered without a shorter match existing: STRING (an opening
  quote with no closing quote on its line), VARIABLE_NAME (`$` not followed by `[a-z_]`) and ACCOUNT
  (`@` not followed by an account character); every other failing character fails at once.
-/
import Model.Lex

namespace NS

structure LexErr where
  line : Nat
  col : Nat
  text : List Char          -- the text quoted in the message
  deriving DecidableEq, Repr

/-- characters consumed by the failed attempt before the offending one -/
def failLen : List Char → Nat
  | '"' :: rest => 1 + spanLen (fun c => !isNlChar c) rest
  | '$' :: _ => 1
  | '@' :: _ => 1
  | _ => 0

/-- tokens on the default channel and lexer errors, in text order -/
def lexAllLoop : Nat → List Char → Nat → Nat → List Tok × List LexErr
  | 0, _, _, _ => ([], [])
  | _ + 1, [], _, _ => ([], [])
  | fuel + 1, c :: cs, line, col =>
      match bestOf (candidates (c :: cs)) with
      | some (k, n) =>
          let txt := (c :: cs).take n
          let p := advance line col txt
          let r := lexAllLoop fuel ((c :: cs).drop n) p.1 p.2
          match k with
          | none => r
          | some kind => ({ kind := kind, text := txt, line := line, col := col } :: r.1, r.2)
      | none =>
          let bad := (c :: cs).take (failLen (c :: cs) + 1)
          let p := advance line col bad
          let r := lexAllLoop fuel ((c :: cs).drop (failLen (c :: cs) + 1)) p.1 p.2
          (r.1, { line := line, col := col, text := bad } :: r.2)

def lexAll (cs : List Char) : List Tok × List LexErr := lexAllLoop (cs.length + 1) cs 0 0

/-- where the EOF token sits: the position after the last character -/
def eofPos (cs : List Char) : Pos := let p := advance 0 0 cs; ⟨p.1, p.2⟩

/-- "inside the text or at its end": an existing line, a column not beyond the end of that line -/
def lineLengths (cs : List Char) : List Nat :=
  let rec go (cur : Nat) : List Char → List Nat
    | [] => [cur]
    | c :: t => if c = '\n' then cur :: go 0 t else go (cur + 1) t
  go 0 cs

def PosInText (cs : List Char) (p : Pos) : Prop :=
  ∃ len, (lineLengths cs)[p.line]? = some len ∧ p.char ≤ len

/-- the message the error listener receives -/
def lexErrMessage (e : LexErr) : String := "token recognition error at: '" ++ String.ofList e.text ++ "'"

end NS
