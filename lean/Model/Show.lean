/-
  Model/Show.lean — `Range.ShowOnSource` and `ParseErrorsToString`
  (internal/parser/range.go, parser.go) and the range arithmetic of
  `ErrorListener.SyntaxError`.  Slice bounds and `strings.Repeat` with a negative
  count are the panic sites.
-/
import Model.Nav

namespace NS

/-- `strings.Split(source, "\n")` on characters -/
def splitLines (cs : List Char) : List (List Char) :=
  let rec go (cur : List Char) : List Char → List (List Char)
    | [] => [cur.reverse]
    | c :: t => if c = '\n' then cur.reverse :: go [] t else go (c :: cur) t
  go [] cs

/-- `len(line)`: Go measures a line in bytes -/
def byteLen (l : List Char) : Nat := (String.ofList l).utf8ByteSize

/-- `strings.Repeat(s, n)` panics on a negative count -/
def repeatStr (c : Char) (n : Int) : Outcome String :=
  if n < 0 then .panic "strings.Repeat: negative Repeat count" else .ok (String.ofList (List.replicate n.toNat c))

/-- `%3d` -/
def pad3 (n : Nat) : String :=
  let s := toString n
  String.ofList (List.replicate (3 - s.length) ' ') ++ s

def showLine (index : Nat) (line : List Char) : String := pad3 index ++ " | " ++ String.ofList line ++ "\n"

/-- the `~~~` underline of one line of the range -/
def showError (r : Range) (srcLine : Nat) (line : List Char) : Outcome String :=
  let errStartChar : Int := if r.s.line = srcLine then r.s.char else 0
  let errEndChar : Int := if r.e.line = srcLine then r.e.char else byteLen line
  match repeatStr '~' (errEndChar - errStartChar) with
  | .panic s => .panic s
  | .err e => .err e
  | .ok tildes =>
    match repeatStr ' ' errStartChar with
    | .panic s => .panic s
    | .err e => .err e
    | .ok ws => .ok ("   " ++ " | " ++ ws ++ tildes)

/-- the loop over `errorLines`; `n` = number of error lines, `k` = current offset -/
def showLoop (r : Range) (lines : List (List Char)) (n : Nat) : Nat → List (List Char) → String → Outcome String
  | _, [], buf => .ok buf
  | k, line :: rest, buf =>
      let srcLine := r.s.line + k
      let buf1 := if k ≠ 0 then buf ++ "\n" else buf
      let before : Outcome String :=
        if srcLine ≠ 0 ∧ k = 0 then
          match lines[srcLine - 1]? with
          | some l => .ok (buf1 ++ showLine (srcLine - 1) l)
          | none => .panic "index out of range (previous line)"
        else .ok buf1
      match before with
      | .panic s => .panic s
      | .err e => .err e
      | .ok buf2 =>
        match showError r srcLine line with
        | .panic s => .panic s
        | .err e => .err e
        | .ok underline =>
          let buf3 := buf2 ++ showLine srcLine line ++ underline
          let after : Outcome String :=
            if srcLine ≠ lines.length - 1 ∧ k = n - 1 then
              match lines[srcLine + 1]? with
              | some l => .ok (buf3 ++ "\n" ++ showLine (srcLine + 1) l)
              | none => .panic "index out of range (next line)"
            else .ok buf3
          match after with
          | .panic s => .panic s
          | .err e => .err e
          | .ok buf4 => showLoop r lines n (k + 1) rest buf4

/-- `Range.ShowOnSource` -/
def showOnSource (r : Range) (source : List Char) : Outcome String :=
  let lines := splitLines source
  -- errorLines := lines[r.Start.Line : r.End.Line+1]
  if r.s.line > r.e.line + 1 ∨ r.e.line + 1 > lines.length then .panic "slice bounds out of range"
  else
    let errorLines := (lines.drop r.s.line).take (r.e.line + 1 - r.s.line)
    showLoop r lines errorLines.length 0 errorLines ""

/-- the range `SyntaxError` attaches to an error at (line, column) (1-based line) on a token of `len` characters -/
def syntaxErrorRange (startL startC len : Nat) : Range :=
  ⟨⟨startL - 1, startC⟩, ⟨startL - 1, startC + len - 1⟩⟩

end NS
