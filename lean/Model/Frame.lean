/-
  Model/Frame.lean — the wire format of internal/lsp/server.go: `encodeMessage`
  (`Content-Length: <n>\r\n\r\n<body>`, n counted in BYTES), `MessageBuffer.Read`
  (MIME header block through net/textproto, `Content-Length` read in base ten,
  then exactly that many bytes) and the request/response loop of `RunServer`.

  The model works on bytes (`List UInt8`).  JSON (encoding/json, jsonrpc2) is not
  modelled: a message body is an opaque byte string.  Of `textproto.ReadMIMEHeader`
  the model covers header blocks without continuation lines (a line that starts with
  a blank or a tab after a header line) — such input yields `.unsupported`, about
  which the model says nothing.  Every way `Read` can fail (it panics) is an explicit
  `.error`; end of input before the first header byte is `.eof` (`os.Exit(0)`).
-/
namespace NS

abbrev Bytes := List UInt8

def CR : UInt8 := 13
def LF : UInt8 := 10
def SP : UInt8 := 32
def TAB : UInt8 := 9
def COLON : UInt8 := 58

def strBytes (s : String) : Bytes := s.toList.flatMap String.utf8EncodeChar

/-- decimal digits of a natural number as ASCII bytes (`%d`) -/
def natBytes (n : Nat) : Bytes := (Nat.toDigits 10 n).map (fun c => UInt8.ofNat c.toNat)

def contentLengthPrefix : Bytes := strBytes "Content-Length: "

/-- `encodeMessage` once the message is marshalled: `fmt.Sprintf("Content-Length: %d\r\n\r\n%s", len(bytes), bytes)` -/
def encodeFrame (body : Bytes) : Bytes :=
  contentLengthPrefix ++ natBytes body.length ++ [CR, LF, CR, LF] ++ body

/-! ### reading -/

inductive FrameErr where
  | unexpectedEOF            -- input ends inside a line or inside the body
  | malformedHeader          -- no colon, empty or invalid key, invalid value byte, leading blank
  | badLength                -- `strconv.ParseInt` fails (no header, empty, non-digit, out of range)
  | negativeLength           -- `make([]byte, len)` with len < 0
  deriving DecidableEq, Repr

inductive ReadRes where
  | ok (body rest : Bytes)
  | eof
  | error (e : FrameErr)
  | unsupported
  deriving DecidableEq, Repr

/-- `bufio.Reader.ReadLine` as used by `readLineSlice`: the bytes before the first LF, without the
    LF and without one CR before it; when no LF is left, what remains is the (last) line; `none`
    at end of input (the real reader reports `io.EOF`). Lines longer than the reader's buffer are
    reassembled by `readLineSlice`, so the buffer size does not show. -/
def readLine : Bytes → Option (Bytes × Bytes)
  | [] => none
  | b :: t =>
    if b = LF then some ([], t)
    else match readLine t with
      | none => some ([b], [])
      | some (line, rest) =>
        if line = [] ∧ b = CR ∧ t.head? = some LF then some ([], rest)        -- the CR of a CRLF
        else some (b :: line, rest)

def isBlank (b : UInt8) : Bool := b = SP || b = TAB

/-- `trim`: leading and trailing blanks and tabs removed -/
def trimBlanks (l : Bytes) : Bytes :=
  ((l.dropWhile isBlank).reverse.dropWhile isBlank).reverse

/-- `validHeaderFieldByte`: RFC 7230 token characters -/
def isTokenByte (b : UInt8) : Bool :=
  (48 ≤ b && b ≤ 57) || (65 ≤ b && b ≤ 90) || (97 ≤ b && b ≤ 122) ||
  b = 33 || b = 35 || b = 36 || b = 37 || b = 38 || b = 39 || b = 42 || b = 43 ||
  b = 45 || b = 46 || b = 94 || b = 95 || b = 96 || b = 124 || b = 126

/-- `validHeaderValueByte`: everything except control characters other than TAB -/
def isValueByte (b : UInt8) : Bool := (32 ≤ b && b ≠ 127) || b = TAB

def lowerByte (b : UInt8) : UInt8 := if 65 ≤ b && b ≤ 90 then b + 32 else b

/-- the key of `headers.Get("Content-Length")` after canonicalisation: equal up to ASCII case -/
def isContentLengthKey (k : Bytes) : Bool := k.map lowerByte = strBytes "content-length"

/-- split at the first colon -/
def cutColon : Bytes → Option (Bytes × Bytes)
  | [] => none
  | b :: t =>
    if b = COLON then some ([], t)
    else match cutColon t with
      | none => none
      | some (k, v) => some (b :: k, v)

inductive HeadersRes where
  | ok (headers : List (Bytes × Bytes)) (rest : Bytes)
  | eof
  | error (e : FrameErr)
  | unsupported

/-- the loop of `readMIMEHeader` (`first` = no line has been read yet). Fuel: the number of
    lines cannot exceed the number of bytes. End of input anywhere in the header block is `io.EOF`,
    which `MessageBuffer.Read` turns into `os.Exit(0)`. -/
def readHeaders : Nat → Bool → Bytes → HeadersRes
  | 0, _, _ => .unsupported
  | fuel + 1, first, input =>
    match input with
    | [] => .eof
    | b0 :: _ =>
      if first ∧ isBlank b0 then .error .malformedHeader       -- "malformed MIME header initial line"
      else match readLine input with
        | none => .eof
        | some (line, rest) =>
          if line = [] then .ok [] rest
          else match cutColon (trimBlanks line) with
            | none => .error .malformedHeader                  -- mustHaveFieldNameColon
            | some (k, v) =>
              if (rest.head?.map isBlank) = some true then .unsupported     -- continuation line
              else if k = [] ∨ !(k.all (fun c => isTokenByte c || c = SP)) then .error .malformedHeader
              else if !(v.all isValueByte) then .error .malformedHeader
              else
                match readHeaders fuel false rest with
                | .ok hs r => .ok ((k, v.dropWhile isBlank) :: hs) r
                | .eof => .eof
                | .error e => .error e
                | .unsupported => .unsupported

def isDigitByte (b : UInt8) : Bool := 48 ≤ b && b ≤ 57

def digitsValB (ds : Bytes) : Nat := ds.foldl (fun acc b => acc * 10 + (b.toNat - 48)) 0

/-- `strconv.ParseInt(s, 10, 0)` on a 64-bit platform: optional sign, digits, range check -/
def parseLength (s : Bytes) : Option Int :=
  let (neg, ds) := match s with
    | 45 :: t => (true, t)
    | 43 :: t => (false, t)
    | t => (false, t)
  if ds = [] ∨ !(ds.all isDigitByte) then none
  else
    let n := digitsValB ds
    if neg then (if n ≤ 2^63 then some (-(n : Int)) else none)
    else (if n < 2^63 then some (n : Int) else none)

/-- `MessageBuffer.Read` up to the JSON decoding of the body -/
def readFrame (input : Bytes) : ReadRes :=
  match readHeaders (input.length + 1) true input with
  | .eof => .eof
  | .error e => .error e
  | .unsupported => .unsupported
  | .ok hs rest =>
    match hs.find? (fun h => isContentLengthKey h.1) with
    | none => .error .badLength                                 -- ParseInt("")
    | some (_, v) =>
      match parseLength v with
      | none => .error .badLength
      | some n =>
        if n < 0 then .error .negativeLength
        else if rest.length < n.toNat then .error .unexpectedEOF
        else .ok (rest.take n.toNat) (rest.drop n.toNat)

/-- all the frames of an input, until it is exhausted (`none`: the reader fails or is not modelled) -/
def readFrames : Nat → Bytes → Option (List Bytes)
  | 0, _ => none
  | fuel + 1, input =>
    match readFrame input with
    | .eof => some []
    | .ok body rest => (readFrames fuel rest).map (body :: ·)
    | _ => none

/-! ### the loop of `RunServer`

`handler s body` is what `args.Handler` does with one request: the new state, the notifications it
sends while handling (each already a marshalled message) and the marshalled response. -/

structure Handled (σ : Type) where
  state : σ
  notifications : List Bytes
  response : Bytes

/-- bytes written to stdout: per request, its notifications then its response; stops at end of
    input (`none`: `Read` panics or the input is outside the modelled class). -/
def serverRun {σ : Type} (handler : σ → Bytes → Handled σ) : Nat → σ → Bytes → Option Bytes
  | 0, _, _ => none
  | fuel + 1, s, input =>
    match readFrame input with
    | .eof => some []
    | .ok body rest =>
      let h := handler s body
      (serverRun handler fuel h.state rest).map
        (fun out => (h.notifications.flatMap encodeFrame) ++ encodeFrame h.response ++ out)
    | _ => none

/-- what a client should see: the messages, in order -/
def serverSpec {σ : Type} (handler : σ → Bytes → Handled σ) : σ → List Bytes → List Bytes
  | _, [] => []
  | s, body :: rest =>
    let h := handler s body
    h.notifications ++ [h.response] ++ serverSpec handler h.state rest

end NS
