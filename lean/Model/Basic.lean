/-
  Model/Basic.lean — shared types of the model: outcome monad, AST (mirrors
  internal/parser/ast.go, with explicit `nil` constructors for the children the
  Go converter can leave nil), values, errors, postings.

  Core Lean only (no Mathlib) so that the driver links as a lean_exe.
-/

namespace NS

/-! ## Positions and ranges (internal/parser/range.go) -/

structure Pos where
  line : Nat
  char : Nat
  deriving Repr, DecidableEq, Inhabited

structure Range where
  s : Pos
  e : Pos
  deriving Repr, DecidableEq, Inhabited

def Range.zero : Range := ⟨⟨0, 0⟩, ⟨0, 0⟩⟩

/-! ## Values (internal/interpreter/value.go) -/

inductive Value where
  | str (s : String)
  | asset (s : String)
  | portion (q : Rat)
  | account (s : String)
  | number (n : Int)
  | monetary (asset : String) (amt : Int)
  deriving Repr, DecidableEq, Inhabited

/-- the `Type*` constants of internal/analysis/check.go -/
def Value.typeName : Value → String
  | .str _ => "string"
  | .asset _ => "asset"
  | .portion _ => "portion"
  | .account _ => "account"
  | .number _ => "number"
  | .monetary _ _ => "monetary"

/-! ## Errors (internal/interpreter/interpreter_error.go) -/

inductive Err where
  | missingFunds (asset : String) (needed available : Int)
  | invalidMonetaryLiteral (source : String)
  | invalidNumberLiteral (source : String)
  | metadataNotFound (account key : String)
  | typeError (expected : String) (got : Value)
  | unboundVariable (name : String)
  | badPortionParsing (reason : String)
  | missingVariable (name : String)
  | unboundFunction (name : String)
  | badArity (expected given : Nat)
  | invalidType (name : String)
  | negativeBalance (account : String) (amount : Int)
  | negativeAmount (amount : Int)
  | invalidAllotmentInSendAll
  | invalidUnboundedInSendAll (name : String)
  | mismatchedCurrency (expected got : String)
  | invalidAllotmentSum (sum : Rat)
  | queryBalance (msg : String)
  | queryMetadata (msg : String)
  | experimentalFeature (flag : String)
  | divideByZero (numerator : Nat)
  | invalidAccountName (name : String)
  deriving Repr, DecidableEq, Inhabited

/-- The constructor name only: what most properties talk about. -/
def Err.kind : Err → String
  | .missingFunds .. => "MissingFundsErr"
  | .invalidMonetaryLiteral .. => "InvalidMonetaryLiteral"
  | .invalidNumberLiteral .. => "InvalidNumberLiteral"
  | .metadataNotFound .. => "MetadataNotFound"
  | .typeError .. => "TypeError"
  | .unboundVariable .. => "UnboundVariableErr"
  | .badPortionParsing .. => "BadPortionParsingErr"
  | .missingVariable .. => "MissingVariableErr"
  | .unboundFunction .. => "UnboundFunctionErr"
  | .badArity .. => "BadArityErr"
  | .invalidType .. => "InvalidTypeErr"
  | .negativeBalance .. => "NegativeBalanceError"
  | .negativeAmount .. => "NegativeAmountErr"
  | .invalidAllotmentInSendAll => "InvalidAllotmentInSendAll"
  | .invalidUnboundedInSendAll .. => "InvalidUnboundedInSendAll"
  | .mismatchedCurrency .. => "MismatchedCurrencyError"
  | .invalidAllotmentSum .. => "InvalidAllotmentSum"
  | .queryBalance .. => "QueryBalanceError"
  | .queryMetadata .. => "QueryMetadataError"
  | .experimentalFeature .. => "ExperimentalFeature"
  | .divideByZero .. => "DivideByZero"
  | .invalidAccountName .. => "InvalidAccountName"

/-! ## Outcome: result, typed error, or a panic site of the Go code -/

inductive Outcome (α : Type) where
  | ok (a : α)
  | err (e : Err)
  | panic (site : String)
  deriving Repr

namespace Outcome

@[inline] def bind {α β : Type} (x : Outcome α) (f : α → Outcome β) : Outcome β :=
  match x with
  | .ok a => f a
  | .err e => .err e
  | .panic s => .panic s

instance : Monad Outcome where
  pure := .ok
  bind := bind

@[simp] theorem pure_eq {α} (a : α) : (pure a : Outcome α) = .ok a := rfl
@[simp] theorem ok_bind {α β} (a : α) (f : α → Outcome β) : (Outcome.ok a >>= f) = f a := rfl
@[simp] theorem err_bind {α β} (e : Err) (f : α → Outcome β) : (Outcome.err e >>= f) = .err e := rfl
@[simp] theorem panic_bind {α β} (s : String) (f : α → Outcome β) :
    (Outcome.panic s >>= f) = .panic s := rfl

def isOk {α} : Outcome α → Bool
  | .ok _ => true
  | _ => false

def isPanic {α} : Outcome α → Bool
  | .panic _ => true
  | _ => false

/-- If a bind is `ok`, both halves are. -/
theorem bind_eq_ok {α β} {x : Outcome α} {f : α → Outcome β} {b : β}
    (h : (x >>= f) = .ok b) : ∃ a, x = .ok a ∧ f a = .ok b := by
  cases x with
  | ok a => exact ⟨a, rfl, h⟩
  | err e => cases h
  | panic s => cases h

theorem bind_ne_panic {α β} {x : Outcome α} {f : α → Outcome β}
    (hx : ∀ s, x ≠ .panic s) (hf : ∀ a s, x = .ok a → f a ≠ .panic s) :
    ∀ s, (x >>= f) ≠ .panic s := by
  intro s
  cases x with
  | ok a => exact hf a s rfl
  | err e => intro h; cases h
  | panic s' => exact absurd rfl (hx s')

end Outcome

/-! ## AST (internal/parser/ast.go) -/

inductive InfixOp where
  | plus | minus
  deriving Repr, DecidableEq, Inhabited

/-- `parser.ValueExpr`. `nil` is the nil interface left by the fault-tolerant
    converter; `monetaryNil` is the typed nil `(*MonetaryLiteral)(nil)` that
    `parseMonetaryLit` can return inside a `ValueExpr`. -/
inductive Expr where
  | nil
  | monetaryNil
  | var (r : Range) (name : String)
  | asset (r : Range) (s : String)
  | account (r : Range) (s : String)
  | str (r : Range) (s : String)
  | number (r : Range) (n : Int)
  | ratio (r : Range) (num den : Nat)
  | monetary (r : Range) (asset amount : Expr)
  | infix (r : Range) (op : InfixOp) (l r' : Expr)
  deriving Repr, DecidableEq, Inhabited

def Expr.range : Expr → Range
  | .nil => Range.zero
  | .monetaryNil => Range.zero
  | .var r _ | .asset r _ | .account r _ | .str r _ | .number r _ | .ratio r _ _
  | .monetary r _ _ | .infix r _ _ _ => r

/-- `parser.AllotmentValue` -/
inductive AllotVal where
  | nil
  | remaining (r : Range)
  | portion (e : Expr)      -- a RatioLiteral or a Variable
  deriving Repr, DecidableEq, Inhabited

mutual
  /-- `parser.Source` -/
  inductive Source where
    | nil
    | account (e : Expr)
    | overdraft (r : Range) (addr : Expr) (bounded : Option Expr)
    | inorder (r : Range) (srcs : List Source)
    | capped (r : Range) (cap : Expr) (src : Source)
    | allotment (r : Range) (items : List SrcItem)
  inductive SrcItem where
    | mk (r : Range) (a : AllotVal) (src : Source)
end

mutual
  /-- `parser.Destination` -/
  inductive Dest where
    | nil
    | account (e : Expr)
    | inorder (r : Range) (clauses : List DestClause) (remaining : KoD)
    | allotment (r : Range) (items : List DestItem)
  /-- `parser.KeptOrDestination` -/
  inductive KoD where
    | nil
    | kept (r : Range)
    | to (d : Dest)
  inductive DestClause where
    | mk (r : Range) (cap : Expr) (to : KoD)
  inductive DestItem where
    | mk (r : Range) (a : AllotVal) (to : KoD)
end

inductive SentValue where
  | nil
  | lit (r : Range) (monetary : Expr)
  | all (r : Range) (asset : Expr)
  deriving Repr, Inhabited

structure FnCall where
  r : Range
  callerRange : Range
  name : String
  args : List Expr
  deriving Repr, Inhabited

inductive Statement where
  | nil
  | fnCallNil                      -- typed nil `(*FnCall)(nil)` as a Statement
  | send (r : Range) (sv : SentValue) (src : Source) (dst : Dest)
  | save (r : Range) (sv : SentValue) (amount : Expr)
  | fnCall (c : FnCall)

structure VarDecl where
  r : Range
  name : Option (Range × String)      -- *Variable (nil when the token is missing)
  type : Option (Range × String)      -- *TypeDecl
  origin : Option FnCall
  deriving Repr, Inhabited

structure Program where
  vars : List VarDecl
  stmts : List Statement

/-! ## Postings -/

structure Posting where
  source : String
  destination : String
  amount : Int
  asset : String
  deriving Repr, DecidableEq, Inhabited

def KEPT_ADDR : String := "<kept>"
def WORLD : String := "world"

end NS
