/-
  Model/Dest.lean — the destination side of a send: `receiveFrom`,
  `receiveFromKeptOrDest`, `pushReceiver` (internal/interpreter/interpreter.go).
-/
import Model.Source

namespace NS

abbrev Receivers := List (String × Int)    -- in push order

/-- `pushReceiver`: zero amounts are not queued -/
def pushReceiver (rcv : Receivers) (name : String) (amt : Int) : Receivers :=
  if amt = 0 then rcv else rcv ++ [(name, amt)]

def DestItem.allot : DestItem → AllotVal
  | .mk _ a _ => a

mutual
  /-- `receiveFrom` -/
  def receiveFrom (env : Env) : Dest → Int → Receivers → Outcome Receivers
    | .nil, _, _ => .panic "receiveFrom:nil destination"
    | .account e, amount, rcv =>
        match evalAs env.vars e expectAccount with
        | .panic s => .panic s
        | .err e => .err e
        | .ok account => .ok (pushReceiver rcv account amount)
    | .allotment _ items, amount, rcv =>
        match makeAllotment env.vars amount (items.map DestItem.allot) with
        | .panic s => .panic s
        | .err e => .err e
        | .ok parts => receiveAllotItems env items parts rcv
    | .inorder _ clauses remaining, amount, rcv =>
        match receiveClauses env clauses amount rcv with
        | .panic s => .panic s
        | .err e => .err e
        | .ok (left, rcv') =>
          -- handler(destination.Remaining, remainingAmountCopy)
          if left = 0 then .ok rcv' else receiveKoD env remaining left rcv'

  /-- `receiveFromKeptOrDest` -/
  def receiveKoD (env : Env) : KoD → Int → Receivers → Outcome Receivers
    | .nil, _, _ => .panic "receiveFromKeptOrDest:nil"
    | .kept _, amount, rcv => .ok (pushReceiver rcv KEPT_ADDR amount)
    | .to d, amount, rcv => receiveFrom env d amount rcv

  /-- the clause loop of the `DestinationInorder` case; returns `remainingAmount` -/
  def receiveClauses (env : Env) : List DestClause → Int → Receivers → Outcome (Int × Receivers)
    | [], left, rcv => .ok (left, rcv)
    | (.mk _ cap to) :: rest, left, rcv =>
        match evalAs env.vars cap (expectMonetaryOfAsset env.asset) with
        | .panic s => .panic s
        | .err e => .err e
        | .ok c =>
          -- "If the remaining amt is zero, let's ignore the posting": break
          if left = 0 then .ok (left, rcv)
          else
            -- a negative cap counts as zero; handler ignores a zero amount
            let amt := min (max 0 c) left
            if amt = 0 then receiveClauses env rest left rcv
            else
              match receiveKoD env to amt rcv with
              | .panic s => .panic s
              | .err e => .err e
              | .ok rcv' => receiveClauses env rest (left - amt) rcv'

  /-- the item loop of the `DestinationAllotment` case -/
  def receiveAllotItems (env : Env) : List DestItem → List Int → Receivers → Outcome Receivers
    | [], _, rcv => .ok rcv
    | _ :: _, [], _ => .panic "receiveFrom:allot index out of range"
    | (.mk _ _ to) :: rest, p :: ps, rcv =>
        match receiveKoD env to p rcv with
        | .panic s => .panic s
        | .err e => .err e
        | .ok rcv' => receiveAllotItems env rest ps rcv'
end

end NS
