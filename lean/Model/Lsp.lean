/-
  Model/Lsp.lean — the document store of internal/lsp/handlers.go as a state
  machine.  The text of a document enters the model already parsed (the ANTLR
  parser is not modelled): an open/change request carries the syntax tree and
  the parse errors the real parser produced for the new text.
-/
import Model.Nav

namespace NS

/-- what the server keeps per document: the tree and the check result (`InMemoryDocument`) -/
structure Doc where
  prog : Program
  st : CState

abbrev LspState := List (String × Doc)       -- `State.documents`, newest binding first

inductive Req where
  | didOpen (uri : String) (prog : Program) (pd : List Diag)
  | didChange (uri : String) (prog : Program) (pd : List Diag)
  | hover (uri : String) (pos : Pos)
  | definition (uri : String) (pos : Pos)
  | symbols (uri : String)

inductive Resp where
  | null
  | published (uri : String) (diags : List Diag)       -- didOpen/didChange: result null + publishDiagnostics
  | hover (text : String) (r : Range)
  | location (uri : String) (r : Range)
  | symbols (l : List (String × String × Range))

def lookupDoc (s : LspState) (uri : String) : Option Doc :=
  (s.find? (fun p => p.1 == uri)).map (·.2)

/-- `updateDocument` -/
def updateDocument (s : LspState) (uri : String) (prog : Program) (pd : List Diag) : Outcome (LspState × Resp) :=
  match checkProgram pd prog with
  | .panic x => .panic x
  | .err e => .err e
  | .ok st => .ok ((uri, ⟨prog, st⟩) :: s, .published uri st.diags)

/-- `Handle` -/
def lspStep (s : LspState) : Req → Outcome (LspState × Resp)
  | .didOpen uri prog pd => updateDocument s uri prog pd
  | .didChange uri prog pd => updateDocument s uri prog pd
  | .hover uri pos =>
      match lookupDoc s uri with
      | none => .ok (s, .null)
      | some d =>
        match lspHover d.prog d.st pos with
        | .panic x => .panic x
        | .err e => .err e
        | .ok none => .ok (s, .null)
        | .ok (some (t, r)) => .ok (s, .hover t r)
  | .definition uri pos =>
      match lookupDoc s uri with
      | none => .ok (s, .null)
      | some d =>
        match gotoDefinition d.prog d.st pos with
        | .panic x => .panic x
        | .err e => .err e
        | .ok none => .ok (s, .null)
        | .ok (some r) => .ok (s, .location uri r)
  | .symbols uri =>
      match lookupDoc s uri with
      | none => .ok (s, .null)
      | some d =>
        match getSymbols d.st with
        | .panic x => .panic x
        | .err e => .err e
        | .ok l => .ok (s, .symbols l)

/-- run a history from a state; responses in order -/
def lspRun (s : LspState) : List Req → Outcome (LspState × List Resp)
  | [] => .ok (s, [])
  | r :: rs =>
      match lspStep s r with
      | .panic x => .panic x
      | .err e => .err e
      | .ok (s1, resp) =>
        match lspRun s1 rs with
        | .panic x => .panic x
        | .err e => .err e
        | .ok (s2, resps) => .ok (s2, resp :: resps)

end NS
