/-
  Model/Allot.lean — `makeAllotment` (internal/interpreter/interpreter.go).
-/
import Model.Eval

namespace NS

/-- The leftover loop: add one unit to the leading parts while `left > 0`. -/
def bump : List Int → Int → List Int
  | [], _ => []
  | x :: xs, left => if left ≤ 0 then x :: xs else (x + 1) :: bump xs (left - 1)

def floorShare (n : Int) (p : Rat) : Int := (p * (n : Rat)).floor

/-- floor shares, then leftover units to the earliest clauses -/
def allotParts (n : Int) (ps : List Rat) : List Int :=
  let floors := ps.map (floorShare n)
  bump floors (n - floors.sum)

/-- Evaluate the clauses: `none` stands for a `remaining` clause. -/
def evalAllotItems (vars : Vars) : List AllotVal → Outcome (List (Option Rat))
  | [] => .ok []
  | .nil :: _ => .panic "makeAllotment:nil allotment (index out of range)"
  | .remaining _ :: rest => do
      let tl ← evalAllotItems vars rest
      pure (none :: tl)
  | .portion e :: rest => do
      let q ← evalAs vars e expectPortion
      let tl ← evalAllotItems vars rest
      pure (some q :: tl)

def sumSome : List (Option Rat) → Rat
  | [] => 0
  | none :: t => sumSome t
  | some q :: t => q + sumSome t

/-- Go keeps the index of the *last* `remaining` clause; earlier ones stay at 0. -/
def fillRemaining (rem : Rat) : List (Option Rat) → List Rat
  | [] => []
  | some q :: t => q :: fillRemaining rem t
  | none :: t => (if t.any Option.isNone then 0 else rem) :: fillRemaining rem t

def makeAllotment (vars : Vars) (monetary : Int) (items : List AllotVal) : Outcome (List Int) := do
  let qs ← evalAllotItems vars items
  let total := sumSome qs
  if qs.any Option.isNone then
    if total > 1 then .err (.invalidAllotmentSum total)
    else pure (allotParts monetary (fillRemaining (1 - total) qs))
  else if total ≠ 1 then .err (.invalidAllotmentSum total)
  else pure (allotParts monetary (fillRemaining 0 qs))

end NS
