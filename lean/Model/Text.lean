/-
  Model/Text.lean — text ⇄ value: decimal numerals, `parseMonetary`, `parseVar`,
  `ParsePortionSpecific` (with hand-written matchers for its two regular
  expressions), `ParsePercentageRatio`/`parseRatio` (the literal converters of
  internal/parser/parser.go) and the `String()` renderings of value.go.
-/
import Model.Eval

namespace NS

/-! ### decimal numerals -/

def isDigit (c : Char) : Bool := '0' ≤ c && c ≤ '9'

def digitVal (c : Char) : Nat := c.toNat - '0'.toNat

/-- positional value (base ten) of a list of digit characters, most significant first -/
def digitsVal (ds : List Char) : Nat := ds.foldl (fun acc c => acc * 10 + digitVal c) 0

/-- `[0-9]+` read in base ten -/
def parseNat? (cs : List Char) : Option Nat :=
  if cs ≠ [] ∧ cs.all isDigit then some (digitsVal cs) else none

/-- `big.Int.SetString(s, 10)`: optional sign, then `[0-9]+` -/
def parseInt? (s : String) : Option Int :=
  match s.toList with
  | '-' :: ds => (parseNat? ds).map (fun n => - (n : Int))
  | '+' :: ds => (parseNat? ds).map (fun n => (n : Int))
  | ds => (parseNat? ds).map (fun n => (n : Int))

/-- `strings.Split(s, " ")` -/
def splitOnSpace (cs : List Char) : List (List Char) :=
  let rec go (cur : List Char) : List Char → List (List Char)
    | [] => [cur.reverse]
    | c :: t => if c = ' ' then cur.reverse :: go [] t else go (c :: cur) t
  go [] cs

/-- `parseMonetary` -/
def parseMonetary (source : String) : Outcome Value :=
  match splitOnSpace source.toList with
  | [asset, rawAmount] =>
      match parseInt? (String.ofList rawAmount) with
      | some n => .ok (.monetary (String.ofList asset) n)
      | none => .err (.invalidNumberLiteral (String.ofList rawAmount))
  | _ => .err (.invalidMonetaryLiteral source)

/-! ### account names: `^[a-zA-Z0-9_-]+(:[a-zA-Z0-9_-]+)*$` -/

def isAccountChar (c : Char) : Bool :=
  ('a' ≤ c && c ≤ 'z') || ('A' ≤ c && c ≤ 'Z') || ('0' ≤ c && c ≤ '9') || c = '_' || c = '-'

/-- segments separated by ':' , each non-empty and made of account characters -/
def validAccountChars : List Char → Bool
  | [] => false
  | cs =>
    let rec go (segLen : Nat) : List Char → Bool
      | [] => segLen > 0
      | c :: t =>
        if c = ':' then segLen > 0 && go 0 t
        else isAccountChar c && go (segLen + 1) t
    go 0 cs

def validAccountName (s : String) : Bool := validAccountChars s.toList

/-! ### portions -/

def pow10 (k : Nat) : Nat := 10 ^ k

/-- exact value of `integral[.fractional]%` -/
def percentValue (integral fractional : List Char) : Rat :=
  mkRat (digitsVal (integral ++ fractional)) (pow10 (2 + fractional.length))

/-- `^([0-9]+)(?:[.]([0-9]+))?[%]$` : returns the two captured groups -/
def matchPercent (cs : List Char) : Option (List Char × List Char) :=
  let integral := cs.takeWhile isDigit
  let rest := cs.dropWhile isDigit
  if integral = [] then none
  else match rest with
    | ['%'] => some (integral, [])
    | '.' :: rest' =>
        let frac := rest'.takeWhile isDigit
        let rest'' := rest'.dropWhile isDigit
        if frac = [] then none
        else if rest'' = ['%'] then some (integral, frac) else none
    | _ => none

/-- Go's `\s` (RE2, ASCII): `[\t\n\f\r ]` -/
def isReSpace (c : Char) : Bool :=
  c = ' ' || c = '\t' || c = '\n' || c = '\r' || c = Char.ofNat 12

def dropOneSpace : List Char → List Char
  | c :: t => if isReSpace c then t else c :: t
  | [] => []

/-- `^([0-9]+)\s?[/]\s?([0-9]+)$` -/
def matchFraction (cs : List Char) : Option (List Char × List Char) :=
  let num := cs.takeWhile isDigit
  let rest := cs.dropWhile isDigit
  if num = [] then none
  else match dropOneSpace rest with
    | '/' :: rest' =>
        let rest'' := dropOneSpace rest'
        if rest'' ≠ [] ∧ rest''.all isDigit then some (num, rest'') else none
    | _ => none

/-- the regex `\s?` is greedy but may also match nothing: when `rest` starts
    with a space and the character after it is not '/', the match without
    consuming cannot succeed either (a space is not '/'), so one deterministic
    attempt is enough.  Same for the second `\s?` (a space is not a digit). -/
def ParsePortionSpecific (input : String) : Outcome Rat :=
  let cs := input.toList
  let res : Outcome (Option Rat) :=
    match matchPercent cs with
    | some (i, f) => .ok (some (percentValue i f))
    | none =>
      match matchFraction cs with
      | some (n, d) =>
          if digitsVal d = 0 then .err (.badPortionParsing "invalid fractional format")
          else .ok (some (mkRat (digitsVal n) (digitsVal d)))
      | none => .ok none
  match res with
  | .panic s => .panic s
  | .err e => .err e
  | .ok none => .err (.badPortionParsing "invalid format")
  | .ok (some q) =>
      if q < 0 ∨ q > 1 then
        .err (.badPortionParsing "portion must be between 0% and 100% inclusive")
      else .ok q

/-- `parseVar` -/
def parseVar (type_ : String) (rawValue : String) : Outcome Value :=
  if type_ = "monetary" then parseMonetary rawValue
  else if type_ = "account" then
    if validAccountName rawValue then .ok (.account rawValue)
    else .err (.invalidAccountName rawValue)
  else if type_ = "portion" then
    match ParsePortionSpecific rawValue with
    | .ok q => .ok (.portion q)
    | .err e => .err e
    | .panic s => .panic s
  else if type_ = "asset" then .ok (.asset rawValue)
  else if type_ = "number" then
    match parseInt? rawValue with
    | some n => .ok (.number n)
    | none => .err (.invalidNumberLiteral rawValue)
  else if type_ = "string" then .ok (.str rawValue)
  else .err (.invalidType type_)

/-! ### literal converters of the parser (token text → numerator/denominator) -/

/-- `ParsePercentageRatio` on the text of a PERCENTAGE_PORTION_LITERAL token -/
def percentLiteral (text : List Char) : Option (Nat × Nat) :=
  match matchPercent text with
  | some (i, f) => some (digitsVal (i ++ f), pow10 (2 + f.length))
  | none => none

/-- `parseRatio` on the text of a RATIO_PORTION_LITERAL token
    (`[0-9]+ [ ]? '/' [ ]? [0-9]+`): split on '/', trim, base-10 -/
def ratioLiteral (text : List Char) : Option (Nat × Nat) :=
  let num := text.takeWhile isDigit
  let rest := text.dropWhile isDigit
  let rest := match rest with | ' ' :: t => t | r => r
  match rest with
  | '/' :: t =>
      let t := match t with | ' ' :: t' => t' | r => r
      if num ≠ [] ∧ t ≠ [] ∧ t.all isDigit then some (digitsVal num, digitsVal t) else none
  | _ => none

/-! ### renderings (`String()` of value.go) -/

def renderRat (q : Rat) : String := s!"{q.num}/{q.den}"

def Value.render : Value → String
  | .str s => s
  | .asset s => s
  | .account s => s
  | .number n => toString n
  | .monetary a n => a ++ " " ++ toString n
  | .portion q => renderRat q

end NS
