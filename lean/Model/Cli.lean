/-
  Model/Cli.lean — exit status of `numscript check` (internal/cmd/check.go: check).
  The operating system keeps only the low 8 bits of the value passed to os.Exit.
-/
import Model.Check

namespace NS

/-- what a parent process observes of an exit status -/
def exitByte (n : Nat) : Nat := n % 256

/-- check(): `if errorsCount != 0 { … os.Exit(1) }`, falling through to a normal return (status 0) -/
def cliCheckExit (ds : List Diag) : Nat := if errorCount ds ≠ 0 then 1 else 0

end NS
