/-
  Model/CliRun.lean — what `numscript run` writes and how it exits (internal/cmd/run.go: run, showJson), given what
  the library computed for the script: parse errors, an execution error (message, range) or a result (its JSON
  encoding is an input: encoding/json is not modelled).
-/
import Model.Show

namespace NS

inductive RunOutcome where
  | parseErrors (errs : List (String × Range))        -- message, range
  | failed (msg : String) (range : Range)              -- `err.Error()`, `err.GetRange()`
  | ok (json : String)                                 -- `json.Marshal(result)`

/-- `parser.ParseErrorsToString` -/
def parseErrorsToString (source : List Char) : List (String × Range) → Outcome String
  | [] => .ok ""
  | (msg, r) :: rest =>
    match showOnSource r source, parseErrorsToString source rest with
    | .ok shown, .ok tail => .ok (msg ++ "\n" ++ shown ++ "\n" ++ tail)
    | .panic s, _ => .panic s
    | .err e, _ => .err e
    | _, .panic s => .panic s
    | _, .err e => .err e

structure CliOut where
  stdout : String
  stderr : String
  exit : Nat
  deriving DecidableEq, Repr

/-- `run` in JSON mode, after the inputs have been gathered -/
def cliRun (source : List Char) : RunOutcome → Outcome CliOut
  | .parseErrors errs =>
      if errs = [] then .ok ⟨"", "", 0⟩       -- not reachable: `len(parseResult.Errors) != 0` guards this branch
      else match parseErrorsToString source errs with
        | .ok s => .ok ⟨"", "Got errors while parsing:\n" ++ s, 1⟩
        | .panic s => .panic s
        | .err e => .err e
  | .failed msg r =>
      if r.s ≠ r.e then
        match showOnSource r source with
        | .ok shown => .ok ⟨"", msg ++ "\n" ++ shown, 1⟩
        | .panic s => .panic s
        | .err e => .err e
      else .ok ⟨"", msg, 1⟩
  | .ok json => .ok ⟨json, "", 0⟩

end NS
