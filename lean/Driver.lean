/-
  Driver.lean — line-protocol driver for the executable model (lean_exe `nsdriver`).
  One case per input line (TAB-separated fields), one result per output line.
  Not part of any theorem: this file only parses inputs, calls the Model
  definitions and prints their results.
-/
import Model

open NS

/-! ## string encoding shared with the Go harness (`enc` in sexp.go) -/

def safeChar (c : Char) : Bool :=
  ('a' ≤ c && c ≤ 'z') || ('A' ≤ c && c ≤ 'Z') || ('0' ≤ c && c ≤ '9') ||
  c = '_' || c = '.' || c = '/' || c = ':' || c = '-'

def hexDigit (n : Nat) : Char :=
  if n < 10 then Char.ofNat ('0'.toNat + n) else Char.ofNat ('a'.toNat + n - 10)

def encStr (s : String) : String :=
  if s.toList.all safeChar then "'" ++ s
  else
    let bytes := s.toUTF8.toList
    "%" ++ String.ofList (bytes.flatMap (fun b => [hexDigit (b.toNat / 16), hexDigit (b.toNat % 16)]))

def hexVal (c : Char) : Nat :=
  if '0' ≤ c && c ≤ '9' then c.toNat - '0'.toNat
  else if 'a' ≤ c && c ≤ 'f' then c.toNat - 'a'.toNat + 10
  else if 'A' ≤ c && c ≤ 'F' then c.toNat - 'A'.toNat + 10
  else 0

def hexBytes : List Char → List UInt8
  | a :: b :: t => UInt8.ofNat (hexVal a * 16 + hexVal b) :: hexBytes t
  | _ => []

def decStr (tok : String) : Except String String :=
  match tok.toList with
  | '\'' :: rest => .ok (String.ofList rest)
  | '%' :: rest =>
      let ba := ByteArray.mk (hexBytes rest).toArray
      match String.fromUTF8? ba with
      | some s => .ok s
      | none => .error "invalid utf8"
  | _ => .error s!"bad string token {tok}"

def parseIntTok (tok : String) : Except String Int :=
  match tok.toInt? with
  | some n => .ok n
  | none => .error s!"bad int {tok}"

def parseNatTok (tok : String) : Except String Nat :=
  match tok.toNat? with
  | some n => .ok n
  | none => .error s!"bad nat {tok}"

/-! ## S-expressions -/

inductive Sexp where
  | atom (s : String)
  | list (l : List Sexp)
  deriving Inhabited

def tokenize (s : String) : List String :=
  let rec go (cs : List Char) (cur : List Char) (acc : List String) : List String :=
    let flush (acc : List String) := if cur.isEmpty then acc else String.ofList cur.reverse :: acc
    match cs with
    | [] => (flush acc).reverse
    | c :: t =>
      if c = '(' then go t [] ("(" :: flush acc)
      else if c = ')' then go t [] (")" :: flush acc)
      else if c = ' ' then go t [] (flush acc)
      else go t (c :: cur) acc
  go s.toList [] []

partial def parseSexps (toks : List String) (acc : List Sexp) : Except String (List Sexp × List String) :=
  match toks with
  | [] => .ok (acc.reverse, [])
  | ")" :: rest => .ok (acc.reverse, ")" :: rest)
  | "(" :: rest => do
      let (items, rest') ← parseSexps rest []
      match rest' with
      | ")" :: rest'' => parseSexps rest'' (Sexp.list items :: acc)
      | _ => .error "missing )"
  | a :: rest => parseSexps rest (Sexp.atom a :: acc)

def parseSexp (s : String) : Except String Sexp := do
  let (items, rest) ← parseSexps (tokenize s) []
  match items, rest with
  | [x], [] => .ok x
  | _, _ => .error "expected exactly one s-expression"

/-! ## S-expression → AST -/

def parsePos (s : String) : Except String Pos :=
  match s.splitOn ":" with
  | [l, c] => do .ok ⟨← parseNatTok l, ← parseNatTok c⟩
  | _ => .error s!"bad pos {s}"

def parseRange (s : String) : Except String Range :=
  match s.splitOn "-" with
  | [a, b] => do .ok ⟨← parsePos a, ← parsePos b⟩
  | _ => .error s!"bad range {s}"

partial def toExpr : Sexp → Except String Expr
  | .atom "nil" => .ok .nil
  | .atom "monnil" => .ok .monetaryNil
  | .list [.atom "var", .atom r, .atom n] => do .ok (.var (← parseRange r) (← decStr n))
  | .list [.atom "asset", .atom r, .atom n] => do .ok (.asset (← parseRange r) (← decStr n))
  | .list [.atom "acct", .atom r, .atom n] => do .ok (.account (← parseRange r) (← decStr n))
  | .list [.atom "str", .atom r, .atom n] => do .ok (.str (← parseRange r) (← decStr n))
  | .list [.atom "num", .atom r, .atom n] => do .ok (.number (← parseRange r) (← parseIntTok n))
  | .list [.atom "ratio", .atom r, .atom n, .atom d] => do
      .ok (.ratio (← parseRange r) (← parseNatTok n) (← parseNatTok d))
  | .list [.atom "mon", .atom r, a, b] => do .ok (.monetary (← parseRange r) (← toExpr a) (← toExpr b))
  | .list [.atom "infix", .atom r, .atom op, a, b] => do
      let o ← (if op = "+" then .ok InfixOp.plus else if op = "-" then .ok InfixOp.minus
               else .error s!"bad op {op}")
      .ok (.infix (← parseRange r) o (← toExpr a) (← toExpr b))
  | _ => .error "bad expr"

def toAllot : Sexp → Except String AllotVal
  | .atom "nil" => .ok .nil
  | .list [.atom "rem", .atom r] => do .ok (.remaining (← parseRange r))
  | .list [.atom "por", e] => do .ok (.portion (← toExpr e))
  | _ => .error "bad allotment"

partial def toSource : Sexp → Except String Source
  | .atom "nil" => .ok .nil
  | .list [.atom "sacct", e] => do .ok (.account (← toExpr e))
  | .list [.atom "sover", .atom r, e] => do .ok (.overdraft (← parseRange r) (← toExpr e) none)
  | .list [.atom "sover", .atom r, e, b] => do
      .ok (.overdraft (← parseRange r) (← toExpr e) (some (← toExpr b)))
  | .list (.atom "sin" :: .atom r :: srcs) => do
      .ok (.inorder (← parseRange r) (← srcs.mapM toSource))
  | .list [.atom "scap", .atom r, cap, s] => do
      .ok (.capped (← parseRange r) (← toExpr cap) (← toSource s))
  | .list (.atom "sallot" :: .atom r :: items) => do
      let its ← items.mapM (fun it => match it with
        | .list [.atom "item", .atom ir, a, s] => do
            .ok (SrcItem.mk (← parseRange ir) (← toAllot a) (← toSource s))
        | _ => .error "bad src item")
      .ok (.allotment (← parseRange r) its)
  | _ => .error "bad source"

mutual
  partial def toDest : Sexp → Except String Dest
    | .atom "nil" => .ok .nil
    | .list [.atom "dacct", e] => do .ok (.account (← toExpr e))
    | .list (.atom "din" :: .atom r :: rem :: clauses) => do
        let cls ← clauses.mapM (fun c => match c with
          | .list [.atom "clause", .atom cr, cap, k] => do
              .ok (DestClause.mk (← parseRange cr) (← toExpr cap) (← toKoD k))
          | _ => .error "bad clause")
        .ok (.inorder (← parseRange r) cls (← toKoD rem))
    | .list (.atom "dallot" :: .atom r :: items) => do
        let its ← items.mapM (fun it => match it with
          | .list [.atom "item", .atom ir, a, k] => do
              .ok (DestItem.mk (← parseRange ir) (← toAllot a) (← toKoD k))
          | _ => .error "bad dest item")
        .ok (.allotment (← parseRange r) its)
    | _ => .error "bad destination"
  partial def toKoD : Sexp → Except String KoD
    | .atom "nil" => .ok .nil
    | .list [.atom "kept", .atom r] => do .ok (.kept (← parseRange r))
    | .list [.atom "to", d] => do .ok (.to (← toDest d))
    | _ => .error "bad keptOrDest"
end

def toSentValue : Sexp → Except String SentValue
  | .atom "nil" => .ok .nil
  | .list [.atom "lit", .atom r, e] => do .ok (.lit (← parseRange r) (← toExpr e))
  | .list [.atom "all", .atom r, e] => do .ok (.all (← parseRange r) (← toExpr e))
  | _ => .error "bad sent value"

def toFnCall : Sexp → Except String FnCall
  | .list (.atom "call" :: .atom r :: .atom cr :: .atom name :: args) => do
      .ok ⟨← parseRange r, ← parseRange cr, ← decStr name, ← args.mapM toExpr⟩
  | _ => .error "bad call"

def toStatement : Sexp → Except String Statement
  | .atom "nil" => .ok .nil
  | .atom "callnil" => .ok .fnCallNil
  | .list [.atom "send", .atom r, sv, s, d] => do
      .ok (.send (← parseRange r) (← toSentValue sv) (← toSource s) (← toDest d))
  | .list [.atom "save", .atom r, sv, e] => do
      .ok (.save (← parseRange r) (← toSentValue sv) (← toExpr e))
  | s => do .ok (.fnCall (← toFnCall s))

def toVarDecl : Sexp → Except String VarDecl
  | .list [.atom "decl", .atom r, name, ty, origin] => do
      let n ← (match name with
        | .atom "nil" => .ok none
        | .list [.atom "name", .atom nr, .atom s] => do .ok (some (← parseRange nr, ← decStr s))
        | _ => .error "bad decl name")
      let t ← (match ty with
        | .atom "nil" => .ok none
        | .list [.atom "type", .atom tr, .atom s] => do .ok (some (← parseRange tr, ← decStr s))
        | _ => .error "bad decl type")
      let o ← (match origin with
        | .atom "nil" => .ok none
        | s => do .ok (some (← toFnCall s)))
      .ok ⟨← parseRange r, n, t, o⟩
  | _ => .error "bad decl"

def toProgram : Sexp → Except String Program
  | .list [.atom "prog", .list (.atom "vars" :: decls), .list (.atom "stmts" :: stmts)] => do
      .ok ⟨← decls.mapM toVarDecl, ← stmts.mapM toStatement⟩
  | _ => .error "bad program"

/-! ## stores -/

def contentGet (content : BalanceAnswer) (a c : String) : Option Int :=
  (content.find? (fun p => p.1 == (a, c))).map (·.2)

def mkStore (policy : String) (content : BalanceAnswer) (meta_ : MetaAnswer) (failAt : Int) : Store :=
  { getBalances := fun idx q =>
      if (idx : Int) = failAt then .error s!"injected-fault-{idx}"
      else if policy = "exact" then
        .ok (q.flatMap (fun p => p.2.map (fun c => ((p.1, c), (contentGet content p.1 c).getD 0))))
      else if policy = "sparse" then
        .ok (q.flatMap (fun p => p.2.filterMap (fun c =>
          match contentGet content p.1 c with
          | some v => if v = 0 then none else some ((p.1, c), v)
          | none => none)))
      else .ok content
    getMeta := fun idx a k =>
      if (idx : Int) = failAt then .error s!"injected-fault-{idx}"
      else if policy = "exact" ∨ policy = "sparse" then
        .ok (meta_.filter (fun p => p.1 == (a, k)))
      else .ok meta_ }

/-! ## output -/

def showPostings (ps : List Posting) : String :=
  " ".intercalate (ps.map (fun p => s!"{encStr p.source} {encStr p.destination} {p.amount} {encStr p.asset}"))

def errPayload : Err → List String
  | .missingFunds a n av => [a, toString n, toString av]
  | .invalidMonetaryLiteral s => [s]
  | .invalidNumberLiteral s => [s]
  | .metadataNotFound a k => [a, k]
  | .typeError e v => [e, v.render]
  | .unboundVariable n => [n]
  | .badPortionParsing r => [r]
  | .missingVariable n => [n]
  | .unboundFunction n => [n]
  | .badArity e g => [toString e, toString g]
  | .invalidType n => [n]
  | .negativeBalance a n => [a, toString n]
  | .negativeAmount n => [toString n]
  | .invalidAllotmentInSendAll => []
  | .invalidUnboundedInSendAll n => [n]
  | .mismatchedCurrency e g => [e, g]
  | .invalidAllotmentSum q => [renderRat q]
  | .queryBalance m => [m]
  | .queryMetadata m => [m]
  | .experimentalFeature f => [f]
  | .divideByZero n => [toString n]
  | .invalidAccountName n => [n]

def showErr (e : Err) : String :=
  e.kind ++ "\t" ++ " ".intercalate ((errPayload e).map encStr)

def showCall : StoreCall → String
  | .balances q =>
      "B " ++ ",".intercalate (q.map (fun p => encStr p.1 ++ "=" ++ "+".intercalate (p.2.map encStr)))
  | .metadata a k => s!"M {encStr a} {encStr k}"

/-! ## commands -/

def triples (toks : List String) : List (String × String × String) :=
  match toks with
  | a :: b :: c :: t => (a, b, c) :: triples t
  | _ => []

def pairs (toks : List String) : List (String × String) :=
  match toks with
  | a :: b :: t => (a, b) :: pairs t
  | _ => []

def words (s : String) : List String := (s.splitOn " ").filter (· ≠ "")

def cmdExec (fields : List String) : Except String String :=
  match fields with
  | [ast, vars, bal, meta_, policy, failAt, flags] => do
      let prog ← toProgram (← parseSexp ast)
      let rawVars ← (pairs (words vars)).mapM (fun p => do .ok (← decStr p.1, ← decStr p.2))
      let content ← (triples (words bal)).mapM (fun t => do
        .ok (((← decStr t.1), (← decStr t.2.1)), (← parseIntTok t.2.2)))
      let metas ← (triples (words meta_)).mapM (fun t => do
        .ok (((← decStr t.1), (← decStr t.2.1)), (← decStr t.2.2)))
      let fa ← parseIntTok failAt
      let store := mkStore policy content metas fa
      match RunProgram prog rawVars store ((words flags).contains FLAG_OVERDRAFT) with
      | .panic s => .ok s!"panic\t{encStr s}"
      | .err e => .ok s!"err\t{showErr e}"
      | .ok res =>
          let tx := " ".intercalate (res.txMeta.map (fun p => s!"{encStr p.1} {p.2.typeName} {encStr p.2.render}"))
          let am := " ".intercalate (res.accMeta.map (fun p => s!"{encStr p.1.1} {encStr p.1.2} {encStr p.2}"))
          let qs := ";".intercalate (res.log.map showCall)
          .ok s!"ok\t{showPostings res.postings}\t{tx}\t{am}\t{qs}"
  | _ => .error "exec: expected 7 fields"

def cmdReconcile (fields : List String) : Except String String :=
  match fields with
  | [asset, snd, rcv] => do
      let s ← (pairs (words snd)).mapM (fun p => do .ok (← decStr p.1, ← parseIntTok p.2))
      let r ← (pairs (words rcv)).mapM (fun p => do .ok (← decStr p.1, ← parseIntTok p.2))
      .ok s!"ok\t{showPostings (Reconcile (← decStr asset) s r)}"
  | _ => .error "reconcile: expected 3 fields"

def cmdParseVar (fields : List String) : Except String String :=
  match fields with
  | [ty, text] => do
      match parseVar (← decStr ty) (← decStr text) with
      | .panic s => .ok s!"panic\t{encStr s}"
      | .err e => .ok s!"err\t{showErr e}"
      | .ok v => .ok s!"ok\t{v.typeName}\t{encStr v.render}"
  | _ => .error "parsevar: expected 2 fields"

def cmdPortionLit (fields : List String) : Except String String :=
  match fields with
  | [text] => do
      let t ← decStr text
      let r := match percentLiteral t.toList with
        | some x => some x
        | none => ratioLiteral t.toList
      match r with
      | some (n, d) => .ok s!"ok\t{n}\t{d}"
      | none => .ok "nomatch"
  | _ => .error "portionlit: expected 1 field"

def cmdAllot (fields : List String) : Except String String :=
  match fields with
  | [n, ps] => do
      let amount ← parseIntTok n
      let qs ← (pairs (words ps)).mapM (fun p => do .ok (mkRat (← parseIntTok p.1) (← parseNatTok p.2)))
      .ok ("ok\t" ++ " ".intercalate ((allotParts amount qs).map toString))
  | _ => .error "allot: expected 2 fields"


/-! ## static analysis commands -/

def showRange (r : Range) : String := s!"{r.s.line}:{r.s.char}-{r.e.line}:{r.e.char}"

def diagPayload : DiagKind → List String
  | .parsing m => [m]
  | .invalidType n => [n]
  | .duplicateVariable n => [n]
  | .unboundVariable n => [n]
  | .unusedVar n => [n]
  | .typeMismatch e g => [e, g]
  | .badAllotmentSum q => [renderRat q]
  | .fixedPortionVariable q => [renderRat q]
  | .unknownFunction n => [n]
  | .badArity e a => [toString e, toString a]
  | .emptiedAccount n => [n]
  | _ => []

def showDiag (d : Diag) : String :=
  " ".intercalate ([d.kind.name, toString d.kind.severity, showRange d.range] ++ (diagPayload d.kind).map encStr)

def parsePosTok (s : String) : Except String Pos := parsePos s

def cmdAnalyze (fields : List String) : Except String String :=
  match fields with
  | [ast, perrs, positions] => do
      let prog ← toProgram (← parseSexp ast)
      let pd ← (pairs (words perrs)).mapM (fun p => do
        .ok (Diag.mk (← parseRange p.1) (.parsing (← decStr p.2))))
      let poss ← (words positions).mapM parsePosTok
      match checkProgram pd prog with
      | .panic s => .ok s!"panic\t{encStr s}"
      | .err e => .ok s!"err\t{showErr e}"
      | .ok st =>
          let diags := ";".intercalate (st.diags.map showDiag)
          let syms := match getSymbols st with
            | .ok l => "ok " ++ ";".intercalate (l.map (fun (x : String × String × Range) => s!"{encStr x.1} {encStr x.2.1} {showRange x.2.2}"))
            | .panic s => "panic " ++ encStr s
            | .err _ => "err"
          let hovers := poss.map (fun pos =>
            let h := match hoverOn prog pos with
              | .ok none => "none"
              | .ok (some (.variable r n)) => s!"var {showRange r} {encStr n}"
              | .ok (some (.builtinFn r fn)) => s!"fn {showRange r} {encStr fn.name}"
              | .panic s => "panic " ++ encStr s
              | .err _ => "err"
            let g := match gotoDefinition prog st pos with
              | .ok none => "none"
              | .ok (some r) => showRange r
              | .panic s => "panic " ++ encStr s
              | .err _ => "err"
            let l := match lspHover prog st pos with
              | .ok none => "none"
              | .ok (some (t, r)) => s!"{encStr t} {showRange r}"
              | .panic s => "panic " ++ encStr s
              | .err _ => "err"
            s!"{h}|{g}|{l}")
          .ok s!"ok\t{diags}\t{syms}\t{";".intercalate hovers}\t{errorCount st.diags}"
  | _ => .error "analyze: expected 3 fields"


def cmdShow (fields : List String) : Except String String :=
  match fields with
  | [text, r] => do
      let t ← decStr text
      let rg ← parseRange r
      match showOnSource rg t.toList with
      | .ok out => .ok s!"ok\t{encStr out}"
      | .panic s => .ok s!"panic\t{encStr s}"
      | .err _ => .ok "err"
  | _ => .error "show: expected 2 fields"

/-! ## serialisation of a model AST in the harness's S-expression format (sexp.go) -/

def showR (r : Range) : String := s!"{r.s.line}:{r.s.char}-{r.e.line}:{r.e.char}"

partial def serExpr : Expr → String
  | .nil => "nil"
  | .monetaryNil => "monnil"
  | .var r n => s!"(var {showR r} {encStr n})"
  | .asset r n => s!"(asset {showR r} {encStr n})"
  | .account r n => s!"(acct {showR r} {encStr n})"
  | .str r n => s!"(str {showR r} {encStr n})"
  | .number r n => s!"(num {showR r} {n})"
  | .ratio r n d => s!"(ratio {showR r} {n} {d})"
  | .monetary r a b => s!"(mon {showR r} {serExpr a} {serExpr b})"
  | .infix r op a b => s!"(infix {showR r} {match op with | .plus => "+" | .minus => "-"} {serExpr a} {serExpr b})"

def serAllot : AllotVal → String
  | .nil => "nil"
  | .remaining r => s!"(rem {showR r})"
  | .portion e => s!"(por {serExpr e})"

partial def serSource : Source → String
  | .nil => "nil"
  | .account e => s!"(sacct {serExpr e})"
  | .overdraft r a none => s!"(sover {showR r} {serExpr a})"
  | .overdraft r a (some b) => s!"(sover {showR r} {serExpr a} {serExpr b})"
  | .inorder r srcs => s!"(sin {showR r}" ++ String.join (srcs.map (fun x => " " ++ serSource x)) ++ ")"
  | .capped r cap src => s!"(scap {showR r} {serExpr cap} {serSource src})"
  | .allotment r items => s!"(sallot {showR r}" ++
      String.join (items.map (fun | .mk ir a src => s!" (item {showR ir} {serAllot a} {serSource src})")) ++ ")"

mutual
  partial def serDest : Dest → String
    | .nil => "nil"
    | .account e => s!"(dacct {serExpr e})"
    | .inorder r clauses rem => s!"(din {showR r} {serKoD rem}" ++
        String.join (clauses.map (fun | .mk cr cap k => s!" (clause {showR cr} {serExpr cap} {serKoD k})")) ++ ")"
    | .allotment r items => s!"(dallot {showR r}" ++
        String.join (items.map (fun | .mk ir a k => s!" (item {showR ir} {serAllot a} {serKoD k})")) ++ ")"
  partial def serKoD : KoD → String
    | .nil => "nil"
    | .kept r => s!"(kept {showR r})"
    | .to d => s!"(to {serDest d})"
end

def serSent : SentValue → String
  | .nil => "nil"
  | .lit r e => s!"(lit {showR r} {serExpr e})"
  | .all r e => s!"(all {showR r} {serExpr e})"

def serCall (c : FnCall) : String :=
  s!"(call {showR c.r} {showR c.callerRange} {encStr c.name}" ++ String.join (c.args.map (fun a => " " ++ serExpr a)) ++ ")"

def serStatement : Statement → String
  | .nil => "nil"
  | .fnCallNil => "callnil"
  | .send r sv src dst => s!"(send {showR r} {serSent sv} {serSource src} {serDest dst})"
  | .save r sv e => s!"(save {showR r} {serSent sv} {serExpr e})"
  | .fnCall c => serCall c

def serDecl (d : VarDecl) : String :=
  let nm := match d.name with | some (r, n) => s!"(name {showR r} {encStr n})" | none => "nil"
  let ty := match d.type with | some (r, n) => s!"(type {showR r} {encStr n})" | none => "nil"
  let og := match d.origin with | some c => serCall c | none => "nil"
  s!"(decl {showR d.r} {nm} {ty} {og})"

def serProgram (p : Program) : String :=
  "(prog (vars" ++ String.join (p.vars.map (fun d => " " ++ serDecl d)) ++ ") (stmts" ++
    String.join (p.stmts.map (fun s => " " ++ serStatement s)) ++ "))"

/-- `parse <text>`: the model parser on a text; `ok <sexp>` or `reject` -/
def cmdParse (fields : List String) : Except String String :=
  match fields with
  | [text] => do
      let t ← decStr text
      match parseProgram t.toList with
      | some p => .ok s!"ok\t{serProgram p}"
      | none => .ok "reject"
  | _ => .error "parse: expected 1 field"

/-- `lex <text>`: kinds and positions of the tokens (debugging aid) -/
def cmdLex (fields : List String) : Except String String :=
  match fields with
  | [text] => do
      let t ← decStr text
      match lex t.toList with
      | some ts => .ok ("ok\t" ++ " ".intercalate (ts.map (fun k => s!"{repr k.kind}@{k.line}:{k.col}+{k.text.length}")))
      | none => .ok "reject"
  | _ => .error "lex: expected 1 field"

/-! ## wire format (Model/Frame.lean) -/

def bytesHex (bs : List UInt8) : String :=
  if bs.isEmpty then "-" else String.ofList (bs.flatMap (fun b => [hexDigit (b.toNat / 16), hexDigit (b.toNat % 16)]))

def hexTok (t : String) : List UInt8 := if t = "-" then [] else hexBytes t.toList

def frameErrName : FrameErr → String
  | .unexpectedEOF => "unexpectedEOF"
  | .malformedHeader => "malformedHeader"
  | .badLength => "badLength"
  | .negativeLength => "negativeLength"

/-- all frames until the reader stops: bodies read so far and why it stopped -/
def readAllFrames : Nat → List UInt8 → List (List UInt8) → List (List UInt8) × String
  | 0, _, acc => (acc.reverse, "fuel")
  | fuel + 1, input, acc =>
    match readFrame input with
    | .eof => (acc.reverse, "eof")
    | .error e => (acc.reverse, "error:" ++ frameErrName e)
    | .unsupported => (acc.reverse, "unsupported")
    | .ok body rest => readAllFrames fuel rest (body :: acc)

/-- `readframes <hex stream>`: `<status>\t<hex body> ...` -/
def cmdReadFrames (fields : List String) : Except String String :=
  match fields with
  | [hex] =>
      let input := hexTok hex
      let (bodies, status) := readAllFrames (input.length + 1) input []
      .ok (status ++ "\t" ++ " ".intercalate (bodies.map bytesHex))
  | _ => .error "readframes: expected 1 field"

/-- `encodeframes <hex body> <hex body> ...` (blank-separated): the hex of the concatenated frames -/
def cmdEncodeFrames (fields : List String) : Except String String :=
  match fields with
  | [bodies] => .ok (bytesHex ((words bodies).flatMap (fun t => encodeFrame (hexTok t))))
  | [] => .ok (bytesHex [])
  | _ => .error "encodeframes: expected 1 field"

/-- `checkreport <path> <line char sev msg>*` (blank-separated, strings encoded): hex of stdout, exit status -/
def cmdCheckReport (fields : List String) : Except String String :=
  match fields with
  | [path, ds] => do
      let p ← decStr path
      let rec go : List String → Except String (List RDiag)
        | l :: c :: s :: m :: rest => do
            let l' ← parseNatTok l
            let c' ← parseNatTok c
            let s' ← parseNatTok s
            let m' ← decStr m
            let tl ← go rest
            pure (⟨l', c', s', m'⟩ :: tl)
        | [] => pure []
        | _ => .error "checkreport: bad diagnostic list"
      let l ← go (words ds)
      match checkReport p l with
      | some (out, code) => .ok s!"ok\t{bytesHex out.toUTF8.toList}\t{code}"
      | none => .ok "panic"
  | _ => .error "checkreport: expected 2 fields"

/-- `lexall <text>`: token start positions, the EOF position and the lexer errors of the lexer with recovery:
    `<line:col ...>\t<eofline:eofcol>\t<line:col:hex(text) ...>` -/
def cmdLexAll (fields : List String) : Except String String :=
  match fields with
  | [text] => do
      let t ← decStr text
      let (ts, es) := lexAll t.toList
      let e := eofPos t.toList
      .ok (" ".intercalate (ts.map (fun k => s!"{k.line}:{k.col}")) ++ "\t" ++ s!"{e.line}:{e.char}" ++ "\t" ++
           " ".intercalate (es.map (fun x => s!"{x.line}:{x.col}:{bytesHex (String.ofList x.text).toUTF8.toList}")))
  | _ => .error "lexall: expected 1 field"

/-- `clirun <source> <parse|fail|ok> <payload>`: payload = blank-separated `range message` pairs (parse, fail) or the
    JSON text (ok), strings encoded; answers `ok <hex stdout> <hex stderr> <exit>` or `panic` -/
def cmdCliRun (fields : List String) : Except String String :=
  match fields with
  | [src, kind, payload] => do
      let source ← decStr src
      let rec pairsOf : List String → Except String (List (String × Range))
        | r :: m :: rest => do
            let r' ← parseRange r
            let m' ← decStr m
            let tl ← pairsOf rest
            pure ((m', r') :: tl)
        | [] => pure []
        | _ => .error "clirun: bad pair list"
      let outcome ← (if kind = "parse" then do
            let l ← pairsOf (words payload); pure (RunOutcome.parseErrors l)
          else if kind = "fail" then do
            let l ← pairsOf (words payload)
            match l with
            | [(m, r)] => pure (RunOutcome.failed m r)
            | _ => .error "clirun: fail needs one pair"
          else do
            let j ← decStr payload; pure (RunOutcome.ok j))
      match cliRun source.toList outcome with
      | .ok o => .ok s!"ok\t{bytesHex o.stdout.toUTF8.toList}\t{bytesHex o.stderr.toUTF8.toList}\t{o.exit}"
      | .panic s => .ok s!"panic\t{encStr s}"
      | .err _ => .ok "err"
  | _ => .error "clirun: expected 3 fields"

def dispatch (cmd : String) (fields : List String) : Except String String :=
  if cmd = "exec" then cmdExec fields
  else if cmd = "reconcile" then cmdReconcile fields
  else if cmd = "parsevar" then cmdParseVar fields
  else if cmd = "portionlit" then cmdPortionLit fields
  else if cmd = "allot" then cmdAllot fields
  else if cmd = "analyze" then cmdAnalyze fields
  else if cmd = "show" then cmdShow fields
  else if cmd = "parse" then cmdParse fields
  else if cmd = "lex" then cmdLex fields
  else if cmd = "checkreport" then cmdCheckReport fields
  else if cmd = "lexall" then cmdLexAll fields
  else if cmd = "clirun" then cmdCliRun fields
  else if cmd = "readframes" then cmdReadFrames fields
  else if cmd = "encodeframes" then cmdEncodeFrames fields
  else .error s!"unknown command {cmd}"

def handleLine (line : String) : String :=
  match line.splitOn "\t" with
  | cmd :: id :: fields =>
      match dispatch cmd fields with
      | .ok out => s!"{id}\t{out}"
      | .error e => s!"{id}\tdrivererror\t{e}"
  | _ => "?\tdrivererror\tbad line"

partial def loop (hin hout : IO.FS.Stream) : IO Unit := do
  let line ← hin.getLine
  if line.isEmpty then return ()
  let l := if line.back == '\n' then String.ofList line.toList.dropLast else line
  hout.putStrLn (handleLine l)
  loop hin hout

def main : IO Unit := do
  let hin ← IO.getStdin
  let hout ← IO.getStdout
  loop hin hout
