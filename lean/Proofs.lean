import Proofs.AllotLemmas
import Proofs.ReconcileLemmas
