import Proofs.AllotLemmas
import Proofs.ReconcileLemmas
import Proofs.DrawBoundLemmas
import Proofs.DistributeLemmas
import Proofs.DistributeLemmas2
import Proofs.DrawLemmas
