import Properties.C06
import Properties.C07
