import Properties.C06
import Properties.C07
import Properties.DrawBounds
import Properties.C05
import Properties.C04
import Properties.C07b
import Properties.Statement
import Properties.C0809
