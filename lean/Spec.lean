import Spec.Pairing
import Spec.AllotSpec
