import Spec.Pairing
import Spec.AllotSpec
import Spec.Draw
import Spec.Distribute
import Spec.Statement
