import Spec.Pairing
import Spec.AllotSpec
import Spec.Draw
import Spec.Distribute
import Spec.Statement
import Spec.Ledger
import Spec.Complete
import Spec.ProgramSpec
