/-
  Properties/C010203.lean — script-level theorems:
    C01 no unauthorized overdraft, C02 every posting is a real transfer,
    C03 a fixed-amount send moves exactly that amount or the script fails.
  They are proved about `runStatements` (the statement loop of `RunProgram`)
  for every list of statements, every variable environment with portions in
  [0,1] (what `parseVar` guarantees: `parseVars_wf`) and every starting cache;
  `RunProgram_ok_runs` connects them to `RunProgram`.
-/
import Spec.ProgramSpec
import Properties.Statement
import Properties.C0809
import Proofs.ProgramLemmas

namespace NS

/-! ### plumbing -/

/-- a successful `RunProgram` is a successful statement loop from the cache filled by the preload -/
theorem RunProgram_ok_runs (prog : Program) (rawVars : List (String × String)) (store : Store) (flag : Bool)
    (res : ExecResult) (h : RunProgram prog rawVars store flag = .ok res) :
    ∃ vars cache0 st, runStatements vars prog.stmts ⟨cache0, [], []⟩ = .ok (res.postings, st) ∧
      res.txMeta = st.txMeta ∧ res.accMeta = st.accMeta ∧
      (∃ q, parseVars store flag rawVars prog.vars [] ⟨[], [], 0, []⟩ = .ok (vars, q)) := by
  unfold RunProgram at h
  split at h
  · cases h
  · cases h
  rename_i vars q hpv
  split at h
  · cases h
  · cases h
  rename_i pending hpre
  split at h
  · cases h
  rename_i q' hq'
  split at h
  · cases h
  · cases h
  rename_i ps st hrun
  injection h with h
  subst h
  exact ⟨vars, q'.cache, st, hrun, rfl, rfl, q, hpv⟩

/-- variables read by `parseVars` satisfy `VarsWF` (portions are validated to lie in [0,1]) -/
theorem parseVars_wf (store : Store) (flag : Bool) (rawVars : List (String × String)) (decls : List VarDecl)
    (vars0 vars : Vars) (q0 q : QState) (h0 : VarsWF vars0)
    (h : parseVars store flag rawVars decls vars0 q0 = .ok (vars, q)) : VarsWF vars :=
  pg_parseVars_wf store flag rawVars decls vars0 vars q0 q h0 h

mutual
private theorem pg_resolveS_pn (vars : Vars) (asset : String) (hw : VarsWF vars) :
    ∀ (src : Source) (r : RSource), resolveS vars asset src = .ok r → PortionsNonnegS r
  | .nil, r, hr => by simp [resolveS] at hr
  | .account e, r, hr => by
      simp only [resolveS] at hr
      split at hr <;> try cases hr
      split <;> simp [PortionsNonnegS]
  | .overdraft _ addr none, r, hr => by
      simp only [resolveS] at hr
      split at hr <;> try cases hr
      simp [PortionsNonnegS]
  | .overdraft _ addr (some b), r, hr => by
      simp only [resolveS] at hr
      split at hr <;> try cases hr
      split at hr <;> try cases hr
      split <;> simp [PortionsNonnegS]
  | .inorder _ srcs, r, hr => by
      simp only [resolveS] at hr
      split at hr <;> try cases hr
      rename_i rs hrs
      simp only [PortionsNonnegS]
      exact pg_resolveSList_pn vars asset hw srcs rs hrs
  | .capped _ cap src, r, hr => by
      simp only [resolveS] at hr
      split at hr <;> try cases hr
      split at hr <;> try cases hr
      rename_i r' hr'
      simp only [PortionsNonnegS]
      exact pg_resolveS_pn vars asset hw src r' hr'
  | .allotment _ items, r, hr => by
      simp only [resolveS] at hr
      split at hr <;> try cases hr
      rename_i qs hqs
      split at hr <;> try cases hr
      rename_i subs hsubs
      simp only [PortionsNonnegS]
      exact ⟨pg_evalAllotItems_nonneg vars hw _ qs hqs, pg_resolveSItems_pn vars asset hw items subs hsubs⟩

private theorem pg_resolveSList_pn (vars : Vars) (asset : String) (hw : VarsWF vars) :
    ∀ (srcs : List Source) (rs : List RSource), resolveSList vars asset srcs = .ok rs → PortionsNonnegSs rs
  | [], rs, hr => by simp only [resolveSList] at hr; cases hr; simp [PortionsNonnegSs]
  | s :: ss, rs, hr => by
      simp only [resolveSList] at hr
      split at hr <;> try cases hr
      rename_i r hr1
      split at hr <;> try cases hr
      rename_i rs' hrs'
      simp only [PortionsNonnegSs]
      exact ⟨pg_resolveS_pn vars asset hw s r hr1, pg_resolveSList_pn vars asset hw ss rs' hrs'⟩

private theorem pg_resolveSItems_pn (vars : Vars) (asset : String) (hw : VarsWF vars) :
    ∀ (items : List SrcItem) (rs : List RSource), resolveSItems vars asset items = .ok rs → PortionsNonnegSs rs
  | [], rs, hr => by simp only [resolveSItems] at hr; cases hr; simp [PortionsNonnegSs]
  | (.mk _ _ src) :: rest, rs, hr => by
      simp only [resolveSItems] at hr
      split at hr <;> try cases hr
      rename_i r hr1
      split at hr <;> try cases hr
      rename_i rs' hrs'
      simp only [PortionsNonnegSs]
      exact ⟨pg_resolveS_pn vars asset hw src r hr1, pg_resolveSItems_pn vars asset hw rest rs' hrs'⟩
end

mutual
private theorem pg_resolveD_pn (vars : Vars) (asset : String) (hw : VarsWF vars) :
    ∀ (dst : Dest) (r : RDest), resolveD vars asset dst = .ok r → PortionsNonnegD r
  | .nil, r, hr => by simp [resolveD] at hr
  | .account e, r, hr => by
      simp only [resolveD] at hr
      split at hr <;> try cases hr
      simp [PortionsNonnegD]
  | .inorder _ clauses remaining, r, hr => by
      simp only [resolveD] at hr
      split at hr <;> try cases hr
      rename_i caps tos hcl
      split at hr <;> try cases hr
      rename_i rest hrest
      simp only [PortionsNonnegD]
      exact ⟨pg_resolveClauses_pn vars asset hw clauses caps tos hcl,
        pg_resolveKoD_pn vars asset hw remaining rest hrest⟩
  | .allotment _ items, r, hr => by
      simp only [resolveD] at hr
      split at hr <;> try cases hr
      rename_i qs hqs
      split at hr <;> try cases hr
      rename_i tos htos
      simp only [PortionsNonnegD]
      refine ⟨pg_evalAllotItems_nonneg vars hw _ qs hqs, ?_, pg_resolveDItems_pn vars asset hw items tos htos⟩
      rw [evalAllotItems_length _ _ _ hqs, resolveDItems_length _ _ _ _ htos]; simp

private theorem pg_resolveKoD_pn (vars : Vars) (asset : String) (hw : VarsWF vars) :
    ∀ (k : KoD) (r : RKoD), resolveKoD vars asset k = .ok r → PortionsNonnegK r
  | .nil, r, hr => by simp [resolveKoD] at hr
  | .kept _, r, hr => by
      simp only [resolveKoD] at hr
      cases hr
      simp [PortionsNonnegK]
  | .to d, r, hr => by
      simp only [resolveKoD] at hr
      split at hr <;> try cases hr
      rename_i r' hr'
      simp only [PortionsNonnegK]
      exact pg_resolveD_pn vars asset hw d r' hr'

private theorem pg_resolveClauses_pn (vars : Vars) (asset : String) (hw : VarsWF vars) :
    ∀ (cl : List DestClause) (caps : List Int) (tos : List RKoD),
      resolveClauses vars asset cl = .ok (caps, tos) → PortionsNonnegKs tos
  | [], caps, tos, hr => by simp only [resolveClauses] at hr; cases hr; simp [PortionsNonnegKs]
  | (.mk _ cap kd) :: rest, caps, tos, hr => by
      simp only [resolveClauses] at hr
      split at hr <;> try cases hr
      split at hr <;> try cases hr
      rename_i t ht
      split at hr <;> try cases hr
      rename_i cs ts hrest
      simp only [PortionsNonnegKs]
      exact ⟨pg_resolveKoD_pn vars asset hw kd t ht, pg_resolveClauses_pn vars asset hw rest cs ts hrest⟩

private theorem pg_resolveDItems_pn (vars : Vars) (asset : String) (hw : VarsWF vars) :
    ∀ (items : List DestItem) (tos : List RKoD), resolveDItems vars asset items = .ok tos → PortionsNonnegKs tos
  | [], tos, hr => by simp only [resolveDItems] at hr; cases hr; simp [PortionsNonnegKs]
  | (.mk _ _ kd) :: rest, tos, hr => by
      simp only [resolveDItems] at hr
      split at hr <;> try cases hr
      rename_i t ht
      split at hr <;> try cases hr
      rename_i ts hts
      simp only [PortionsNonnegKs]
      exact ⟨pg_resolveKoD_pn vars asset hw kd t ht, pg_resolveDItems_pn vars asset hw rest ts hts⟩
end

/-- resolved trees of a well-formed environment have non-negative portions -/
theorem resolveS_portions_nonneg (vars : Vars) (asset : String) (src : Source) (r : RSource)
    (hw : VarsWF vars) (h : resolveS vars asset src = .ok r) : PortionsNonnegS r :=
  pg_resolveS_pn vars asset hw src r h

theorem resolveD_portions_nonneg (vars : Vars) (asset : String) (dst : Dest) (r : RDest)
    (hw : VarsWF vars) (h : resolveD vars asset dst = .ok r) : PortionsNonnegD r :=
  pg_resolveD_pn vars asset hw dst r h

/-! ### what one statement does -/

/-- a successful statement is either a send statement that denotes `specSend`/`specSendAll` on its
    resolved trees (and applies its postings to the cache), or produces no posting and does not
    raise any visible balance -/
private theorem pg_runStatement_cases (vars : Vars) (s : Statement) (st st' : RState) (ps : List Posting)
    (hw : VarsWF vars) (hres : SendsResolve vars [s]) (h : runStatement vars st s = .ok (ps, st')) :
    (∃ asset rs rd, stmtSend vars s = some (asset, rs, rd) ∧ PortionsNonnegS rs ∧ PortionsNonnegD rd ∧
      st'.cache = applyPostings st.cache ps ∧
      ((∃ n, specSend asset n rs rd (availOfCache st.cache asset) = .ok ps) ∨
        specSendAll asset rs rd (availOfCache st.cache asset) = .ok ps)) ∨
    (stmtSend vars s = none ∧ ps = [] ∧ ∀ a c, cacheGet st'.cache a c ≤ cacheGet st.cache a c) := by
  cases s with
  | nil => simp [runStatement] at h
  | fnCallNil => simp [runStatement] at h
  | send r sv src dst =>
    left
    have hsome := hres _ (List.mem_singleton.mpr rfl) ⟨r, sv, src, dst, rfl⟩
    simp only [runStatement] at h
    cases sv with
    | nil => simp [stmtSend] at hsome
    | lit r' m =>
      simp only [stmtSend] at hsome ⊢
      cases hm : evalAs vars m expectMonetary with
      | err e => simp [hm] at hsome
      | panic e => simp [hm] at hsome
      | ok x =>
        obtain ⟨asset, n⟩ := x
        simp only [hm] at hsome ⊢
        cases hs : resolveS vars asset src with
        | err e => simp [hs] at hsome
        | panic e => simp [hs] at hsome
        | ok rs =>
          cases hd : resolveD vars asset dst with
          | err e => simp [hs, hd] at hsome
          | panic e => simp [hs, hd] at hsome
          | ok rd =>
            rw [runSend_fixed_refines vars st r' m src dst asset n rs rd hm hs hd] at h
            cases hsp : specSend asset n rs rd (availOfCache st.cache asset) with
            | err e => simp [hsp] at h
            | panic e => simp [hsp] at h
            | ok ps' =>
              simp only [hsp, Outcome.ok.injEq, Prod.mk.injEq] at h
              obtain ⟨rfl, rfl⟩ := h
              exact ⟨asset, rs, rd, rfl, resolveS_portions_nonneg vars asset src rs hw hs,
                resolveD_portions_nonneg vars asset dst rd hw hd, rfl, Or.inl ⟨n, hsp⟩⟩
    | all r' a =>
      simp only [stmtSend] at hsome ⊢
      cases hm : evalAs vars a expectAsset with
      | err e => simp [hm] at hsome
      | panic e => simp [hm] at hsome
      | ok asset =>
        simp only [hm] at hsome ⊢
        cases hs : resolveS vars asset src with
        | err e => simp [hs] at hsome
        | panic e => simp [hs] at hsome
        | ok rs =>
          cases hd : resolveD vars asset dst with
          | err e => simp [hs, hd] at hsome
          | panic e => simp [hs, hd] at hsome
          | ok rd =>
            rw [runSend_all_refines vars st r' a src dst asset rs rd hm hs hd] at h
            cases hsp : specSendAll asset rs rd (availOfCache st.cache asset) with
            | err e => simp [hsp] at h
            | panic e => simp [hsp] at h
            | ok ps' =>
              simp only [hsp, Outcome.ok.injEq, Prod.mk.injEq] at h
              obtain ⟨rfl, rfl⟩ := h
              exact ⟨asset, rs, rd, rfl, resolveS_portions_nonneg vars asset src rs hw hs,
                resolveD_portions_nonneg vars asset dst rd hw hd, rfl, Or.inr hsp⟩
  | save r sv amount =>
    right
    refine ⟨rfl, ?_⟩
    simp only [runStatement, runSaveStatement] at h
    split at h
    · cases h
    · cases h
    rename_i asset amt _
    split at h
    · cases h
    · cases h
    rename_i account _
    have key : ∀ (hn : ∀ n, amt = some n → 0 ≤ n) (a c : String),
        cacheGet (cacheSet st.cache account asset (savedBalance (cacheGet st.cache account asset) amt)) a c ≤
          cacheGet st.cache a c := by
      intro hn a c
      rw [cacheGet_cacheSet]
      split
      · rename_i hac
        obtain ⟨rfl, rfl⟩ := hac
        exact pg_savedBalance_le _ _ hn
      · exact le_refl _
    split at h
    · rename_i n
      split at h
      · cases h
      · rename_i hn
        simp only [Outcome.ok.injEq, Prod.mk.injEq] at h
        obtain ⟨rfl, rfl⟩ := h
        refine ⟨rfl, key ?_⟩
        intro n' hn'
        injection hn' with hn'
        omega
    · simp only [Outcome.ok.injEq, Prod.mk.injEq] at h
      obtain ⟨rfl, rfl⟩ := h
      refine ⟨rfl, key ?_⟩
      intro n' hn'
      cases hn'
  | fnCall fn =>
    right
    refine ⟨rfl, ?_⟩
    simp only [runStatement] at h
    split at h
    · cases h
    · cases h
    split at h
    · split at h
      · cases h
      · cases h
      simp only [Outcome.ok.injEq, Prod.mk.injEq] at h
      obtain ⟨rfl, rfl⟩ := h
      exact ⟨rfl, fun a c => le_refl _⟩
    split at h
    · split at h
      · cases h
      · cases h
      simp only [Outcome.ok.injEq, Prod.mk.injEq] at h
      obtain ⟨rfl, rfl⟩ := h
      exact ⟨rfl, fun a c => le_refl _⟩
    · cases h

/-- what the reference semantics guarantees about the postings of a send statement -/
private theorem pg_send_postings (asset : String) (rs : RSource) (rd : RDest) (av : Avail) (ps : List Posting)
    (hps : PortionsNonnegS rs) (hpd : PortionsNonnegD rd)
    (h : (∃ n, specSend asset n rs rd av = .ok ps) ∨ specSendAll asset rs rd av = .ok ps) :
    (∀ p ∈ ps, 0 < p.amount ∧ p.asset = asset ∧ p.destination ≠ KEPT_ADDR ∧
      p.source ∈ accountsOfS rs ∧ p.destination ∈ accountsOfD rd) ∧
    (∀ a k, unbIn a rs = false →
      debitsOf (ps.take k) a ≤ max 0 (av a + maxGrant (grantsOf a rs)) ∧ 0 ≤ creditsOf (ps.take k) a) := by
  rcases h with ⟨n, h⟩ | h
  · exact ⟨specSend_postings_real asset n rs rd av ps hps hpd h,
      fun a k hu => specSend_debits_bound asset n rs rd av ps a k hps hpd hu h⟩
  · exact ⟨specSendAll_postings_real asset rs rd av ps hps hpd h,
      fun a k hu => specSendAll_debits_bound asset rs rd av ps a k hps hpd hu h⟩

/-- one step of the statement loop -/
private theorem pg_run_cons (vars : Vars) (s : Statement) (ss : List Statement) (st0 st : RState)
    (ps : List Posting) (h : runStatements vars (s :: ss) st0 = .ok (ps, st)) :
    ∃ p1 st1 p2, runStatement vars st0 s = .ok (p1, st1) ∧ runStatements vars ss st1 = .ok (p2, st) ∧
      ps = p1 ++ p2 := by
  rw [runStatements] at h
  split at h
  · cases h
  · cases h
  rename_i p1 st1 h1
  split at h
  · cases h
  · cases h
  rename_i p2 st2 h2
  simp only [Outcome.ok.injEq, Prod.mk.injEq] at h
  obtain ⟨rfl, rfl⟩ := h
  exact ⟨p1, st1, p2, h1, h2, rfl⟩

/-! ### C02 -/

/-- every posting of a successful run has a strictly positive amount, is never credited to (nor
    debited from, given real account names) the kept marker, names a source account of some send
    statement and a destination account of some send statement, in the asset of a send statement -/
theorem postings_are_real (vars : Vars) (stmts : List Statement) (st0 st : RState) (ps : List Posting)
    (hw : VarsWF vars) (hres : SendsResolve vars stmts)
    (h : runStatements vars stmts st0 = .ok (ps, st)) :
    ∀ p ∈ ps, 0 < p.amount ∧ p.destination ≠ KEPT_ADDR ∧ p.source ∈ sourceAccounts vars stmts ∧
      p.destination ∈ destAccounts vars stmts ∧ p.asset ∈ sendAssets vars stmts := by
  induction stmts generalizing st0 ps with
  | nil =>
    simp only [runStatements, Outcome.ok.injEq, Prod.mk.injEq] at h
    obtain ⟨rfl, rfl⟩ := h
    intro p hp
    cases hp
  | cons s ss ih =>
    obtain ⟨p1, st1, p2, h1, h2, rfl⟩ := pg_run_cons vars s ss st0 st ps h
    intro p hp
    rcases List.mem_append.mp hp with hp | hp
    · rcases pg_runStatement_cases vars s st0 st1 p1 hw (pg_SendsResolve_head vars s ss hres) h1 with
        ⟨asset, rs, rd, hss, hps, hpd, _, hspec⟩ | ⟨_, rfl, _⟩
      · obtain ⟨a1, a2, a3, a4, a5⟩ := (pg_send_postings asset rs rd _ p1 hps hpd hspec).1 p hp
        refine ⟨a1, a3, ?_, ?_, ?_⟩
        · simp only [sourceAccounts, hss]
          exact List.mem_append_left _ a4
        · simp only [destAccounts, hss]
          exact List.mem_append_left _ a5
        · simp only [sendAssets, hss]
          exact List.mem_append_left _ (by simp [a2])
      · cases hp
    · obtain ⟨a1, a3, a4, a5, a6⟩ := ih st1 p2 (pg_SendsResolve_tail vars s ss hres) h2 p hp
      refine ⟨a1, a3, ?_, ?_, ?_⟩
      · simp only [sourceAccounts]
        exact List.mem_append_right _ a4
      · simp only [destAccounts]
        exact List.mem_append_right _ a5
      · simp only [sendAssets]
        exact List.mem_append_right _ a6

/-- real account names are never empty nor the kept marker -/
theorem validAccountName_real (a : String) (h : validAccountName a = true) : a ≠ "" ∧ a ≠ KEPT_ADDR := by
  constructor
  · rintro rfl
    revert h
    decide
  · rintro rfl
    revert h
    decide

/-- only send statements produce postings, in their own asset -/
theorem statement_postings_asset (vars : Vars) (s : Statement) (st st' : RState) (ps : List Posting)
    (hw : VarsWF vars) (hres : SendsResolve vars [s]) (h : runStatement vars st s = .ok (ps, st')) :
    (ps = [] ∨ ∃ asset rs rd, stmtSend vars s = some (asset, rs, rd) ∧ ∀ p ∈ ps, p.asset = asset) := by
  rcases pg_runStatement_cases vars s st st' ps hw hres h with
    ⟨asset, rs, rd, hss, hps, hpd, _, hspec⟩ | ⟨_, rfl, _⟩
  · right
    exact ⟨asset, rs, rd, hss, fun p hp => ((pg_send_postings asset rs rd _ ps hps hpd hspec).1 p hp).2.1⟩
  · left
    rfl

/-! ### C03 -/

/-- the postings of a fixed-amount send statement, wherever it stands in the script, add up to the
    amount minus what its destination keeps -/
theorem fixed_send_exact (vars : Vars) (pre post : List Statement) (r : Range) (m : Expr) (src : Source) (dst : Dest)
    (st0 st : RState) (ps : List Posting) (asset : String) (n : Int) (rs : RSource) (rd : RDest)
    (hw : VarsWF vars)
    (hm : evalAs vars m expectMonetary = .ok (asset, n))
    (hs : resolveS vars asset src = .ok rs) (hd : resolveD vars asset dst = .ok rd)
    (h : runStatements vars (pre ++ [.send r (.lit r m) src dst] ++ post) st0 = .ok (ps, st)) :
    ∃ p1 pk p2 d, ps = p1 ++ pk ++ p2 ∧ distribute rd n = .ok d ∧ sumAmounts pk = n - keptOf d ∧
      (∃ st1, runStatements vars pre st0 = .ok (p1, st1)) := by
  rw [run_append] at h
  split at h
  · rename_i p1' st1' h1
    split at h
    · rename_i p2 st2 h2
      simp only [Outcome.ok.injEq, Prod.mk.injEq] at h
      obtain ⟨rfl, rfl⟩ := h
      rw [run_append] at h1
      split at h1
      · rename_i p1 st1 h0
        split at h1
        · rename_i pk stk hk
          simp only [Outcome.ok.injEq, Prod.mk.injEq] at h1
          obtain ⟨rfl, rfl⟩ := h1
          obtain ⟨pk', stk', pn, hk1, hk2, rfl⟩ := pg_run_cons vars _ [] st1 _ pk hk
          simp only [runStatements, Outcome.ok.injEq, Prod.mk.injEq] at hk2
          obtain ⟨rfl, rfl⟩ := hk2
          simp only [runStatement] at hk1
          rw [runSend_fixed_refines vars st1 r m src dst asset n rs rd hm hs hd] at hk1
          cases hsp : specSend asset n rs rd (availOfCache st1.cache asset) with
          | err e => simp [hsp] at hk1
          | panic e => simp [hsp] at hk1
          | ok ps' =>
            simp only [hsp, Outcome.ok.injEq, Prod.mk.injEq] at hk1
            obtain ⟨rfl, rfl⟩ := hk1
            obtain ⟨d, hd1, hd2⟩ := specSend_total asset n rs rd _ ps'
              (resolveS_portions_nonneg vars asset src rs hw hs)
              (resolveD_portions_nonneg vars asset dst rd hw hd)
              (resolveS_allotLenOk vars asset src rs hs) hsp
            exact ⟨p1, ps', p2, d, by simp, hd1, hd2, st1, h0⟩
        · cases h1
        · cases h1
      · cases h1
      · cases h1
    · cases h
    · cases h
  · cases h
  · cases h

/-- a fixed-amount send fails only for a negative amount, for lack of funds (reported as missing
    funds), or for invalid portions; with the funds there and valid portions it succeeds -/
theorem fixed_send_fails_iff_short (vars : Vars) (st : RState) (r : Range) (m : Expr) (src : Source) (dst : Dest)
    (asset : String) (n : Int) (rs : RSource) (rd : RDest) (e : Err)
    (hm : evalAs vars m expectMonetary = .ok (asset, n))
    (hs : resolveS vars asset src = .ok rs) (hd : resolveD vars asset dst = .ok rd) :
    runSendStatement vars st (.lit r m) src dst = .err e ↔
      (n < 0 ∧ e = .negativeAmount n) ∨
      (0 ≤ n ∧ draw asset rs (availOfCache st.cache asset) n = .err e) ∨
      (0 ≤ n ∧ ∃ l, draw asset rs (availOfCache st.cache asset) n = .ok l ∧ sumPulls l ≠ n ∧
          e = .missingFunds asset n (sumPulls l)) ∨
      (0 ≤ n ∧ ∃ l, draw asset rs (availOfCache st.cache asset) n = .ok l ∧ sumPulls l = n ∧ distribute rd n = .err e) := by
  rw [runSend_fixed_refines vars st r m src dst asset n rs rd hm hs hd,
    ← specSend_fails_iff asset n rs rd (availOfCache st.cache asset) e]
  cases specSend asset n rs rd (availOfCache st.cache asset) <;> simp

/-- a send of zero succeeds with no posting -/
theorem send_zero (vars : Vars) (st : RState) (r : Range) (m : Expr) (src : Source) (dst : Dest)
    (asset : String) (rs : RSource) (rd : RDest) (d : Pulls) (hw : VarsWF vars)
    (hm : evalAs vars m expectMonetary = .ok (asset, 0))
    (hs : resolveS vars asset src = .ok rs) (hd : resolveD vars asset dst = .ok rd)
    (hdist : distribute rd 0 = .ok d) (hdraw : ∃ l, draw asset rs (availOfCache st.cache asset) 0 = .ok l) :
    ∃ st', runSendStatement vars st (.lit r m) src dst = .ok ([], st') := by
  rw [runSend_fixed_refines vars st r m src dst asset 0 rs rd hm hs hd,
    specSend_zero asset rs rd (availOfCache st.cache asset) d hdist
      (resolveD_portions_nonneg vars asset dst rd hw hd) hdraw]
  exact ⟨_, rfl⟩

/-! ### C01 -/

/-- one statement: at every point of its postings, an account that is not an unbounded source of the
    statement stays at or above the lower of (its true balance) and (true balance − visible balance −
    the largest overdraft the statement grants it) … stated on the quantities the induction needs:
    debits of every prefix are bounded, credits non-negative -/
theorem statement_debits_bound (vars : Vars) (s : Statement) (st st' : RState) (ps : List Posting)
    (hw : VarsWF vars) (hres : SendsResolve vars [s]) (h : runStatement vars st s = .ok (ps, st'))
    (a c : String) (hu : unbInStmts vars [s] a c = false) (k : Nat) :
    debitsOf ((ps.take k).filter (fun p => p.asset = c)) a ≤
        max 0 (cacheGet st.cache a c + maxGrant (grantsOfStmts vars [s] a c)) ∧
    0 ≤ creditsOf ((ps.take k).filter (fun p => p.asset = c)) a := by
  have hG := maxGrant_nonneg' (grantsOfStmts vars [s] a c)
  rcases pg_runStatement_cases vars s st st' ps hw hres h with
    ⟨asset, rs, rd, hss, hps, hpd, _, hspec⟩ | ⟨_, rfl, _⟩
  · obtain ⟨hreal, hbound⟩ := pg_send_postings asset rs rd _ ps hps hpd hspec
    by_cases hac : asset = c
    · subst hac
      have hfilter : (ps.take k).filter (fun p => p.asset = asset) = ps.take k := by
        rw [List.filter_eq_self]
        intro p hp
        simpa using (hreal p (List.mem_of_mem_take hp)).2.1
      rw [hfilter]
      rw [pg_unbInStmts_single_some vars s a asset asset rs rd hss] at hu
      simp only [decide_true, Bool.true_and] at hu
      rw [pg_grantsOfStmts_single_some vars s a asset asset rs rd hss]
      simp only [if_true]
      exact hbound a k hu
    · have hfilter : (ps.take k).filter (fun p => p.asset = c) = [] := by
        rw [List.filter_eq_nil_iff]
        intro p hp
        have := (hreal p (List.mem_of_mem_take hp)).2.1
        simp only [decide_eq_true_eq]
        intro e
        exact hac (this ▸ e)
      rw [hfilter]
      simp only [debitsOf, creditsOf, List.filter_nil, List.map_nil, List.sum_nil]
      omega
  · simp only [List.take_nil, List.filter_nil, debitsOf, creditsOf, List.map_nil, List.sum_nil]
    omega

/-- one statement, on the net effect of its postings on `(a, c)`: the visible balance moves with the
    postings (or is lowered), and no prefix takes more than the visible balance plus the largest grant -/
private theorem pg_stmt_net (vars : Vars) (s : Statement) (st st' : RState) (ps : List Posting)
    (hw : VarsWF vars) (hres : SendsResolve vars [s]) (h : runStatement vars st s = .ok (ps, st'))
    (a c : String) :
    cacheGet st'.cache a c ≤ cacheGet st.cache a c + pg_net ps a c ∧
    (unbInStmts vars [s] a c = false → ∀ k,
      min 0 (- cacheGet st.cache a c - maxGrant (grantsOfStmts vars [s] a c)) ≤ pg_net (ps.take k) a c) := by
  constructor
  · rcases pg_runStatement_cases vars s st st' ps hw hres h with
      ⟨asset, rs, rd, hss, hps, hpd, hcache, hspec⟩ | ⟨_, rfl, hle⟩
    · rw [hcache]
      have e : cacheGet (applyPostings st.cache ps) a c = replay (balOfCache st.cache) ps a c := by
        rw [← cache_tracks_replay]
        rfl
      rw [e, pg_replay_shift]
      exact le_refl _
    · rw [pg_net_nil]
      have := hle a c
      omega
  · intro hu k
    obtain ⟨h1, h2⟩ := statement_debits_bound vars s st st' ps hw hres h a c hu k
    rw [pg_net_filter, pg_net_effect _ a c (fun p hp => by simpa using (List.mem_filter.mp hp).2)]
    omega

/-- the loop invariant of `visible_le_true`, on one account and asset, for any true balance `B`
    at or above the visible one -/
private theorem pg_visible_le (vars : Vars) (hw : VarsWF vars) (a c : String) :
    ∀ (stmts : List Statement) (st0 st : RState) (ps : List Posting) (B : Int),
      SendsResolve vars stmts → runStatements vars stmts st0 = .ok (ps, st) →
      cacheGet st0.cache a c ≤ B → cacheGet st.cache a c ≤ B + pg_net ps a c
  | [], st0, st, ps, B, _, h, hB => by
      simp only [runStatements, Outcome.ok.injEq, Prod.mk.injEq] at h
      obtain ⟨rfl, rfl⟩ := h
      rw [pg_net_nil]
      omega
  | s :: ss, st0, st, ps, B, hres, h, hB => by
      obtain ⟨p1, st1, p2, h1, h2, rfl⟩ := pg_run_cons vars s ss st0 st ps h
      have hs := (pg_stmt_net vars s st0 st1 p1 hw (pg_SendsResolve_head vars s ss hres) h1 a c).1
      have ih := pg_visible_le vars hw a c ss st1 st p2 (B + pg_net p1 a c)
        (pg_SendsResolve_tail vars s ss hres) h2 (by omega)
      rw [pg_net_append]
      omega

/-- the loop invariant of C01 -/
private theorem pg_floor (vars : Vars) (hw : VarsWF vars) (a c : String) :
    ∀ (stmts : List Statement) (st0 st : RState) (ps : List Posting) (B : Int),
      SendsResolve vars stmts → runStatements vars stmts st0 = .ok (ps, st) →
      unbInStmts vars stmts a c = false → cacheGet st0.cache a c ≤ B → ∀ k,
      min B (- maxGrant (grantsOfStmts vars stmts a c)) ≤ B + pg_net (ps.take k) a c
  | [], st0, st, ps, B, _, h, _, hB, k => by
      simp only [runStatements, Outcome.ok.injEq, Prod.mk.injEq] at h
      obtain ⟨rfl, rfl⟩ := h
      rw [List.take_nil, pg_net_nil]
      omega
  | s :: ss, st0, st, ps, B, hres, h, hu, hB, k => by
      obtain ⟨p1, st1, p2, h1, h2, rfl⟩ := pg_run_cons vars s ss st0 st ps h
      rw [pg_unbInStmts_cons, Bool.or_eq_false_iff] at hu
      obtain ⟨hu1, hu2⟩ := hu
      obtain ⟨hv, hn⟩ := pg_stmt_net vars s st0 st1 p1 hw (pg_SendsResolve_head vars s ss hres) h1 a c
      have hn := hn hu1
      rw [pg_grantsOfStmts_cons, maxGrant_append]
      have hG1 := maxGrant_nonneg' (grantsOfStmts vars [s] a c)
      have hG2 := maxGrant_nonneg' (grantsOfStmts vars ss a c)
      rw [List.take_append, pg_net_append]
      by_cases hk : k ≤ p1.length
      · have e : k - p1.length = 0 := by omega
        rw [e, List.take_zero, pg_net_nil]
        have := hn k
        omega
      · have e : p1.take k = p1 := List.take_of_length_le (by omega)
        rw [e]
        have hall := hn p1.length
        rw [List.take_length] at hall
        have ih := pg_floor vars hw a c ss st1 st p2 (B + pg_net p1 a c)
          (pg_SendsResolve_tail vars s ss hres) h2 hu2 (by omega) (k - p1.length)
        omega

/-- the visible balance (cache) never exceeds the true balance: saves only lower it, postings move both -/
theorem visible_le_true (vars : Vars) (stmts : List Statement) (st0 st : RState) (ps : List Posting)
    (hw : VarsWF vars) (hres : SendsResolve vars stmts)
    (h : runStatements vars stmts st0 = .ok (ps, st)) (a c : String) :
    cacheGet st.cache a c ≤ replay (balOfCache st0.cache) ps a c := by
  rw [pg_replay_shift]
  exact pg_visible_le vars hw a c stmts st0 st ps _ hres h (le_refl _)

/-- C01: replaying the postings of a successful run, in order, on the starting balances never
    drives an account below the lower of its starting balance and minus the largest overdraft the
    script explicitly grants it — unless the script names it as an unbounded source (`@world`,
    `allowing unbounded overdraft`).  Holds for repeated accounts, accounts reached through
    variables, negative starting balances, and across statements. -/
theorem no_unauthorized_overdraft (vars : Vars) (stmts : List Statement) (st0 st : RState) (ps : List Posting)
    (hw : VarsWF vars) (hres : SendsResolve vars stmts)
    (h : runStatements vars stmts st0 = .ok (ps, st))
    (a c : String) (hu : unbInStmts vars stmts a c = false) (k : Nat) :
    overdraftFloor (balOfCache st0.cache) vars stmts a c ≤ replayN (balOfCache st0.cache) ps k a c := by
  unfold overdraftFloor replayN
  rw [pg_replay_shift]
  exact pg_floor vars hw a c stmts st0 st ps _ hres h hu (le_refl _) k

end NS
