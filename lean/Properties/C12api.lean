/-
  Properties/C12api.lean — atomic failure at the public API: an execution returns either a result and no error, or an
  error and the empty result — never postings or metadata together with an error; and it is what `RunProgram` computes.
-/
import Model.Api
import Properties.C12

namespace NS

/-- never a result together with an error -/
theorem api_failure_is_atomic (prog : Program) (rawVars : List (String × String)) (store : Store) (flags : List String)
    (r : ExecResult) (e : Err) (h : apiRunWithFeatureFlags prog rawVars store flags = some (r, some e)) :
    r.postings = [] ∧ r.txMeta = [] ∧ r.accMeta = [] := by
  unfold apiRunWithFeatureFlags at h
  generalize flags.contains overdraftFlagName = fl at h
  cases hr : RunProgram prog rawVars store fl with
  | ok x => rw [hr] at h; simp at h
  | err x =>
    rw [hr] at h
    simp at h
    obtain ⟨h1, _⟩ := h
    subst h1
    exact ⟨rfl, rfl, rfl⟩
  | panic x => rw [hr] at h; simp at h

/-- the API adds nothing to what the interpreter computes -/
theorem api_is_RunProgram (prog : Program) (rawVars : List (String × String)) (store : Store) (flags : List String)
    (r : ExecResult) (h : apiRunWithFeatureFlags prog rawVars store flags = some (r, none)) :
    RunProgram prog rawVars store (flags.contains overdraftFlagName) = .ok r := by
  unfold apiRunWithFeatureFlags at h
  generalize flags.contains overdraftFlagName = fl at h ⊢
  cases hr : RunProgram prog rawVars store fl with
  | ok x => rw [hr] at h; simp at h; rw [h]
  | err x => rw [hr] at h; simp at h
  | panic x => rw [hr] at h; simp at h

/-- `Run` is `RunWithFeatureFlags` without the overdraft feature -/
theorem apiRun_no_flag (prog : Program) (rawVars : List (String × String)) (store : Store) :
    apiRun prog rawVars store = match RunProgram prog rawVars store false with
      | .ok r => some (r, none) | .err e => some (emptyResult, some e) | .panic _ => none := by
  unfold apiRun apiRunWithFeatureFlags
  simp only [List.contains_nil]
  cases RunProgram prog rawVars store false <;> rfl

/-- on a complete program (what an error-free parse gives) the API never panics -/
theorem api_never_panics (prog : Program) (hc : prog.Complete) (rawVars : List (String × String)) (store : Store)
    (flags : List String) : (apiRunWithFeatureFlags prog rawVars store flags).isSome := by
  unfold apiRunWithFeatureFlags
  generalize flags.contains overdraftFlagName = fl
  cases hr : RunProgram prog rawVars store fl with
  | ok x => simp
  | err x => simp
  | panic x => exact absurd hr (run_never_panics prog hc rawVars store _ x)

end NS
