/-
  Properties/C12.lean — execution never panics and fails atomically with a
  typed error.  `Outcome` makes "a result and an error are never both present"
  true by construction of the model (checked on the Go side by the harness);
  the theorems here are: no panic site is reachable for a complete program, and
  a store failure surfaces as an execution error carrying the store's message.
-/
import Spec.Complete
import Model.Run
import Proofs.NoPanicLemmas

namespace NS

/-- For every script that parses without errors (no nil child in the tree), every choice of
    variables, store behaviour and flags: the run returns a result or a typed error — no panic site
    of the Go code (nil dereference, non-exhaustive match, index out of range) is reachable. -/
theorem run_never_panics (prog : Program) (hc : prog.Complete) (rawVars : List (String × String))
    (store : Store) (flag : Bool) (s : String) : RunProgram prog rawVars store flag ≠ .panic s := by
  exact np_RunProgram prog hc rawVars store flag s

/-- expression evaluation never panics on complete expressions -/
theorem evalExpr_never_panics (vars : Vars) (e : Expr) (hc : e.Complete) (s : String) :
    evalExpr vars e ≠ .panic s := by
  exact np_evalExpr vars e hc s

/-- a failing balance query surfaces as `QueryBalanceError` with the store's message -/
theorem getBalance_store_failure (store : Store) (q : QState) (account asset msg : String)
    (h : runBalancesQuery store { q with pending := batchQuery q.pending account asset } = .error msg) :
    getBalance store q account asset = .err (.queryBalance msg) := by
  unfold getBalance
  simp only [h]

/-- a failing preload query aborts the run with the store's message: no statement is executed on
    missing data -/
theorem run_preload_failure (prog : Program) (rawVars : List (String × String)) (store : Store) (flag : Bool)
    (vars : Vars) (q : QState) (pending : BalanceQuery) (msg : String)
    (hv : parseVars store flag rawVars prog.vars [] ⟨[], [], 0, []⟩ = .ok (vars, q))
    (hp : preload vars prog.stmts q.pending = .ok pending)
    (hq : runBalancesQuery store { q with pending := pending } = .error msg) :
    RunProgram prog rawVars store flag = .err (.queryBalance msg) := by
  unfold RunProgram
  simp only [hv, hp, hq]

/-- a failing metadata query surfaces as `QueryMetadataError` with the store's message -/
theorem meta_store_failure (store : Store) (flag : Bool) (vars : Vars) (q : QState) (ty : String) (fn : FnCall)
    (account key msg : String) (hname : fn.name = "meta")
    (hargs : evalExprs vars fn.args = .ok [.account account, .str key])
    (h : store.getMeta q.calls account key = .error msg) :
    handleOrigin store flag vars q ty fn = .err (.queryMetadata msg) := by
  unfold handleOrigin
  simp only [hargs, hname, parseArgs2, expectAccount, expectString, Outcome.ok_bind,
    Outcome.pure_eq, if_true, h]

/-- the interpreter calls the store only through `runBalancesQuery` and `meta`: when `runBalancesQuery`
    succeeds without the store (nothing new to fetch) no call is made -/
theorem runBalancesQuery_no_call (store : Store) (q q' : QState)
    (hf : (q.pending.filter (fun p => p.2.any (fun c => ! cacheHas q.cache p.1 c))).isEmpty = true)
    : runBalancesQuery store q = .ok q := by
  unfold runBalancesQuery
  simp only [hf, if_true]

end NS
