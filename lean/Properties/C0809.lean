/-
  Properties/C0809.lean — `save` reserves funds (C08); statements compose
  sequentially and metadata is last-write-wins (C09).  Statement-level and
  list-level facts about `runSaveStatement`, `applyPostings`, `runStatements`.
-/
import Spec.Ledger
import Proofs.LedgerLemmas

namespace NS

/-! ### the cache as balances -/

/-- reading back what was written; every other entry is unchanged -/
theorem cacheGet_cacheSet (c : Cache) (a s : String) (v : Int) (a' s' : String) :
    cacheGet (cacheSet c a s v) a' s' = if a' = a ∧ s' = s then v else cacheGet c a' s' := by
  exact lg_cacheGet_cacheSet c a s v a' s'

/-- `getPostings`: applying a statement's postings to the cache is replaying them on the balances it denotes -/
theorem cache_tracks_replay (c : Cache) (ps : List Posting) :
    balOfCache (applyPostings c ps) = replay (balOfCache c) ps := by
  exact lg_cache_tracks_replay c ps

/-! ### C08: save -/

/-- what a later statement sees after `save [c n] from x` / `save [c *] from x`:
    the balance reduced by `n` but not below zero (all of it for `*`); a balance that is already
    negative (or zero) is left as it is; every other entry is unchanged; no posting -/
theorem save_visible_balance (vars : Vars) (st st' : RState) (sv : SentValue) (acc : Expr) (ps : List Posting)
    (asset x : String) (amt : Option Int)
    (hsv : evaluateSentAmt vars sv = .ok (asset, amt)) (hacc : evalAs vars acc expectAccount = .ok x)
    (h : runSaveStatement vars st sv acc = .ok (ps, st')) :
    ps = [] ∧ st'.txMeta = st.txMeta ∧ st'.accMeta = st.accMeta ∧
    (∀ a c, cacheGet st'.cache a c =
      if a = x ∧ c = asset then savedBalance (cacheGet st.cache x asset) amt else cacheGet st.cache a c) := by
  unfold runSaveStatement at h
  rw [hsv] at h
  simp only [hacc] at h
  have key : ∀ st'' : RState,
      st'' = { st with cache := cacheSet st.cache x asset (savedBalance (cacheGet st.cache x asset) amt) } →
      st''.txMeta = st.txMeta ∧ st''.accMeta = st.accMeta ∧
      (∀ a c, cacheGet st''.cache a c =
        if a = x ∧ c = asset then savedBalance (cacheGet st.cache x asset) amt else cacheGet st.cache a c) := by
    intro st'' e
    subst e
    exact ⟨rfl, rfl, fun a c => lg_cacheGet_cacheSet _ _ _ _ _ _⟩
  cases amt with
  | none =>
    simp only [Outcome.ok.injEq, Prod.mk.injEq] at h
    exact ⟨h.1.symm, key st' h.2.symm⟩
  | some n =>
    simp only at h
    split at h
    · cases h
    · simp only [Outcome.ok.injEq, Prod.mk.injEq] at h
      exact ⟨h.1.symm, key st' h.2.symm⟩

/-- the reading of `savedBalance` in the property's words -/
theorem savedBalance_spec (b : Int) (amt : Option Int) (hn : ∀ n, amt = some n → 0 ≤ n) :
    (b ≤ 0 → savedBalance b amt = b) ∧
    (0 < b → amt = none → savedBalance b amt = 0) ∧
    (∀ n, 0 < b → amt = some n → savedBalance b amt = max 0 (b - n)) ∧
    savedBalance b amt ≤ b ∧ (0 ≤ b → 0 ≤ savedBalance b amt) := by
  refine ⟨?_, ?_, ?_, ?_, ?_⟩
  · intro hb
    cases amt <;> simp only [savedBalance] <;> rw [if_neg (by omega)]
  · intro hb e
    subst e
    simp only [savedBalance]
    rw [if_pos (by omega)]
  · intro n hb e
    subst e
    simp only [savedBalance]
    rw [if_pos (by omega)]
  · cases amt with
    | none => simp only [savedBalance]; split <;> omega
    | some n =>
      have := hn n rfl
      simp only [savedBalance]; split <;> omega
  · intro hb
    cases amt with
    | none => simp only [savedBalance]; split <;> omega
    | some n =>
      simp only [savedBalance]; split <;> omega

/-- a negative amount is rejected -/
theorem save_negative_rejected (vars : Vars) (st : RState) (sv : SentValue) (acc : Expr) (asset x : String) (n : Int)
    (hsv : evaluateSentAmt vars sv = .ok (asset, some n)) (hacc : evalAs vars acc expectAccount = .ok x) (hn : n < 0) :
    runSaveStatement vars st sv acc = .err (.negativeAmount n) := by
  unfold runSaveStatement
  rw [hsv]
  simp only [hacc]
  rw [if_pos hn]

/-! ### C09: sequential composition -/

/-- running `S₁ ++ S₂` is running `S₁`, then `S₂` from the state `S₁` left; postings concatenate;
    nothing else is carried over (the state is exactly `RState`: cache and the two metadata maps) -/
theorem run_append (vars : Vars) (s1 s2 : List Statement) (st : RState) :
    runStatements vars (s1 ++ s2) st =
      (match runStatements vars s1 st with
       | .ok (p1, st1) =>
          (match runStatements vars s2 st1 with
           | .ok (p2, st2) => .ok (p1 ++ p2, st2)
           | .err e => .err e
           | .panic s => .panic s)
       | .err e => .err e
       | .panic s => .panic s) := by
  exact lg_run_append vars s1 s2 st

/-- metadata: a later write overrides an earlier one for the same key … -/
theorem assocSet_get_same {κ ν : Type} [BEq κ] [LawfulBEq κ] (m : List (κ × ν)) (k : κ) (v : ν) :
    assocGet (assocSet m k v) k = some v := by
  exact lg_assocSet_get_same m k v

/-- … and leaves every other key intact -/
theorem assocSet_get_other {κ ν : Type} [BEq κ] [LawfulBEq κ] (m : List (κ × ν)) (k k' : κ) (v : ν) (h : k' ≠ k) :
    assocGet (assocSet m k v) k' = assocGet m k' := by
  exact lg_assocSet_get_other m k k' v h

/-- a `set_tx_meta` statement only writes its key -/
theorem set_tx_meta_effect (vars : Vars) (st st' : RState) (fn : FnCall) (ps : List Posting) (key : String) (v : Value)
    (hname : fn.name = "set_tx_meta") (hargs : evalExprs vars fn.args = .ok [.str key, v])
    (h : runStatement vars st (.fnCall fn) = .ok (ps, st')) :
    ps = [] ∧ st'.cache = st.cache ∧ st'.accMeta = st.accMeta ∧ st'.txMeta = assocSet st.txMeta key v := by
  simp only [runStatement, hargs] at h
  simp only [hname, if_true, parseArgs2, expectString, Outcome.ok_bind, Outcome.pure_eq] at h
  simp only [Outcome.ok.injEq, Prod.mk.injEq] at h
  obtain ⟨h1, h2⟩ := h
  subst h2
  exact ⟨h1.symm, rfl, rfl, rfl⟩

theorem set_account_meta_effect (vars : Vars) (st st' : RState) (fn : FnCall) (ps : List Posting)
    (account key : String) (v : Value)
    (hname : fn.name = "set_account_meta") (hargs : evalExprs vars fn.args = .ok [.account account, .str key, v])
    (h : runStatement vars st (.fnCall fn) = .ok (ps, st')) :
    ps = [] ∧ st'.cache = st.cache ∧ st'.txMeta = st.txMeta ∧
      st'.accMeta = assocSet st.accMeta (account, key) v.render := by
  simp only [runStatement, hargs] at h
  have hne : ¬ ("set_account_meta" = "set_tx_meta") := by decide
  simp only [hname, hne, if_true, if_false, parseArgs3, expectAccount, expectString, Outcome.ok_bind,
    Outcome.pure_eq] at h
  simp only [Outcome.ok.injEq, Prod.mk.injEq] at h
  obtain ⟨h1, h2⟩ := h
  subst h2
  exact ⟨h1.symm, rfl, rfl, rfl⟩

/-- replay composes: the balances after `p₁ ++ p₂` are the balances after `p₂` from those after `p₁` -/
theorem replay_append (B : Bal) (p1 p2 : List Posting) : replay B (p1 ++ p2) = replay (replay B p1) p2 := by
  exact lg_replay_append B p1 p2

/-- per-account effect of a replay (one asset): balance − debits + credits -/
theorem replay_effect (B : Bal) (ps : List Posting) (asset : String) (hps : ∀ p ∈ ps, p.asset = asset) (a : String) :
    replay B ps a asset = B a asset - debitsOf ps a + creditsOf ps a := by
  exact lg_replay_effect B ps asset hps a

theorem replay_other_asset (B : Bal) (ps : List Posting) (asset c : String) (hps : ∀ p ∈ ps, p.asset = asset)
    (hc : c ≠ asset) (a : String) : replay B ps a c = B a c := by
  exact lg_replay_other_asset B ps asset c hps hc a

/-! non-vacuity (tests) -/
example : savedBalance (-10) (some 5) = -10 := by decide
example : savedBalance 7 (some 5) = 2 := by decide
example : savedBalance 7 none = 0 := by decide

end NS
