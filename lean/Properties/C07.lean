/-
  Properties/C07.lean — funds pair first-come-first-served; kept funds stay with
  the earliest sources.  `Reconcile` terminates by definition (well-founded
  recursion on the total length of the two lists, Model/Reconcile.lean).
-/
import Spec.Pairing
import Proofs.ReconcileLemmas

namespace NS

/-- The net flow between every source and every (real) destination equals the in-order,
    unit-by-unit pairing of the draw list with the distribution list; units paired with
    `kept` are withheld from the senders next in line, spanning several senders. -/
theorem reconcile_flow_eq_pairing (asset : String) (ss rs : List (String × Int))
    (hs : ∀ p ∈ ss, 0 < p.2) (hr : ∀ p ∈ rs, 0 < p.2) (s d : String) (hd : d ≠ KEPT_ADDR) :
    flowOf (Reconcile asset ss rs) s d = (unitFlow ss rs s d : Int) := by
  unfold Reconcile
  rw [flowOf_reverse, reconcileLoop_flow asset ss rs [] hs hr s d hd]
  simp [flowOf]

/-- kept units are never credited to anyone -/
theorem reconcile_never_credits_kept (asset : String) (ss rs : List (String × Int)) :
    ∀ p ∈ Reconcile asset ss rs, p.destination ≠ KEPT_ADDR := by
  intro p hp
  unfold Reconcile at hp
  rw [List.mem_reverse] at hp
  exact reconcileLoop_forall asset (fun p => p.destination ≠ KEPT_ADDR) (fun _ => True)
    (fun _ => True) (fun _ => True) (fun _ _ _ _ _ h _ => h) (fun _ _ h _ => h)
    (fun _ _ _ _ _ _ => ⟨trivial, trivial⟩) (fun _ _ _ _ _ _ => trivial) ss rs []
    (by simp) (fun _ _ => ⟨trivial, trivial⟩) (fun _ _ => ⟨trivial, trivial⟩) p hp

/-- positive inputs give positive postings -/
theorem reconcile_positive (asset : String) (ss rs : List (String × Int))
    (hs : ∀ p ∈ ss, 0 < p.2) (hr : ∀ p ∈ rs, 0 < p.2) :
    ∀ p ∈ Reconcile asset ss rs, 0 < p.amount := by
  intro p hp
  unfold Reconcile at hp
  rw [List.mem_reverse] at hp
  exact reconcileLoop_forall asset (fun p => 0 < p.amount) (fun _ => True)
    (fun _ => True) (fun a => 0 < a) (fun _ _ _ _ _ _ h => h)
    (fun q a (h1 : 0 < q.amount) (h2 : 0 < a) => show 0 < q.amount + a by omega)
    (fun k ss h _ x hx => ⟨trivial, withhold_pos (fun y hy => (h y hy).2) x hx⟩)
    (fun a b _ _ _ (h : a < b) => show 0 < b - a by omega) ss rs []
    (by simp) (fun x hx => ⟨trivial, hs x hx⟩) (fun x hx => ⟨trivial, hr x hx⟩) p hp

/-- postings only name senders as sources and receivers as destinations, in the statement's asset -/
theorem reconcile_names (asset : String) (ss rs : List (String × Int)) :
    ∀ p ∈ Reconcile asset ss rs,
      p.source ∈ ss.map (·.1) ∧ p.destination ∈ rs.map (·.1) ∧ p.asset = asset := by
  intro p hp
  unfold Reconcile at hp
  rw [List.mem_reverse] at hp
  exact reconcileLoop_forall asset
    (fun p => p.source ∈ ss.map (fun x : String × Int => x.1) ∧
      p.destination ∈ rs.map (fun x : String × Int => x.1) ∧ p.asset = asset)
    (fun n => n ∈ ss.map (fun x : String × Int => x.1))
    (fun n => n ∈ rs.map (fun x : String × Int => x.1)) (fun _ => True)
    (fun _ _ _ h1 h2 _ _ => ⟨h1, h2, rfl⟩) (fun _ _ h _ => h)
    (fun k l h _ x hx => by
      obtain ⟨y, hy, e⟩ := withhold_mem_name hx
      exact ⟨e ▸ (h y hy).1, trivial⟩)
    (fun _ _ _ _ _ _ => trivial) ss rs []
    (by simp) (fun x hx => ⟨List.mem_map_of_mem hx, trivial⟩)
    (fun x hx => ⟨List.mem_map_of_mem hx, trivial⟩) p hp

/-- consecutive postings with the same source and destination are merged -/
theorem reconcile_merges_adjacent (asset : String) (ss rs : List (String × Int)) :
    NoAdjacentSamePair (Reconcile asset ss rs) := by
  unfold Reconcile
  exact noAdj_reverse (reconcileLoop_noAdj asset ss rs [] trivial)

/-- what is debited from a sender never exceeds what was pulled from it
    (kept units are withheld, never debited) -/
theorem reconcile_debits_le_pulled (asset : String) (ss rs : List (String × Int))
    (hs : ∀ p ∈ ss, 0 < p.2) (hr : ∀ p ∈ rs, 0 < p.2) (a : String) :
    debitsOf (Reconcile asset ss rs) a ≤ pulled ss a := by
  unfold Reconcile
  rw [debitsOf_reverse]
  have := reconcileLoop_debits asset ss rs [] hs hr a
  simpa [debitsOf] using this

/-! non-vacuity: a kept amount larger than the first sender's share (test) -/
example : Reconcile "USD" [("a", 3), ("b", 100)] [(KEPT_ADDR, 7), ("c", 3)] =
    [⟨"b", "c", 3, "USD"⟩] := by
  simp [Reconcile, reconcileLoop, withhold, addPosting, KEPT_ADDR]

end NS
