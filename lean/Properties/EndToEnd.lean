/-
  Properties/EndToEnd.lean — the theorems of C12, C16, C17, C19 restated from the TEXT of a
  script: their hypotheses on the tree (`Complete`, `ParserInv`, distinct caller ranges,
  well-nested expression ranges) are discharged by the parser model's theorems, so the only
  premise left is "the (model) parser accepts the text" — which the correspondence run ties to
  "parser.Parse reports no error".
-/
import Properties.C12
import Properties.C16
import Properties.C17
import Properties.C18
import Properties.C19
import Properties.C15lex
import Properties.C15tree
import Properties.C15ranges
import Proofs.EndToEndLemmas

namespace NS

/-- the tokens of an accepted text, in order -/
theorem parseProgram_tokens (text : List Char) (p : Program) (h : parseProgram text = some p) :
    ∃ ts, lex text = some ts ∧ TokensSorted ts ∧ parseTokens ts = some p := by
  unfold parseProgram at h
  split at h
  · rename_i ts hl
    split at h
    · exact ⟨ts, hl, lex_sorted text ts hl, h⟩
    · cases h
  · cases h

/-- every range of the tree of an accepted text is well formed: children within parents, siblings in
    text order without overlap (C15) -/
theorem parse_ranges_ok (text : List Char) (p : Program) (h : parseProgram text = some p) : p.RangesOk := by
  obtain ⟨ts, _, hs, hp⟩ := parseProgram_tokens text p h
  exact parseTokens_ranges_ok ts p hs hp

/-- the parser invariants assumed by C16/C17 hold for every accepted text -/
theorem parse_parser_inv (text : List Char) (p : Program) (h : parseProgram text = some p) :
    p.ParserInv ∧ (callRanges p).Nodup := by
  obtain ⟨ts, _, hs, hp⟩ := parseProgram_tokens text p h
  obtain ⟨h1, h2⟩ := parseTokens_call_ranges_nodup ts p hs hp
  exact ⟨⟨parse_shape_ok text p h, h2⟩, h1⟩

/-- C12 from the text: whatever the variables, the store and the flag, running an accepted text never panics -/
theorem text_run_never_panics (text : List Char) (p : Program) (h : parseProgram text = some p)
    (rawVars : List (String × String)) (store : Store) (flag : Bool) (s : String) :
    RunProgram p rawVars store flag ≠ .panic s :=
  run_never_panics p (parse_complete text p h) rawVars store flag s

/-- C17 from the text: an accepted text whose check reports no error never fails at run time with a
    static-class error -/
theorem text_clean_check_sound (text : List Char) (p : Program) (h : parseProgram text = some p)
    (st : CState) (hchk : checkProgram [] p = .ok st) (hclean : errorCount st.diags = 0)
    (rawVars : List (String × String)) (store : Store) (flag : Bool) :
    (RunProgram p rawVars store flag).noStaticFailure :=
  clean_check_sound p (parse_complete text p h) st hchk hclean (parse_parser_inv text p h).1 rawVars store flag

/-- C16 from the text: the name diagnostics of an accepted text are exactly the specified ones -/
theorem text_names_exact (text : List Char) (p : Program) (h : parseProgram text = some p) (st : CState)
    (hchk : checkProgram [] p = .ok st) :
    unboundDiags st.diags = unboundSpec p ∧ duplicateDiags st.diags = duplicateSpec p ∧
    unusedDiags st.diags = unusedSpec p := by
  have hcr := (parse_parser_inv text p h).2
  have hpd : unboundDiags ([] : List Diag) = [] ∧ duplicateDiags ([] : List Diag) = [] ∧ unusedDiags ([] : List Diag) = [] :=
    ⟨rfl, rfl, rfl⟩
  exact ⟨unbound_exact p [] st hpd hcr hchk, duplicate_exact p [] st hpd hchk, unused_exact p [] st hpd hcr hchk⟩

/-- C18 from the text: the analysis of an accepted text never panics -/
theorem text_check_never_panics (text : List Char) (p : Program) (h : parseProgram text = some p) (s : String) :
    checkProgram [] p ≠ .panic s :=
  check_never_panics p (ee_program_benign p (parse_complete text p h)) [] s

/-- C19 from the text: on every expression of an accepted text, a cursor inside exactly one variable
    token is answered with that variable -/
theorem text_hover_complete (text : List Char) (p : Program) (h : parseProgram text = some p)
    (e : Expr) (he : e ∈ p.exprs) (pos : Pos) (r : Range) (n : String)
    (hmem : (r, n) ∈ usesE e) (hin : r.contains pos = true)
    (huniq : ∀ o ∈ usesE e, o.1.contains pos = true → o = (r, n)) :
    hoverOnExpression e pos = .ok (some (.variable r n)) := by
  obtain ⟨ts, _, hs, hp⟩ := parseProgram_tokens text p h
  have hc : e.Complete := ee_program_exprs p (parse_complete text p h) e he
  exact hover_expr_complete e (ee_ne_monetaryNil e hc) (parseTokens_exprs_nested ts p hs hp e he) pos r n
    hmem hin huniq (fun s => ee_hover_ne_panic e hc pos s)

end NS
