/-
  Properties/State.lean — the packages keep no process-wide mutable state.  `packageStateTable` (Model/Tables.lean) is
  regenerated from the source on every run: every package-level variable of the hand-written packages with the kind
  of value it holds.  A map or slice that the code of the repository only ever READS (indexing, ranging, `len`,
  membership tests — decided by the extractor from every use, in every package) is listed as a `table`; one that is
  assigned, appended to, deleted from, sliced, handed to an unknown function, returned or stored is a `map` / `slice`.
  Variables that can hold state shared by all calls in the process — written maps and slices, pointers,
  sync.Pool / sync.Map / mutexes, structs — must be among the ones listed here (cobra's command objects).  A cache,
  memo, pool or shared number added at package level, or a write to one of the tables, changes the table and these
  theorems no longer check; a new read-only dispatch table does not.
-/
import Model.Tables

namespace NS

def statefulKinds : List String := ["map", "slice", "pointer", "sync", "struct", "other"]

/-- (cobra's command objects are listed with the kind `cobra`, whatever their names: configuration, not state) -/
def knownPackageState : List (String × String) := []

def statefulIn (pkgs : List String) : List (String × String) :=
  (packageStateTable.filter (fun e => pkgs.contains e.1 && statefulKinds.contains e.2.2)).map (fun e => (e.1, e.2.1))

/-- the interpreter, its helpers and the public API package hold no state between runs -/
theorem interpreter_keeps_no_state : statefulIn ["internal/interpreter", "internal/utils", "."] = [] := by decide

/-- the parser package holds no state between parses -/
theorem parser_keeps_no_state : statefulIn ["internal/parser"] = [] := by decide

/-- the checker's package-level values are tables that no code of the repository writes (the state probe of the
    harness watches them at run time as well) -/
theorem analysis_state_is_its_tables : statefulIn ["internal/analysis"] = [] := by decide

/-- the language server keeps its documents in the `State` value handed to `Handle`, nothing at package level -/
theorem lsp_keeps_no_package_state : statefulIn ["internal/lsp"] = [] := by decide

/-- whole repository: every stateful package-level variable is a known one -/
theorem package_state_known :
    ∀ e ∈ packageStateTable, statefulKinds.contains e.2.2 = true → (e.1, e.2.1) ∈ knownPackageState := by decide

end NS
