/-
  Properties/C13strings.lean — C13 for string literals: a literal denotes the text between its quotes, verbatim.
  For every body made of escaped quotes (`\"`) and of characters other than a quote and a line break (a backslash
  only where the next character of the body is not a quote), the lexer reads `"body"` as ONE string token whatever
  follows, and the value the parser builds from that token is `body` — backslashes included, nothing trimmed.
-/
import Model.Lex
import Model.Parse

namespace NS

/-- bodies of string literals -/
inductive StrBody : List Char → Prop
  | nil : StrBody []
  | esc (t : List Char) : StrBody t → StrBody ('\\' :: '"' :: t)
  | plain (c : Char) (t : List Char) : c ≠ '"' → isNlChar c = false →
      (c = '\\' → ∃ d t', t = d :: t' ∧ d ≠ '"') → StrBody t → StrBody (c :: t)

/-- the lexer's STRING rule walks over a body and goes on with what follows it -/
theorem strBody_append (body tail : List Char) (k : Nat) (h : StrBody body) (ht : strBody tail = some k) :
    strBody (body ++ tail) = some (body.length + k) := by
  induction h with
  | nil => simp [ht]
  | esc t _ ih =>
    simp only [List.cons_append, strBody, ih, List.length_cons]
    congr 1; omega
  | plain c t hq hnl hb _ ih =>
    by_cases hc : c = '\\'
    · obtain ⟨d, t', rfl, hd⟩ := hb hc
      subst hc
      simp only [List.cons_append] at ih ⊢
      rw [strBody.eq_def]
      split
      · simp at *
      · rename_i heq; simp at heq
      · rename_i heq
        simp only [List.cons.injEq] at heq
        exact absurd heq.2.1 hd
      · rename_i c' rest' _ _ heq
        simp only [List.cons.injEq] at heq
        obtain ⟨rfl, rfl⟩ := heq
        simp only [hnl, Bool.false_eq_true, if_false, ih, Option.map_some, List.length_cons]
        congr 1; omega
    · simp only [List.cons_append]
      rw [strBody.eq_def]
      split
      · simp at *
      · rename_i heq; simp only [List.cons.injEq] at heq; exact absurd heq.1 hq
      · rename_i heq; simp only [List.cons.injEq] at heq; exact absurd heq.1 hc
      · rename_i c' rest' _ _ heq
        simp only [List.cons.injEq] at heq
        obtain ⟨rfl, rfl⟩ := heq
        simp only [hnl, Bool.false_eq_true, if_false, ih, Option.map_some, List.length_cons]
        congr 1; omega

/-- … and consumes exactly the body and the closing quote, whatever follows -/
theorem strBody_body (body rest : List Char) (h : StrBody body) :
    strBody (body ++ '"' :: rest) = some (body.length + 1) :=
  strBody_append body ('"' :: rest) 1 h (by simp [strBody])

/-- C13: `"body"` is one STRING token of `body.length + 2` characters, whatever follows it -/
theorem string_literal_is_one_token (body rest : List Char) (h : StrBody body) :
    mString ('"' :: body ++ '"' :: rest) = body.length + 2 := by
  simp only [mString, List.cons_append, strBody_body body rest h]

/-- C13: a body that ENDS with a lone backslash: when no further quote follows on the line, the lexer backs off from
    reading `\"` as an escape and the literal is `"body\"` — one token, the backslash part of the value -/
theorem string_literal_trailing_backslash (body rest : List Char) (h : StrBody body) (hr : strBody rest = none) :
    mString ('"' :: body ++ '\\' :: '"' :: rest) = body.length + 3 := by
  have h2 : strBody ('\\' :: '"' :: rest) = some 2 := by simp [strBody, hr]
  simp only [mString, List.cons_append, strBody_append body _ 2 h h2]

/-- C13: the text kept for that token (the token without its first and last character) is the body, verbatim -/
theorem string_literal_value (body : List Char) :
    (('"' :: body ++ ['"']).tail).dropLast = body := by
  simp

/-! non-vacuity (tests): bodies with escaped quotes first, in the middle and last, and backslashes elsewhere -/
example : StrBody "say \\\"hi\\\"".toList := by
  refine .plain 's' _ (by decide) (by decide) (by intro h; cases h) ?_
  refine .plain 'a' _ (by decide) (by decide) (by intro h; cases h) ?_
  refine .plain 'y' _ (by decide) (by decide) (by intro h; cases h) ?_
  refine .plain ' ' _ (by decide) (by decide) (by intro h; cases h) ?_
  refine .esc _ ?_
  refine .plain 'h' _ (by decide) (by decide) (by intro h; cases h) ?_
  refine .plain 'i' _ (by decide) (by decide) (by intro h; cases h) ?_
  exact .esc _ .nil

example : mString "\"a\\\\b\\\"\" , \"next\"".toList = 8 := by decide
example : mString "\"C:\\\")\n\"next\"".toList = 5 := by decide

end NS
