/-
  Properties/C19frame.lean — the wire format of the language server
  (internal/lsp/server.go): what `encodeMessage` writes, `MessageBuffer.Read`
  reads back exactly, whatever bytes the bodies contain (header look-alikes,
  CR/LF, non-ASCII), message after message; so a client that frames its requests
  the same way sees, in order, exactly the messages the handler produced.
-/
import Model.Frame
import Proofs.FrameLemmas

namespace NS

/-- one message: the reader returns the body and leaves the following bytes untouched.
    (`2^63`: `strconv.ParseInt(_, 10, 0)` rejects larger lengths.) -/
theorem frame_roundtrip (body rest : Bytes) (h : body.length < 2^63) :
    readFrame (encodeFrame body ++ rest) = .ok body rest :=
  fr_frame_roundtrip body rest h

/-- a whole stream: all the messages, in order, then end of input -/
theorem frames_roundtrip (bodies : List Bytes) (h : ∀ b ∈ bodies, b.length < 2^63) :
    readFrames (bodies.length + 1) (bodies.flatMap encodeFrame) = some bodies :=
  fr_frames_roundtrip bodies h

/-- the reader never invents, drops or reorders bytes: a successful read splits the input into
    a header block, the body and the rest -/
theorem readFrame_ok_splits (input body rest : Bytes) (h : readFrame input = .ok body rest) :
    ∃ hdr, input = hdr ++ body ++ rest ∧ hdr ≠ [] :=
  fr_readFrame_ok_splits input body rest h

/-- the length announced is the number of BYTES of the body: the frame of a body is
    `Content-Length: <decimal length>\r\n\r\n<body>` -/
theorem encodeFrame_shape (body : Bytes) :
    encodeFrame body = strBytes "Content-Length: " ++ natBytes body.length ++ [CR, LF, CR, LF] ++ body := rfl

/-- the request/response loop over the wire: for every handler, every state and every list of
    request bodies, the bytes written decode to exactly the handler's messages — per request its
    notifications, then its response — in request order. -/
theorem server_wire {σ : Type} (handler : σ → Bytes → Handled σ) (s : σ) (reqs : List Bytes)
    (hreq : ∀ b ∈ reqs, b.length < 2^63)
    (hout : ∀ b ∈ serverSpec handler s reqs, b.length < 2^63) :
    ∃ out, serverRun handler (reqs.length + 1) s (reqs.flatMap encodeFrame) = some out ∧
      readFrames ((serverSpec handler s reqs).length + 1) out = some (serverSpec handler s reqs) :=
  fr_server_wire handler s reqs hreq hout

/-- the bytes written are exactly the frames of the handler's messages, nothing before, between or after -/
theorem server_output_exact {σ : Type} (handler : σ → Bytes → Handled σ) (s : σ) (reqs : List Bytes)
    (hreq : ∀ b ∈ reqs, b.length < 2^63) :
    serverRun handler (reqs.length + 1) s (reqs.flatMap encodeFrame)
      = some ((serverSpec handler s reqs).flatMap encodeFrame) :=
  fr_serverRun_eq handler s reqs hreq

/-! non-vacuity (tests) -/
example : readFrame (encodeFrame (strBytes "{\"a\":\"é\"}") ++ strBytes "xyz")
    = .ok (strBytes "{\"a\":\"é\"}") (strBytes "xyz") := by decide
example : readFrame (strBytes "content-length:  2 \r\nX-Y: z\n\nabc") = .ok (strBytes "ab") (strBytes "c") := by decide
example : readFrame (strBytes "Content-Length: 5\r\n\r\nab") = .error .unexpectedEOF := by decide
example : readFrame (strBytes "Content-Length : 2\r\n\r\nab") = .error .badLength := by decide
example : readFrame (strBytes "Content-Length: 2\r\n") = .eof := by decide

end NS
