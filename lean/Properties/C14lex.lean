/-
  Properties/C14lex.lean — where parse errors can be.  The lexer with ANTLR's error recovery
  (Model/LexAll.lean) is total; each of its errors is reported at a character of the text; every token it
  produces, and the EOF token, starts inside the text or at its end — and those token starts are the only places
  where the parser's listener is told of a syntax error (the correspondence checked on every run,
  vlib/lex_model.py), so the range `SyntaxError` computes starts inside the text or at its end.
-/
import Model.LexAll
import Model.Show
import Proofs.LexAllLemmas

namespace NS

theorem lexAll_agrees_with_lex (cs : List Char) (ts : List Tok) :
    lex cs = some ts ↔ lexAll cs = (ts, []) := la_lexAll_agrees_with_lex cs ts

theorem lexAll_errors_in_text (cs : List Char) :
    ∀ e ∈ (lexAll cs).2, PosInText cs ⟨e.line, e.col⟩ ∧ e.text ≠ [] := la_errors_in_text cs

theorem lexAll_tokens_in_text (cs : List Char) :
    ∀ t ∈ (lexAll cs).1, PosInText cs ⟨t.line, t.col⟩ ∧ PosInText cs ⟨t.line, t.col + t.text.length⟩ ∧ t.text ≠ [] :=
  la_tokens_in_text cs

theorem eofPos_in_text (cs : List Char) : PosInText cs (eofPos cs) := la_eofPos_in_text cs

/-- the range attached to a syntax error on a token (1-based line as ANTLR reports it) starts inside the text, and
    does not end before it starts -/
theorem syntax_error_on_token_in_text (cs : List Char) (t : Tok) (h : t ∈ (lexAll cs).1) :
    PosInText cs (syntaxErrorRange (t.line + 1) t.col t.text.length).s ∧
    (syntaxErrorRange (t.line + 1) t.col t.text.length).s.line = (syntaxErrorRange (t.line + 1) t.col t.text.length).e.line ∧
    (syntaxErrorRange (t.line + 1) t.col t.text.length).s.char ≤ (syntaxErrorRange (t.line + 1) t.col t.text.length).e.char := by
  have h3 := (la_tokens_in_text cs t h)
  have hne : t.text.length ≠ 0 := by
    intro e; exact h3.2.2 (List.length_eq_zero_iff.mp e)
  refine ⟨?_, rfl, ?_⟩
  · simpa [syntaxErrorRange] using h3.1
  · simp only [syntaxErrorRange]; omega

/-- the same at end of input (the `<EOF>` token, whose text has 5 characters) and for a lexer error (length 1) -/
theorem syntax_error_at_eof_in_text (cs : List Char) (len : Nat) :
    PosInText cs (syntaxErrorRange ((eofPos cs).line + 1) (eofPos cs).char len).s := by
  simpa [syntaxErrorRange] using la_eofPos_in_text cs

theorem lexer_error_range_in_text (cs : List Char) (e : LexErr) (h : e ∈ (lexAll cs).2) :
    PosInText cs (syntaxErrorRange (e.line + 1) e.col 1).s ∧
    (syntaxErrorRange (e.line + 1) e.col 1).s = (syntaxErrorRange (e.line + 1) e.col 1).e := by
  refine ⟨by simpa [syntaxErrorRange] using (la_errors_in_text cs e h).1, ?_⟩
  simp [syntaxErrorRange]

/-! non-vacuity (tests): an unterminated string swallows the rest of its line, `$` and `@` swallow one more character -/
example : lexAll "send \"abc\n$ x @! é #".toList =
    ([⟨.kwSend, "send".toList, 0, 0⟩, ⟨.ident, "x".toList, 1, 2⟩],
     [⟨0, 5, "\"abc\n".toList⟩, ⟨1, 0, "$ ".toList⟩, ⟨1, 4, "@!".toList⟩, ⟨1, 7, "é".toList⟩, ⟨1, 9, "#".toList⟩]) := by
  decide
example : eofPos "a\nbc".toList = ⟨1, 2⟩ := by decide

end NS
