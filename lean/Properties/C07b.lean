/-
  Properties/C07b.lean — totals of the pairing: what the first-come-first-served
  matching of Properties/C07.lean means for per-account credits and debits when
  the amount drawn equals the amount distributed (which the interpreter
  guarantees, see Properties/Statement.lean).
-/
import Spec.Pairing
import Spec.Draw
import Proofs.ReconcileLemmas
import Proofs.ReconcileTotals

namespace NS

/-- every real destination is credited exactly what the distribution gives it;
    nothing is credited on behalf of `kept` -/
theorem reconcile_credits (asset : String) (ss rs : List (String × Int))
    (hs : ∀ p ∈ ss, 0 < p.2) (hr : ∀ p ∈ rs, 0 < p.2) (heq : sumPulls ss = sumPulls rs)
    (x : String) (hx : x ≠ KEPT_ADDR) :
    creditsOf (Reconcile asset ss rs) x = pulled rs x := by
  exact rt_reconcile_credits asset ss rs hs hr (by omega) x hx

/-- the postings add up to what was drawn minus what is kept -/
theorem reconcile_total (asset : String) (ss rs : List (String × Int))
    (hs : ∀ p ∈ ss, 0 < p.2) (hr : ∀ p ∈ rs, 0 < p.2) (heq : sumPulls ss = sumPulls rs) :
    ((Reconcile asset ss rs).map (·.amount)).sum = sumPulls ss - pulled rs KEPT_ADDR := by
  rw [rt_reconcile_total asset ss rs hs hr (by omega), heq]

/-- without `kept`, every source is debited exactly what was drawn from it -/
theorem reconcile_debits_exact (asset : String) (ss rs : List (String × Int))
    (hs : ∀ p ∈ ss, 0 < p.2) (hr : ∀ p ∈ rs, 0 < p.2) (heq : sumPulls ss = sumPulls rs)
    (hk : pulled rs KEPT_ADDR = 0) (a : String) :
    debitsOf (Reconcile asset ss rs) a = pulled ss a := by
  exact rt_reconcile_debits_exact asset ss rs hs hr (by omega)
    (rt_no_kept_of_pulled_zero hr hk) a

/-- at every point of the posting list, an account has been debited at most what was drawn from it -/
theorem reconcile_prefix_debits_le (asset : String) (ss rs : List (String × Int))
    (hs : ∀ p ∈ ss, 0 < p.2) (hr : ∀ p ∈ rs, 0 < p.2) (a : String) (k : Nat) :
    debitsOf ((Reconcile asset ss rs).take k) a ≤ pulled ss a := by
  have hpos := rt_reconcile_pos asset ss rs hs hr
  have h1 := rt_sumBy_take_le (fun p => decide (p.source = a)) hpos k
  have h2 := rt_reconcile_debits_le asset ss rs hs hr a
  rw [debitsOf_eq_sumBy] at h2 ⊢
  omega

/-- … and credited a non-negative amount -/
theorem reconcile_prefix_credits_nonneg (asset : String) (ss rs : List (String × Int))
    (hs : ∀ p ∈ ss, 0 < p.2) (hr : ∀ p ∈ rs, 0 < p.2) (a : String) (k : Nat) :
    0 ≤ creditsOf ((Reconcile asset ss rs).take k) a := by
  have hpos := rt_reconcile_pos asset ss rs hs hr
  rw [rt_creditsOf_eq_sumBy]
  exact rt_sumBy_take_nonneg _ hpos k

/-- nothing in, nothing out -/
theorem reconcile_nil_receivers (asset : String) (ss : List (String × Int)) : Reconcile asset ss [] = [] := by
  simp [Reconcile, reconcileLoop]

theorem reconcile_nil_senders_no_kept (asset : String) (rs : List (String × Int)) :
    Reconcile asset [] rs = [] := by
  simp [Reconcile, rt_loop_nil_senders]

end NS
