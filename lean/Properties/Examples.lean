/-
  Properties/Examples.lean — non-vacuity: for each property theorem whose
  statement has hypotheses, a concrete non-trivial instance that satisfies all
  of them at once (so the implication is not vacuously true).  These are tests,
  labelled as such; they are not part of any property's claim.
-/
import Properties.C010203
import Properties.C1011
import Properties.C12
import Properties.C16
import Properties.C17
import Properties.C18
import Properties.C19
import Proofs.ExampleLemmas

namespace NS

def R0 : Range := Range.zero

/-- `send [USD 15] (source = {@a @a @b} destination = {max [USD 4] kept remaining to @x})`
    then `save [USD 2] from @b`, then `send [USD *] (source = @b allowing overdraft up to [USD 3] destination = @y)` -/
def exStmts : List Statement := [
  .send R0 (.lit R0 (.monetary R0 (.asset R0 "USD") (.number R0 15)))
    (.inorder R0 [.account (.account R0 "a"), .account (.account R0 "a"), .account (.account R0 "b")])
    (.inorder R0 [.mk R0 (.monetary R0 (.asset R0 "USD") (.number R0 4)) (.kept R0)] (.to (.account (.account R0 "x")))),
  .save R0 (.lit R0 (.monetary R0 (.asset R0 "USD") (.number R0 2))) (.account R0 "b"),
  .send R0 (.all R0 (.asset R0 "USD"))
    (.overdraft R0 (.account R0 "b") (some (.monetary R0 (.asset R0 "USD") (.number R0 3))))
    (.account (.account R0 "y"))
]

def exCache : Cache := [(("a", "USD"), 10), (("b", "USD"), 20)]

/-- C01/C02/C03: all hypotheses of `no_unauthorized_overdraft`, `postings_are_real` hold for a run that
    names an account twice, keeps funds, saves, and uses a bounded overdraft — and it produces postings -/
example : ∃ st ps, runStatements [] exStmts ⟨exCache, [], []⟩ = .ok (ps, st) ∧ ps.length ≥ 3 ∧
    VarsWF [] ∧ SendsResolve [] exStmts ∧ unbInStmts [] exStmts "a" "USD" = false ∧
    unbInStmts [] exStmts "b" "USD" = false := by
  refine ⟨⟨[(("a", "USD"), 4), (("b", "USD"), -3), (("x", "USD"), 11), (("y", "USD"), 16)], [], []⟩,
    [⟨"a", "x", 6, "USD"⟩, ⟨"b", "x", 5, "USD"⟩, ⟨"b", "y", 16, "USD"⟩], ?_, by decide, ?_, ?_, ?_, ?_⟩
  · simp [runStatements, runStatement, runSendStatement, runSaveStatement, evaluateSentAmt, evalAs, evalExpr,
      expectMonetary, expectAsset, expectAccount, expectNumber, expectMonetaryOfAsset, trySendingExact,
      trySendingUpTo, sendInorder, trySendingToAccount, sendAll, sendAllToAccount, availableFunds, pushSender,
      pulled, cacheGet, receiveFrom, receiveClauses, receiveKoD, pushReceiver, Reconcile, reconcileLoop,
      withhold, addPosting, applyPostings, cacheSet, cacheHas, savedBalance, WORLD, KEPT_ADDR, exStmts,
      exCache, R0]
  · intro name q h; simp [lookupVar] at h
  · intro s hs hex
    simp only [exStmts, List.mem_cons, List.not_mem_nil, or_false] at hs
    rcases hs with rfl | rfl | rfl
    · simp [stmtSend, evalAs, evalExpr, expectMonetary, expectAsset, expectAccount, expectNumber,
        expectMonetaryOfAsset, resolveS, resolveSList, resolveD, resolveClauses, resolveKoD, WORLD]
    · obtain ⟨_, _, _, _, h⟩ := hex; cases h
    · simp [stmtSend, evalAs, evalExpr, expectMonetary, expectAsset, expectAccount, expectNumber,
        expectMonetaryOfAsset, resolveS, resolveD, WORLD]
  · simp [unbInStmts, exStmts, stmtSend, evalAs, evalExpr, expectMonetary, expectAsset, expectAccount,
      expectNumber, expectMonetaryOfAsset, resolveS, resolveSList, resolveD, resolveClauses, resolveKoD,
      WORLD, unbIn, unbInList]
  · simp [unbInStmts, exStmts, stmtSend, evalAs, evalExpr, expectMonetary, expectAsset, expectAccount,
      expectNumber, expectMonetaryOfAsset, resolveS, resolveSList, resolveD, resolveClauses, resolveKoD,
      WORLD, unbIn, unbInList]

/-- the overdraft floor of @b in that script is −3 and is reached -/
example : overdraftFloor (balOfCache exCache) [] exStmts "b" "USD" = -3 := by
  simp [overdraftFloor, balOfCache, cacheGet, exCache, grantsOfStmts, maxGrant, grantsOf, grantsOfList,
    exStmts, stmtSend, evalAs, evalExpr, expectMonetary, expectAsset, expectAccount, expectNumber,
    expectMonetaryOfAsset, resolveS, resolveSList, resolveD, resolveClauses, resolveKoD, WORLD]

/-- C10: two different stores faithful to the same content exist (exact and whole-content) -/
def exContent : Content := ⟨fun a c => if a = "a" ∧ c = "USD" then 10 else 0, fun _ _ => none⟩
def exStoreExact : Store :=
  ⟨fun _ q => .ok (q.flatMap (fun p => p.2.map (fun c => ((p.1, c), exContent.bal p.1 c)))), fun _ _ _ => .ok []⟩
def exStoreWhole : Store := ⟨fun _ _ => .ok [(("a", "USD"), 10), (("zz", "EUR"), 0)], fun _ _ _ => .ok []⟩

example : Faithful exStoreExact exContent ∧ Faithful exStoreWhole exContent := by
  refine ⟨⟨fun idx q => ⟨_, rfl, ?_, ?_⟩, fun idx a k => ⟨[], rfl, rfl⟩⟩,
          ⟨fun idx q => ⟨_, rfl, ?_, ?_⟩, fun idx a k => ⟨[], rfl, rfl⟩⟩⟩
  · intro a c v h
    exact ex_ansFind_tabulate_some exContent.bal q a c v h
  · intro a cs hq c hc h
    exact absurd h (ex_ansFind_tabulate_ne_none exContent.bal q a c cs hq hc)
  · intro a c v h
    simp only [ex_ansFind_cons, ex_ansFind_nil, exContent] at h ⊢
    split at h
    · rename_i h1; obtain ⟨rfl, rfl⟩ := h1; simpa using h.symm
    · rename_i h1
      have h1' : ¬ (a = "a" ∧ c = "USD") := fun ⟨x, y⟩ => h1 ⟨x.symm, y.symm⟩
      split at h
      · simpa [h1'] using h.symm
      · cases h
  · intro a cs hq c hc h
    simp only [ex_ansFind_cons, ex_ansFind_nil, exContent] at h ⊢
    split at h
    · cases h
    · rename_i h1
      have h1' : ¬ (a = "a" ∧ c = "USD") := fun ⟨x, y⟩ => h1 ⟨x.symm, y.symm⟩
      simp [h1']

/-- C12: a complete program (hypothesis of `run_never_panics`) -/
example : (⟨[], exStmts⟩ : Program).Complete := by
  simp [Program.Complete, VarDeclsComplete, StatementsComplete, Statement.Complete, SentValue.Complete,
    Expr.Complete, Source.Complete, SourcesComplete, Dest.Complete, KoD.Complete, ClausesComplete, exStmts]

/-- C16/C17: the parser invariants and a clean check hold for the example program -/
example : (callRanges ⟨[], exStmts⟩).Nodup ∧ (⟨[], exStmts⟩ : Program).ParserInv ∧
    ∃ st, checkProgram [] ⟨[], exStmts⟩ = .ok st ∧ errorCount st.diags = 0 := by
  refine ⟨?_, ⟨?_, ?_⟩, ?_⟩
  · simp [callRanges, exStmts, stmtCall]
  · intro s hs
    simp only [exStmts, List.mem_cons, List.not_mem_nil, or_false] at hs
    rcases hs with rfl | rfl | rfl <;>
      simp [Statement.ShapeOk, Source.ShapeOk, SourcesShapeOk, Dest.ShapeOk, KoD.ShapeOk, ClausesShapeOk]
  · simp [Program.fnRanges, sd_declsFnRanges, sd_stmtsFnRanges, Statement.fnRanges, exStmts]
  · -- the check reports one warning (`@a` is emptied by its first mention) and no error
    simp [checkProgram, checkVarDecls, checkStatements, checkStatement, checkSentValue, checkExpression,
      assertHasType, checkSource, checkSourceList, sourceHead, checkSourceAccountLit, checkOverdraftHead,
      checkDestination, checkClauses, checkKoD, CState.push, exStmts, WORLD, R0, errorCount,
      DiagKind.severity, DiagKind.name, severityTable]

/-- C18: a benign tree with missing pieces (what a half-typed document gives): a send without
    destination, an allotment clause without portion, a declaration without origin -/
def exPartial : Program :=
  ⟨[⟨R0, some (R0, "x"), some (R0, "monetary"), none⟩],
   [.send R0 (.lit R0 (.var R0 "x")) (.allotment R0 [.mk R0 .nil (.account (.account R0 "a"))]) .nil, .nil]⟩

example : exPartial.Benign ∧ ¬ exPartial.Complete := by
  constructor
  · simp [exPartial, Program.Benign, VarDeclsBenign, VarDecl.Benign, StatementsBenign, Statement.Benign,
      SentValue.Benign, Expr.Benign, Source.Benign, SrcItemsBenign, AllotVal.Benign, Dest.Benign]
  · simp [exPartial, Program.Complete, VarDeclsComplete, VarDecl.Complete, StatementsComplete,
      Statement.Complete, SentValue.Complete, Expr.Complete, Source.Complete, SrcItemsComplete,
      AllotVal.Complete, Dest.Complete]

/-- C19: a well-nested expression with two variable tokens, and a cursor inside exactly one of them -/
def exExpr : Expr :=
  .monetary ⟨⟨0, 0⟩, ⟨0, 12⟩⟩ (.var ⟨⟨0, 1⟩, ⟨0, 4⟩⟩ "as") (.var ⟨⟨0, 6⟩, ⟨0, 10⟩⟩ "amt")

example : exExpr.Nested ∧ (⟨⟨0, 6⟩, ⟨0, 10⟩⟩, "amt") ∈ usesE exExpr ∧
    hoverOnExpression exExpr ⟨0, 7⟩ = .ok (some (.variable ⟨⟨0, 6⟩, ⟨0, 10⟩⟩ "amt")) := by
  refine ⟨?_, ?_, ?_⟩
  · simp only [exExpr, Expr.Nested, Expr.range, Range.contains, Pos.gtEq]
    refine ⟨?_, ?_, trivial, trivial⟩
    · rintro ⟨l, c⟩ h _
      simp at h ⊢
      obtain ⟨-, rfl, h3⟩ := h
      exact ⟨Or.inl rfl, rfl, by omega⟩
    · rintro ⟨l, c⟩ h _
      simp at h ⊢
      obtain ⟨-, rfl, h3⟩ := h
      exact ⟨Or.inl rfl, rfl, by omega⟩
  · simp [exExpr, usesE]
  · simp [exExpr, hoverOnExpression, Range.contains, Pos.gtEq]

end NS
