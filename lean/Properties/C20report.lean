/-
  Properties/C20report.lean — `numscript check FILE` prints every diagnostic the library computed, once,
  with its position, in position order, and its exit status says whether one of them is an error.
-/
import Model.CliReport

namespace NS

theorem insertDiag_perm (d : RDiag) (l : List RDiag) : (insertDiag d l).Perm (d :: l) := by
  induction l with
  | nil => exact List.Perm.refl _
  | cons x xs ih =>
    unfold insertDiag
    split
    · exact (List.Perm.cons x ih).trans (List.Perm.swap d x xs)
    · exact List.Perm.refl _

/-- sorting neither loses nor duplicates a diagnostic -/
theorem sortDiags_perm (ds : List RDiag) : (sortDiags ds).Perm ds := by
  induction ds with
  | nil => exact List.Perm.refl _
  | cons d ds ih => exact (insertDiag_perm d (sortDiags ds)).trans (List.Perm.cons d ih)

theorem startLe_total (a b : RDiag) : startLe a b = true ∨ startLe b a = true := by
  unfold startLe
  by_cases h1 : a.line < b.line
  · left; simp [h1]
  · by_cases h2 : b.line < a.line
    · right; simp [h2]
    · have : a.line = b.line := by omega
      by_cases h3 : a.char ≤ b.char
      · left; simp [this, h3]
      · right; simp [this]; omega

theorem insertDiag_sorted (d : RDiag) (l : List RDiag) (h : SortedByStart l) : SortedByStart (insertDiag d l) := by
  induction l with
  | nil => simp [insertDiag, SortedByStart]
  | cons x xs ih =>
    unfold insertDiag
    split
    · rename_i hx
      cases xs with
      | nil => simp [insertDiag, SortedByStart, hx]
      | cons y ys =>
        have hs : startLe x y = true ∧ SortedByStart (y :: ys) := h
        have ih' := ih hs.2
        unfold insertDiag at ih' ⊢
        split
        · rename_i hy
          rw [if_pos hy] at ih'
          exact ⟨hs.1, ih'⟩
        · rename_i hy
          rw [if_neg hy] at ih'
          exact ⟨hx, ih'⟩
    · rename_i hx
      have := startLe_total x d
      have hdx : startLe d x = true := by
        cases this with
        | inl h' => exact absurd h' hx
        | inr h' => exact h'
      exact ⟨hdx, h⟩

/-- the printing order is by start position -/
theorem sortDiags_sorted (ds : List RDiag) : SortedByStart (sortDiags ds) := by
  induction ds with
  | nil => trivial
  | cons d ds ih => exact insertDiag_sorted d _ ih

theorem errorsOf_ne_zero_iff (ds : List RDiag) : errorsOf ds ≠ 0 ↔ ∃ d ∈ ds, d.sev = 1 := by
  unfold errorsOf
  constructor
  · intro h
    have : (ds.filter (fun d => d.sev == 1)) ≠ [] := by
      intro e; rw [e] at h; exact h rfl
    obtain ⟨d, hd⟩ := List.exists_mem_of_ne_nil _ this
    rw [List.mem_filter] at hd
    exact ⟨d, hd.1, by simpa using hd.2⟩
  · rintro ⟨d, hd, h1⟩ h0
    have : d ∈ ds.filter (fun d => d.sev == 1) := List.mem_filter.mpr ⟨hd, by simp [h1]⟩
    rw [List.length_eq_zero_iff.mp h0] at this
    exact absurd this (List.not_mem_nil)

/-- exit status non-zero exactly when a diagnostic has error severity, whatever the printing order -/
theorem report_exit_iff (path : String) (ds : List RDiag) (out : String) (code : Nat)
    (h : checkReport path ds = some (out, code)) : code ≠ 0 ↔ ∃ d ∈ ds, d.sev = 1 := by
  unfold checkReport at h
  cases hb : diagBlocks path ds true with
  | none => simp [hb] at h
  | some body =>
    simp only [hb, Option.map_some, Option.some.injEq, Prod.mk.injEq] at h
    rw [← h.2, ← errorsOf_ne_zero_iff]
    unfold reportTail
    by_cases hn : errorsOf ds ≠ 0
    · simp [hn]
    · simp [hn]

/-- the exit status does not depend on the order in which the diagnostics are printed -/
theorem report_exit_sorted (path : String) (ds : List RDiag) (out : String) (code : Nat)
    (h : checkReport path (sortDiags ds) = some (out, code)) : code ≠ 0 ↔ ∃ d ∈ ds, d.sev = 1 := by
  rw [report_exit_iff path _ out code h]
  constructor
  · rintro ⟨d, hd, h1⟩; exact ⟨d, (sortDiags_perm ds).mem_iff.mp hd, h1⟩
  · rintro ⟨d, hd, h1⟩; exact ⟨d, (sortDiags_perm ds).mem_iff.mpr hd, h1⟩

theorem diagBlocks_some (path : String) (ds : List RDiag) (first : Bool)
    (h : ∀ d ∈ ds, 1 ≤ d.sev ∧ d.sev ≤ 4) : (diagBlocks path ds first).isSome := by
  induction ds generalizing first with
  | nil => simp [diagBlocks]
  | cons d ds ih =>
    have hd := h d List.mem_cons_self
    have hb : (diagBlock path d).isSome := by
      unfold diagBlock
      have : (sevAnsi d.sev).isSome := by
        obtain ⟨h1, h4⟩ := hd
        have : d.sev = 1 ∨ d.sev = 2 ∨ d.sev = 3 ∨ d.sev = 4 := by omega
        rcases this with e | e | e | e <;> simp [e, sevAnsi]
      simpa using this
    have hr := ih false (fun x hx => h x (List.mem_cons_of_mem _ hx))
    unfold diagBlocks
    obtain ⟨b, eb⟩ := Option.isSome_iff_exists.mp hb
    obtain ⟨r, er⟩ := Option.isSome_iff_exists.mp hr
    simp [eb, er]

/-- the report is produced (no panic) for the four severities the library defines -/
theorem report_total (path : String) (ds : List RDiag) (h : ∀ d ∈ ds, 1 ≤ d.sev ∧ d.sev ≤ 4) :
    (checkReport path ds).isSome := by
  unfold checkReport
  simpa using diagBlocks_some path ds true h

/-- every diagnostic is printed, with its position, severity and message: its block
    `FILE:line:char - severity⏎message⏎` occurs in the output -/
theorem report_lists_every_diagnostic (path : String) (ds : List RDiag) (out : String) (code : Nat)
    (h : checkReport path ds = some (out, code)) :
    ∀ d ∈ ds, ∃ b pre post, diagBlock path d = some b ∧ out = pre ++ b ++ post := by
  unfold checkReport at h
  cases hb : diagBlocks path ds true with
  | none => simp [hb] at h
  | some body =>
    simp only [hb, Option.map_some, Option.some.injEq, Prod.mk.injEq] at h
    have key : ∀ (l : List RDiag) (first : Bool) (body : String), diagBlocks path l first = some body →
        ∀ d ∈ l, ∃ b pre post, diagBlock path d = some b ∧ body = pre ++ b ++ post := by
      intro l
      induction l with
      | nil => intro _ _ _ d hd; cases hd
      | cons x xs ih =>
        intro first body hbody d hd
        unfold diagBlocks at hbody
        cases hx : diagBlock path x with
        | none => simp [hx] at hbody
        | some bx =>
          cases hr : diagBlocks path xs false with
          | none => simp [hx, hr] at hbody
          | some rest =>
            simp only [hx, hr, Option.some.injEq] at hbody
            rcases List.mem_cons.mp hd with e | e
            · subst e
              exact ⟨bx, (if first then "" else "\n\n"), rest, hx, hbody.symm⟩
            · obtain ⟨b, pre, post, h1, h2⟩ := ih false rest hr d e
              refine ⟨b, (if first then "" else "\n\n") ++ bx ++ pre, post, h1, ?_⟩
              rw [← hbody, h2]
              simp [String.append_assoc]
    intro d hd
    obtain ⟨b, pre, post, h1, h2⟩ := key ds true body hb d hd
    refine ⟨b, pre, post ++ (reportTail ds).1, h1, ?_⟩
    rw [← h.1, h2]
    simp [String.append_assoc]

/-- non-vacuity (tests) -/
example : checkReport "f.num" (sortDiags [⟨2,0,1,"bad"⟩, ⟨1,3,2,"meh"⟩]) =
    some ("f.num:1:3 - \x1b[33mWarning\x1b[0m\nmeh\n\n\nf.num:2:0 - \x1b[31mError\x1b[0m\nbad\n\n\n\x1b[31mFound 1 error\x1b[0m\n", 1) := by
  decide
example : checkReport "f.num" [] = some ("No errors found ✅\n", 0) := by decide

end NS
