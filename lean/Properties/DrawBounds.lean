/-
  Properties/DrawBounds.lean — what a draw can take from an account
  (the per-statement facts behind C01, C02 and C03), proved about the
  reference draw of Spec/Draw.lean.
-/
import Spec.Draw
import Properties.C06
import Proofs.DrawBoundLemmas

namespace NS

mutual
  /-- all literal / variable portions of a resolved source are non-negative -/
  def PortionsNonnegS : RSource → Prop
    | .acct _ _ => True
    | .unb _ => True
    | .capped _ s => PortionsNonnegS s
    | .inorder l => PortionsNonnegSs l
    | .allot qs subs => (∀ q, some q ∈ qs → 0 ≤ q) ∧ PortionsNonnegSs subs
  def PortionsNonnegSs : List RSource → Prop
    | [] => True
    | s :: ss => PortionsNonnegS s ∧ PortionsNonnegSs ss
end

/-! ### helper invariants (they need the C06 theorems, so they live here) -/

/-- a successful `allotOf` of a non-negative amount with non-negative portions gives
    non-negative parts that add up to the amount -/
private theorem allotOf_good (need : Int) (qs : List (Option Rat)) (parts : List Int)
    (hn : 0 ≤ need) (hq : ∀ q, some q ∈ qs → 0 ≤ q) (h : allotOf need qs = .ok parts) :
    (∀ p ∈ parts, 0 ≤ p) ∧ parts.sum = need := by
  unfold allotOf at h
  simp only at h
  split at h
  · rename_i hany
    split at h
    · cases h
    · rename_i hgt
      injection h with h
      subst h
      have hle : sumSome qs ≤ 1 := not_lt.mp hgt
      have hnn := fillRemaining_nonneg qs hq hle
      exact ⟨allotParts_nonneg _ _ hn hnn, allot_sum _ _ hn hnn (fillRemaining_sum qs hany)⟩
  · rename_i hany
    split at h
    · cases h
    · rename_i hne
      injection h with h
      subst h
      have hs : sumSome qs = 1 := not_not.mp hne
      have hnn : ∀ p ∈ fillRemaining 0 qs, 0 ≤ p := fillRemaining_mem_nonneg 0 (le_refl _) qs hq
      have hsum : (fillRemaining 0 qs).sum = 1 := by
        rw [fillRemaining_no_remaining_sum qs ((Bool.not_eq_true _).mp hany)]
        exact hs
      exact ⟨allotParts_nonneg _ _ hn hnn, allot_sum _ _ hn hnn hsum⟩

mutual
  private theorem draw_inv (asset : String) : ∀ (r : RSource) (av : Avail) (need : Int)
      (l : Pulls), 0 ≤ need → PortionsNonnegS r → draw asset r av need = .ok l →
      (∀ p ∈ l, 0 ≤ p.2) ∧ sumPulls l ≤ need
    | .acct a od, av, need, l, hn, _, h => by
        simp only [draw, Outcome.ok.injEq] at h
        subst h
        simp only [List.mem_singleton, forall_eq, sumPulls]
        omega
    | .unb a, av, need, l, hn, _, h => by
        simp only [draw, Outcome.ok.injEq] at h
        subst h
        simp only [List.mem_singleton, forall_eq, sumPulls]
        omega
    | .capped cap s, av, need, l, hn, hp, h => by
        rw [draw] at h
        rw [PortionsNonnegS] at hp
        have i := draw_inv asset s av (max 0 (min need cap)) l (by omega) hp h
        exact ⟨i.1, by omega⟩
    | .inorder ss, av, need, l, hn, hp, h => by
        rw [draw] at h
        rw [PortionsNonnegS] at hp
        exact drawList_inv asset ss av need l hn hp h
    | .allot qs subs, av, need, l, hn, hp, h => by
        rw [draw] at h
        rw [PortionsNonnegS] at hp
        split at h
        · cases h
        · cases h
        · rename_i parts hparts
          have hg := allotOf_good need qs parts hn hp.1 hparts
          have i := drawAllot_inv asset subs parts av l hg.1 hp.2 h
          exact ⟨i.1, by omega⟩

  private theorem drawList_inv (asset : String) : ∀ (rs : List RSource) (av : Avail) (need : Int)
      (l : Pulls), 0 ≤ need → PortionsNonnegSs rs → drawList asset rs av need = .ok l →
      (∀ p ∈ l, 0 ≤ p.2) ∧ sumPulls l ≤ need
    | [], av, need, l, hn, _, h => by
        simp only [drawList, Outcome.ok.injEq] at h
        subst h
        simp only [List.not_mem_nil, false_imp_iff, implies_true, sumPulls, true_and]
        exact hn
    | s :: ss, av, need, l, hn, hp, h => by
        rw [drawList] at h
        rw [PortionsNonnegSs] at hp
        split at h
        · cases h
        · cases h
        · rename_i l1 h1
          have i1 := draw_inv asset s av need l1 hn hp.1 h1
          split at h
          · cases h
          · cases h
          · rename_i l2 h2
            injection h with h
            subst h
            have i2 := drawList_inv asset ss _ _ l2 (by omega) hp.2 h2
            refine ⟨mem_append_nonneg l1 l2 i1.1 i2.1, ?_⟩
            rw [sumPulls_append]
            omega

  private theorem drawAllot_inv (asset : String) : ∀ (rs : List RSource) (parts : List Int)
      (av : Avail) (l : Pulls), (∀ p ∈ parts, 0 ≤ p) → PortionsNonnegSs rs →
      drawAllot asset rs parts av = .ok l → (∀ p ∈ l, 0 ≤ p.2) ∧ sumPulls l ≤ parts.sum
    | [], parts, av, l, hparts, _, h => by
        simp only [drawAllot, Outcome.ok.injEq] at h
        subst h
        simp only [List.not_mem_nil, false_imp_iff, implies_true, sumPulls, true_and]
        exact int_list_sum_nonneg parts hparts
    | _ :: _, [], av, l, _, _, h => by
        simp [drawAllot] at h
    | s :: ss, p :: ps, av, l, hparts, hp, h => by
        rw [drawAllot] at h
        rw [PortionsNonnegSs] at hp
        have hp0 : 0 ≤ p := hparts p (by simp)
        have hps : ∀ q ∈ ps, 0 ≤ q := fun q hq => hparts q (List.mem_cons_of_mem _ hq)
        split at h
        · cases h
        · cases h
        · rename_i l1 h1
          have i1 := draw_inv asset s av p l1 hp0 hp.1 h1
          split at h
          · rename_i heq
            split at h
            · cases h
            · cases h
            · rename_i l2 h2
              injection h with h
              subst h
              have i2 := drawAllot_inv asset ss ps _ l2 hps hp.2 h2
              refine ⟨mem_append_nonneg l1 l2 i1.1 i2.1, ?_⟩
              rw [sumPulls_append, List.sum_cons]
              omega
          · cases h
end

mutual
  private theorem draw_bound (asset : String) (a : String) : ∀ (r : RSource) (av : Avail)
      (need : Int) (l : Pulls), 0 ≤ need → PortionsNonnegS r → unbIn a r = false →
      draw asset r av need = .ok l → pulled l a ≤ max 0 (av a + maxGrant (grantsOf a r))
    | .acct b od, av, need, l, hn, _, _, h => by
        simp only [draw, Outcome.ok.injEq] at h
        subst h
        rw [grantsOf]
        simp only [pulled]
        by_cases hb : b = a
        · subst hb
          simp only [if_true, maxGrant]
          omega
        · simp only [hb, if_false, maxGrant]
          omega
    | .unb b, av, need, l, hn, _, hu, h => by
        simp only [draw, Outcome.ok.injEq] at h
        subst h
        have hb : ¬ b = a := by simpa [unbIn] using hu
        simp only [pulled, hb, if_false, grantsOf, maxGrant]
        omega
    | .capped cap s, av, need, l, hn, hp, hu, h => by
        rw [draw] at h
        rw [PortionsNonnegS] at hp
        rw [unbIn] at hu
        rw [grantsOf]
        exact draw_bound asset a s av (max 0 (min need cap)) l (by omega) hp hu h
    | .inorder ss, av, need, l, hn, hp, hu, h => by
        rw [draw] at h
        rw [PortionsNonnegS] at hp
        rw [unbIn] at hu
        rw [grantsOf]
        exact drawList_bound asset a ss av need l hn hp hu h
    | .allot qs subs, av, need, l, hn, hp, hu, h => by
        rw [draw] at h
        rw [PortionsNonnegS] at hp
        rw [unbIn] at hu
        rw [grantsOf]
        split at h
        · cases h
        · cases h
        · rename_i parts hparts
          have hg := allotOf_good need qs parts hn hp.1 hparts
          exact drawAllot_bound asset a subs parts av l hg.1 hp.2 hu h

  private theorem drawList_bound (asset : String) (a : String) : ∀ (rs : List RSource) (av : Avail)
      (need : Int) (l : Pulls), 0 ≤ need → PortionsNonnegSs rs → unbInList a rs = false →
      drawList asset rs av need = .ok l → pulled l a ≤ max 0 (av a + maxGrant (grantsOfList a rs))
    | [], av, need, l, _, _, _, h => by
        simp only [drawList, Outcome.ok.injEq] at h
        subst h
        simp only [pulled]
        omega
    | s :: ss, av, need, l, hn, hp, hu, h => by
        rw [drawList] at h
        rw [PortionsNonnegSs] at hp
        have hu' := unbInList_cons_false hu
        split at h
        · cases h
        · cases h
        · rename_i l1 h1
          have i1 := draw_inv asset s av need l1 hn hp.1 h1
          have b1 := draw_bound asset a s av need l1 hn hp.1 hu'.1 h1
          split at h
          · cases h
          · cases h
          · rename_i l2 h2
            injection h with h
            subst h
            have b2 := drawList_bound asset a ss _ _ l2 (by omega) hp.2 hu'.2 h2
            rw [pulled_append', grantsOfList, maxGrant_append]
            exact pulled_bound_step _ _ _ _ _ (pulled_nonneg_of l1 a i1.1) b1 b2

  private theorem drawAllot_bound (asset : String) (a : String) : ∀ (rs : List RSource)
      (parts : List Int) (av : Avail) (l : Pulls), (∀ p ∈ parts, 0 ≤ p) → PortionsNonnegSs rs →
      unbInList a rs = false → drawAllot asset rs parts av = .ok l →
      pulled l a ≤ max 0 (av a + maxGrant (grantsOfList a rs))
    | [], parts, av, l, _, _, _, h => by
        simp only [drawAllot, Outcome.ok.injEq] at h
        subst h
        simp only [pulled]
        omega
    | _ :: _, [], av, l, _, _, _, h => by
        simp [drawAllot] at h
    | s :: ss, p :: ps, av, l, hparts, hp, hu, h => by
        rw [drawAllot] at h
        rw [PortionsNonnegSs] at hp
        have hu' := unbInList_cons_false hu
        have hp0 : 0 ≤ p := hparts p (by simp)
        have hps : ∀ q ∈ ps, 0 ≤ q := fun q hq => hparts q (List.mem_cons_of_mem _ hq)
        split at h
        · cases h
        · cases h
        · rename_i l1 h1
          have i1 := draw_inv asset s av p l1 hp0 hp.1 h1
          have b1 := draw_bound asset a s av p l1 hp0 hp.1 hu'.1 h1
          split at h
          · split at h
            · cases h
            · cases h
            · rename_i l2 h2
              injection h with h
              subst h
              have b2 := drawAllot_bound asset a ss ps _ l2 hps hp.2 hu'.2 h2
              rw [pulled_append', grantsOfList, maxGrant_append]
              exact pulled_bound_step _ _ _ _ _ (pulled_nonneg_of l1 a i1.1) b1 b2
          · cases h
end

mutual
  private theorem drawAll_inv (asset : String) : ∀ (r : RSource) (av : Avail) (l : Pulls),
      PortionsNonnegS r → drawAll asset r av = .ok l → ∀ p ∈ l, 0 ≤ p.2
    | .acct a od, av, l, _, h => by
        simp only [drawAll, Outcome.ok.injEq] at h
        subst h
        simp only [List.mem_singleton, forall_eq]
        omega
    | .unb a, av, l, _, h => by
        simp [drawAll] at h
    | .capped cap s, av, l, hp, h => by
        rw [drawAll] at h
        rw [PortionsNonnegS] at hp
        exact (draw_inv asset s av (max 0 cap) l (by omega) hp h).1
    | .inorder ss, av, l, hp, h => by
        rw [drawAll] at h
        rw [PortionsNonnegS] at hp
        exact drawAllList_inv asset ss av l hp h
    | .allot qs subs, av, l, _, h => by
        simp [drawAll] at h

  private theorem drawAllList_inv (asset : String) : ∀ (rs : List RSource) (av : Avail) (l : Pulls),
      PortionsNonnegSs rs → drawAllList asset rs av = .ok l → ∀ p ∈ l, 0 ≤ p.2
    | [], av, l, _, h => by
        simp only [drawAllList, Outcome.ok.injEq] at h
        subst h
        simp
    | s :: ss, av, l, hp, h => by
        rw [drawAllList] at h
        rw [PortionsNonnegSs] at hp
        split at h
        · cases h
        · cases h
        · rename_i l1 h1
          have i1 := drawAll_inv asset s av l1 hp.1 h1
          split at h
          · cases h
          · cases h
          · rename_i l2 h2
            injection h with h
            subst h
            exact mem_append_nonneg l1 l2 i1 (drawAllList_inv asset ss _ l2 hp.2 h2)
end

mutual
  private theorem drawAll_bound (asset : String) (a : String) : ∀ (r : RSource) (av : Avail)
      (l : Pulls), PortionsNonnegS r → unbIn a r = false →
      drawAll asset r av = .ok l → pulled l a ≤ max 0 (av a + maxGrant (grantsOf a r))
    | .acct b od, av, l, _, _, h => by
        simp only [drawAll, Outcome.ok.injEq] at h
        subst h
        rw [grantsOf]
        simp only [pulled]
        by_cases hb : b = a
        · subst hb
          simp only [if_true, maxGrant]
          omega
        · simp only [hb, if_false, maxGrant]
          omega
    | .unb b, av, l, _, _, h => by
        simp [drawAll] at h
    | .capped cap s, av, l, hp, hu, h => by
        rw [drawAll] at h
        rw [PortionsNonnegS] at hp
        rw [unbIn] at hu
        rw [grantsOf]
        exact draw_bound asset a s av (max 0 cap) l (by omega) hp hu h
    | .inorder ss, av, l, hp, hu, h => by
        rw [drawAll] at h
        rw [PortionsNonnegS] at hp
        rw [unbIn] at hu
        rw [grantsOf]
        exact drawAllList_bound asset a ss av l hp hu h
    | .allot qs subs, av, l, _, _, h => by
        simp [drawAll] at h

  private theorem drawAllList_bound (asset : String) (a : String) : ∀ (rs : List RSource)
      (av : Avail) (l : Pulls), PortionsNonnegSs rs → unbInList a rs = false →
      drawAllList asset rs av = .ok l → pulled l a ≤ max 0 (av a + maxGrant (grantsOfList a rs))
    | [], av, l, _, _, h => by
        simp only [drawAllList, Outcome.ok.injEq] at h
        subst h
        simp only [pulled]
        omega
    | s :: ss, av, l, hp, hu, h => by
        rw [drawAllList] at h
        rw [PortionsNonnegSs] at hp
        have hu' := unbInList_cons_false hu
        split at h
        · cases h
        · cases h
        · rename_i l1 h1
          have i1 := drawAll_inv asset s av l1 hp.1 h1
          have b1 := drawAll_bound asset a s av l1 hp.1 hu'.1 h1
          split at h
          · cases h
          · cases h
          · rename_i l2 h2
            injection h with h
            subst h
            have b2 := drawAllList_bound asset a ss _ l2 hp.2 hu'.2 h2
            rw [pulled_append', grantsOfList, maxGrant_append]
            exact pulled_bound_step _ _ _ _ _ (pulled_nonneg_of l1 a i1) b1 b2
end

/-! ### the properties -/

/-- every pull of a draw of a non-negative amount is non-negative -/
theorem draw_pulls_nonneg (asset : String) (r : RSource) (av : Avail) (need : Int) (l : Pulls)
    (hn : 0 ≤ need) (hp : PortionsNonnegS r) (h : draw asset r av need = .ok l) : ∀ p ∈ l, 0 ≤ p.2 := by
  exact (draw_inv asset r av need l hn hp h).1

theorem drawAll_pulls_nonneg (asset : String) (r : RSource) (av : Avail) (l : Pulls)
    (hp : PortionsNonnegS r) (h : drawAll asset r av = .ok l) : ∀ p ∈ l, 0 ≤ p.2 := by
  exact drawAll_inv asset r av l hp h

/-- The overdraft bound of one statement: an account that is not an unbounded source gives in
    total at most what it has plus the largest overdraft granted to it in this source (never a
    negative amount) — even when it is named several times. -/
theorem draw_pulled_bound (asset : String) (r : RSource) (av : Avail) (need : Int) (l : Pulls) (a : String)
    (hn : 0 ≤ need) (hp : PortionsNonnegS r) (hu : unbIn a r = false) (h : draw asset r av need = .ok l) :
    pulled l a ≤ max 0 (av a + maxGrant (grantsOf a r)) := by
  exact draw_bound asset a r av need l hn hp hu h

theorem drawAll_pulled_bound (asset : String) (r : RSource) (av : Avail) (l : Pulls) (a : String)
    (hp : PortionsNonnegS r) (hu : unbIn a r = false) (h : drawAll asset r av = .ok l) :
    pulled l a ≤ max 0 (av a + maxGrant (grantsOf a r)) := by
  exact drawAll_bound asset a r av l hp hu h

/-- only accounts named in the source are pulled from -/
theorem draw_pulled_zero_of_absent (asset : String) (r : RSource) (av : Avail) (need : Int) (l : Pulls)
    (a : String) (hg : grantsOf a r = []) (hu : unbIn a r = false) (h : draw asset r av need = .ok l) :
    pulled l a = 0 := by
  exact draw_absent asset a r av need l hg hu h

theorem drawAll_pulled_zero_of_absent (asset : String) (r : RSource) (av : Avail) (l : Pulls)
    (a : String) (hg : grantsOf a r = []) (hu : unbIn a r = false) (h : drawAll asset r av = .ok l) :
    pulled l a = 0 := by
  exact drawAll_absent asset a r av l hg hu h

/-- `pulled` is additive and ignores the dropped zero amounts -/
theorem pulled_append (l1 l2 : Pulls) (a : String) : pulled (l1 ++ l2) a = pulled l1 a + pulled l2 a := by
  exact pulled_append' l1 l2 a

theorem pulled_nonzero (l : Pulls) (a : String) : pulled (nonzero l) a = pulled l a := by
  exact pulled_nonzero' l a

theorem sumPulls_nonzero (l : Pulls) : sumPulls (nonzero l) = sumPulls l := by
  exact sumPulls_nonzero' l

theorem maxGrant_nonneg (g : List Int) : 0 ≤ maxGrant g := by
  exact maxGrant_nonneg' g

/-! non-vacuity (test) -/
example : draw "USD" (.inorder [.acct "a" 0, .acct "a" 5]) (fun _ => 10) 20 = .ok [("a", 10), ("a", 5)] := by
  simp [draw, drawList, availAfter, pulled, sumPulls]

end NS
