/-
  Properties/C17.lean — a clean static check means no static-class failure at
  run time (type soundness of Model/Check.lean with respect to Model/Run.lean).
-/
import Spec.Typing
import Proofs.SoundnessLemmas

namespace NS

/-- Expressions: if checking `e` against the required type `τ` adds no error, and the run-time
    environment agrees with the declarations, then evaluating `e` yields a value of type `τ`
    (any value for `any`), or fails with an error outside the static class (e.g. mismatched
    currency) — never a type error, an unbound variable, nor a crash.
    `hdecl` (added): every declaration carries a valid type.  Without it the statement is false:
    for a declaration without a (valid) type the checker skips `assertHasType` and `EnvAgrees`
    says nothing, e.g. `declared = [("x", {type := none})]`, `vars = []`, `e = $x`: the check is
    clean and evaluation fails with `UnboundVariableErr`.  In a clean complete program it holds
    (a missing type is excluded by completeness, an invalid one is reported as `InvalidType`). -/
theorem checkExpression_sound (st st' : CState) (vars : Vars) (e : Expr) (τ : String)
    (hc : e.Complete) (hchk : checkExpression st e τ = .ok st') (hclean : NoNewErrors st st')
    (henv : EnvAgrees st vars)
    (hdecl : ∀ name d, lookupDecl st name = some d →
      ∃ r t, d.type = some (r, t) ∧ isTypeAllowed t = true) :
    match evalExpr vars e with
    | .ok v => τ = "any" ∨ v.typeName = τ
    | .err err => err.isStaticClass = false
    | .panic _ => False :=
  sd_checkExpression_sound e st st' vars τ hc hchk hclean ⟨henv, hdecl⟩

/-- the checker never removes diagnostics: errors only accumulate -/
theorem checkExpression_errors_mono (st st' : CState) (e : Expr) (τ : String)
    (hchk : checkExpression st e τ = .ok st') : errorCount st.diags ≤ errorCount st'.diags :=
  (sd_checkExpression_frame e st st' τ hchk).mono

/-- the checker does not change the declarations while checking an expression -/
theorem checkExpression_declared (st st' : CState) (e : Expr) (τ : String)
    (hchk : checkExpression st e τ = .ok st') : st'.declared = st.declared :=
  (sd_checkExpression_frame e st st' τ hchk).declared

/-- Whole scripts: whenever static analysis of a complete script reports no error, executing it —
    with any raw variable values (a value that does not parse at its declared type is a different,
    non-static failure), any store, any flags — never fails with a type error, an unbound variable
    or function, a wrong number of arguments or an unknown type, and never crashes.
    `hshape : prog.ParserInv` (Proofs/SoundnessLemmas.lean) collects what the parser guarantees
    besides completeness: (a) every allotment clause is `remaining`, a portion literal or a
    variable (`AllotVal.ShapeOk`) — the checker looks at no other clause, so `{ 3 from @a
    remaining from @b }` built by hand checks clean and fails with a `TypeError`; (b) distinct
    function calls have distinct caller ranges — the model keys `fnCallResolution` by that range,
    so an unknown function placed at the range of an earlier `set_tx_meta(..)` would be taken as
    resolved and fail at run time with `UnboundFunctionErr`. -/
theorem clean_check_sound (prog : Program) (hc : prog.Complete) (st : CState)
    (hchk : checkProgram [] prog = .ok st) (hclean : errorCount st.diags = 0)
    (hshape : prog.ParserInv)
    (rawVars : List (String × String)) (store : Store) (flag : Bool) :
    (RunProgram prog rawVars store flag).noStaticFailure :=
  sd_clean_check_sound prog hc st hchk hclean hshape rawVars store flag

/-- Whenever static analysis reports nothing at all, execution additionally never fails because
    of the shape of a send-all source — except for an account *variable* whose value is `world`
    (the shape is fine, the value is not). -/
theorem silent_check_no_sendall_shape_error (prog : Program) (hc : prog.Complete) (st : CState)
    (hchk : checkProgram [] prog = .ok st) (hsilent : st.diags = [])
    (rawVars : List (String × String)) (store : Store) (flag : Bool) (e : Err)
    (hrun : RunProgram prog rawVars store flag = .err e) :
    e ≠ .invalidAllotmentInSendAll ∧ (∀ n, e = .invalidUnboundedInSendAll n → n = WORLD) :=
  sd_silent_check prog st hchk hsilent rawVars store flag e hrun

end NS
