/-
  Properties/C20run.lean — `numscript run` (JSON mode): non-zero status exactly when the library reports parse errors
  or an execution error; on an error nothing is written to stdout and stderr begins with the library's message; on
  success stdout is exactly the JSON of the library's result and stderr is empty.
-/
import Model.CliRun

namespace NS

theorem cliRun_exit_iff (source : List Char) (o : RunOutcome) (out : CliOut)
    (hne : ∀ errs, o = .parseErrors errs → errs ≠ []) (h : cliRun source o = .ok out) :
    out.exit ≠ 0 ↔ ∀ json, o ≠ .ok json := by
  cases o with
  | parseErrors errs =>
    have := hne errs rfl
    simp only [cliRun, if_neg this] at h
    cases hp : parseErrorsToString source errs <;> simp [hp] at h
    subst h
    simp
  | failed msg r =>
    simp only [cliRun] at h
    split at h
    · cases hs : showOnSource r source <;> simp [hs] at h
      subst h; simp
    · simp at h; subst h; simp
  | ok json =>
    simp only [cliRun] at h
    cases h
    simp

/-- success: exactly the library's JSON on stdout, nothing on stderr, status 0 -/
theorem cliRun_ok_prints_result (source : List Char) (json : String) :
    cliRun source (.ok json) = .ok ⟨json, "", 0⟩ := rfl

/-- execution error: nothing on stdout, status 1, stderr begins with the error message -/
theorem cliRun_error_message (source : List Char) (msg : String) (r : Range) (out : CliOut)
    (h : cliRun source (.failed msg r) = .ok out) :
    out.stdout = "" ∧ out.exit = 1 ∧ ∃ rest, out.stderr = msg ++ rest := by
  simp only [cliRun] at h
  split at h
  · cases hs : showOnSource r source with
    | ok shown =>
      simp [hs] at h; subst h
      exact ⟨rfl, rfl, "\n" ++ shown, by simp [String.append_assoc]⟩
    | panic s => simp [hs] at h
    | err e => simp [hs] at h
  · simp at h; subst h
    exact ⟨rfl, rfl, "", by simp⟩

/-- parse errors: nothing on stdout, status 1, every error message is on stderr -/
theorem parseErrorsToString_lists (source : List Char) (errs : List (String × Range)) (s : String)
    (h : parseErrorsToString source errs = .ok s) :
    ∀ e ∈ errs, ∃ pre post, s = pre ++ e.1 ++ post := by
  induction errs generalizing s with
  | nil => intro e he; cases he
  | cons x xs ih =>
    obtain ⟨msg, r⟩ := x
    simp only [parseErrorsToString] at h
    cases hs : showOnSource r source with
    | ok shown =>
      cases ht : parseErrorsToString source xs with
      | ok tail =>
        simp [hs, ht] at h
        intro e he
        rcases List.mem_cons.mp he with e1 | e1
        · subst e1
          exact ⟨"", "\n" ++ shown ++ "\n" ++ tail, by rw [← h]; simp [String.append_assoc]⟩
        · obtain ⟨pre, post, hp⟩ := ih tail ht e e1
          exact ⟨msg ++ "\n" ++ shown ++ "\n" ++ pre, post, by rw [← h, hp]; simp [String.append_assoc]⟩
      | panic p => simp [hs, ht] at h
      | err e' => simp [hs, ht] at h
    | panic p => simp [hs] at h
    | err e' => simp [hs] at h

theorem cliRun_parse_errors (source : List Char) (errs : List (String × Range)) (hne : errs ≠ []) (out : CliOut)
    (h : cliRun source (.parseErrors errs) = .ok out) :
    out.stdout = "" ∧ out.exit = 1 ∧ ∀ e ∈ errs, ∃ pre post, out.stderr = pre ++ e.1 ++ post := by
  simp only [cliRun, if_neg hne] at h
  cases hp : parseErrorsToString source errs with
  | ok s =>
    simp [hp] at h; subst h
    refine ⟨rfl, rfl, ?_⟩
    intro e he
    obtain ⟨pre, post, hpp⟩ := parseErrorsToString_lists source errs s hp e he
    exact ⟨"Got errors while parsing:\n" ++ pre, post, by simp [hpp, String.append_assoc]⟩
  | panic p => simp [hp] at h
  | err e' => simp [hp] at h

/-! non-vacuity (tests) -/
example : cliRun "send [USD 1] (\n".toList (.failed "boom" ⟨⟨0, 5⟩, ⟨0, 12⟩⟩)
    = .ok ⟨"", "boom\n  0 | send [USD 1] (\n    |      ~~~~~~~\n  1 | \n", 1⟩ := by rfl
example : cliRun [] (.failed "no range" ⟨⟨0, 0⟩, ⟨0, 0⟩⟩) = .ok ⟨"", "no range", 1⟩ := by rfl

end NS
