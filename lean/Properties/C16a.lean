/-
  Properties/C16a.lean — the checker never cries wolf: a script that is valid by
  the language's static rules (Spec/Valid.lean: every expression has the type its
  position requires given the declared variable types and builtin signatures,
  literal portions sum to one — or less with something to absorb the rest —,
  send-all sources are bounded outside caps) receives no error-severity
  diagnostic.  Warnings (unused variable, emptied account, redundant remaining…)
  are allowed.
-/
import Spec.Valid
import Proofs.ValidLemmas

namespace NS

/-- expressions: a well-typed expression checked against a type it fits adds no error -/
theorem valid_expr_no_error (Γ : TyEnv) (st : CState) (e : Expr) (τ : String)
    (henv : ∀ name, (lookupDecl st name).bind (fun d => d.type.map (·.2)) = Γ.lookup name)
    (hallowed : ∀ name ty, Γ.lookup name = some ty → isTypeAllowed ty = true)
    (hfit : Fits Γ e τ) :
    ∃ st', checkExpression st e τ = .ok st' ∧ errorCount st'.diags = errorCount st.diags ∧
      st'.declared = st.declared := by
  obtain ⟨st', h, q⟩ := vd_checkExpr_fits (Γ := Γ) hallowed hfit st henv
  exact ⟨st', h, q.errorCount, q.declared⟩

/-- whole scripts -/
theorem valid_has_no_error (prog : Program) (hv : prog.Valid) :
    ∃ st, checkProgram [] prog = .ok st ∧ errorCount st.diags = 0 := by
  obtain ⟨hd, hs⟩ := hv
  obtain ⟨st1, h1, e1, env1⟩ := vd_checkVarDecls prog.vars [] { diags := [] } hd (vd_EnvOk_init [])
  rw [List.nil_append] at env1
  obtain ⟨st2, h2, w2⟩ := vd_checkStatements env1.allowed prog.stmts st1 hs env1.look
  unfold checkProgram
  simp only [h1, h2]
  refine ⟨_, rfl, ?_⟩
  rw [sd_foldl_unused_errorCount, w2.2, e1]
  rfl

/-! non-vacuity: a concrete valid script (test) -/
example : HasType [("m", "monetary")] (.infix Range.zero .plus (.var Range.zero "m")
    (.monetary Range.zero (.asset Range.zero "USD") (.number Range.zero 1))) "monetary" := by
  apply HasType.infixMonetary
  · exact HasType.var _ _ _ (by decide)
  · exact HasType.monetary _ _ _ (HasType.asset _ _) (HasType.number _ _)

end NS
