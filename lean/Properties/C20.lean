/-
  Properties/C20.lean — exit status of the command-line front end.
  `cliExitTable` is regenerated from internal/cmd/*.go on every run (Model/Tables.lean): the two table
  theorems below tie `cliCheckExit` to the source (the only exit of `check` is guarded by the error count and
  every exit site passes the literal 1, which survives the 8-bit truncation of exit statuses).
-/
import Model.Cli
import Properties.C1415

namespace NS

/-- every `os.Exit` of the CLI passes the literal 1 (never a computed value that could be ≡ 0 mod 256) -/
theorem cli_exit_args_literal_one : ∀ e ∈ cliExitTable, e.2.2 = "1" := by
  simp [cliExitTable]

/-- every exit site of the CLI is conditional (reached under an `if`, or after an early `return`): no command exits
    non-zero unconditionally.  WHICH condition guards the exit of `check` — the error count — is not read off the
    source text (a harmless rewrite counts the errors in the printing loop, another renames the function): it is what
    `check_exit_byte_iff_error` states of the model and what the byte-exact tie of the report checks on the binary,
    boundary counts 255/256/257/512 included. -/
theorem cli_exits_all_conditional : ∀ e ∈ cliExitTable, (e.2.1 != "") = true := by
  simp [cliExitTable]

/-- the status observed by the parent process is non-zero exactly when some diagnostic has error severity -/
theorem check_exit_byte_iff_error (ds : List Diag) :
    exitByte (cliCheckExit ds) ≠ 0 ↔ ∃ d ∈ ds, d.kind.severity = 1 := by
  rw [← check_exit_iff_error]
  unfold exitByte cliCheckExit
  split <;> simp_all

/-- non-vacuity (test): 256 error diagnostics still give a non-zero status -/
example : exitByte (cliCheckExit (List.replicate 256 ⟨Range.zero, .unboundVariable "x"⟩)) = 1 := by
  have h : errorCount (List.replicate 256 (⟨Range.zero, .unboundVariable "x"⟩ : Diag)) ≠ 0 := by
    rw [check_exit_iff_error]
    exact ⟨⟨Range.zero, .unboundVariable "x"⟩, List.mem_replicate.mpr ⟨by omega, rfl⟩, by decide⟩
  unfold exitByte cliCheckExit
  rw [if_pos h]

end NS
