/-
  Properties/C1011.lean — results depend only on the balances asked for, never
  on how the store answers (C10); feature flags change nothing except the
  feature they gate, and the run is a function of its inputs (C11: in the model
  this is true by construction — `RunProgram` is a pure Lean function whose
  state is local; aliasing, map-order and interleaving effects of the Go code
  are observed by the harness: repeated runs, input snapshots, -race).
-/
import Spec.StoreSpec
import Proofs.StoreLemmas

namespace NS

/-- C10: two stores that answer faithfully for the same content — returning exactly what is asked,
    omitting zero entries, or returning everything they hold — give the same observable result
    (postings, metadata, or error), for every script, variables and flags.  The store is assumed to
    hold no balance for @world (its balance is never requested).  No hypothesis is needed for that:
    `cacheMerge` ignores an @world entry if the store volunteers one. -/
theorem store_independent (prog : Program) (rawVars : List (String × String)) (flag : Bool)
    (s1 s2 : Store) (ct : Content) (h1 : Faithful s1 ct) (h2 : Faithful s2 ct) :
    observe (RunProgram prog rawVars s1 flag) = observe (RunProgram prog rawVars s2 flag) := by
  have hspec1 := sr_parseVars_spec s1 ct h1 flag rawVars prog.vars [] ⟨[], [], 0, []⟩ (sr_cacheOK_nil ct)
  have hspec2 := sr_parseVars_spec s2 ct h2 flag rawVars prog.vars [] ⟨[], [], 0, []⟩ (sr_cacheOK_nil ct)
  unfold RunProgram
  cases hs : sr_parseVarsSpec ct flag rawVars prog.vars [] with
  | panic s =>
    rw [hs] at hspec1 hspec2
    rw [sr_ORel_panic_right hspec1, sr_ORel_panic_right hspec2]
  | err e =>
    rw [hs] at hspec1 hspec2
    rw [sr_ORel_err_right hspec1, sr_ORel_err_right hspec2]
  | ok vars =>
    rw [hs] at hspec1 hspec2
    obtain ⟨⟨v1, q1⟩, hx1, hv1, hc1⟩ := sr_ORel_ok_right hspec1
    obtain ⟨⟨v2, q2⟩, hx2, hv2, hc2⟩ := sr_ORel_ok_right hspec2
    simp only at hv1 hv2 hc1 hc2
    subst hv1
    subst hv2
    rw [hx1, hx2]
    simp only
    have hpre1 := sr_preload_rel sr_Sub (fun _ _ a s h => sr_sub_batchQuery_both a s h) v2 prog.stmts
      [] q1.pending (sr_sub_nil _)
    have hpre2 := sr_preload_rel sr_Sub (fun _ _ a s h => sr_sub_batchQuery_both a s h) v2 prog.stmts
      [] q2.pending (sr_sub_nil _)
    cases hr : preload v2 prog.stmts [] with
    | panic s =>
      rw [hr] at hpre1 hpre2
      rw [sr_ORel_panic_left hpre1, sr_ORel_panic_left hpre2]
    | err e =>
      rw [hr] at hpre1 hpre2
      rw [sr_ORel_err_left hpre1, sr_ORel_err_left hpre2]
    | ok r =>
      rw [hr] at hpre1 hpre2
      obtain ⟨pend1, hp1, hsub1⟩ := sr_ORel_ok_left hpre1
      obtain ⟨pend2, hp2, hsub2⟩ := sr_ORel_ok_left hpre2
      rw [hp1, hp2]
      simp only
      obtain ⟨q1', hq1', hc1', hcov1⟩ := sr_runBalancesQuery_faithful s1 ct h1 { q1 with pending := pend1 } hc1
      obtain ⟨q2', hq2', hc2', hcov2⟩ := sr_runBalancesQuery_faithful s2 ct h2 { q2 with pending := pend2 } hc2
      rw [hq1', hq2']
      simp only
      have hag : sr_AgreeQ r q1'.cache q2'.cache := fun a s ha hp => by
        rw [(hcov1 a s ha (hsub1 a s hp)).1, (hcov2 a s ha (hsub2 a s hp)).1]
      have hw : ∀ s, cacheGet q1'.cache WORLD s = cacheGet q2'.cache WORLD s := fun s => by
        rw [hc1'.2 s, hc2'.2 s]
      have hfr := sr_runStatements_frame v2 r prog.stmts [] q1'.cache q2'.cache [] [] hr hag hw
      cases hrun2 : runStatements v2 prog.stmts ⟨q2'.cache, [], []⟩ with
      | panic s =>
        rw [hrun2] at hfr
        rw [sr_ORel_panic_right hfr]
      | err e =>
        rw [hrun2] at hfr
        rw [sr_ORel_err_right hfr]
      | ok y =>
        rw [hrun2] at hfr
        obtain ⟨x, hrun1, hps, htx, ham⟩ := sr_ORel_ok_right hfr
        rw [hrun1]
        obtain ⟨ps1, st1⟩ := x
        obtain ⟨ps2, st2⟩ := y
        simp only at hps htx ham
        simp only [observe, hps, htx, ham]

/-- the balance of @world is never requested -/
theorem world_never_requested (prog : Program) (rawVars : List (String × String)) (flag : Bool) (store : Store)
    (res : ExecResult) (h : RunProgram prog rawVars store flag = .ok res) :
    ∀ call ∈ res.log, WORLD ∉ callAccounts call := by
  unfold RunProgram at h
  have hnw0 : sr_NW ⟨[], [], 0, []⟩ := ⟨fun e he => (by cases he), fun c hc => (by cases hc)⟩
  cases hpv : parseVars store flag rawVars prog.vars [] ⟨[], [], 0, []⟩ with
  | panic s => rw [hpv] at h; cases h
  | err e => rw [hpv] at h; cases h
  | ok x =>
    obtain ⟨vars, q⟩ := x
    rw [hpv] at h
    simp only at h
    have hq := sr_parseVars_nw store flag rawVars prog.vars [] vars _ q hpv hnw0
    cases hpre : preload vars prog.stmts q.pending with
    | panic s => rw [hpre] at h; cases h
    | err e => rw [hpre] at h; cases h
    | ok pending =>
      rw [hpre] at h
      simp only at h
      have hpend := sr_preload_noWorld vars prog.stmts q.pending pending hq.1 hpre
      cases hrq : runBalancesQuery store { q with pending := pending } with
      | error msg => rw [hrq] at h; cases h
      | ok q' =>
        rw [hrq] at h
        simp only at h
        have hq' := sr_runBalancesQuery_nw store _ q' hrq ⟨hpend, hq.2⟩
        cases hrun : runStatements vars prog.stmts ⟨q'.cache, [], []⟩ with
        | panic s => rw [hrun] at h; cases h
        | err e => rw [hrun] at h; cases h
        | ok y =>
          obtain ⟨ps, st⟩ := y
          rw [hrun] at h
          simp only [Outcome.ok.injEq] at h
          subst h
          exact hq'.2

/-- `batchQuery` never adds @world to the pending query -/
theorem batchQuery_no_world (p : BalanceQuery) (account asset : String) (h : ∀ e ∈ p, e.1 ≠ WORLD) :
    ∀ e ∈ batchQuery p account asset, e.1 ≠ WORLD :=
  sr_batchQuery_noWorld p account asset h

/-- a value learned from an earlier request is not forgotten when a later request is made:
    merging an answer never changes an entry that is already cached -/
theorem cache_never_forgets (c : Cache) (ans : BalanceAnswer) (a s : String) (h : cacheHas c a s = true) :
    cacheHas (cacheMerge c ans) a s = true ∧ cacheGet (cacheMerge c ans) a s = cacheGet c a s :=
  ⟨sr_cacheHas_merge_mono ans c a s h, sr_cacheGet_merge_of_has ans c a s h⟩

/-- … and what a faithful answer brings in is the content's value -/
theorem cacheMerge_faithful (ct : Content) (q : BalanceQuery) (c : Cache) (ans : BalanceAnswer)
    (hf : FaithfulAnswer ct q ans) (hc : ∀ a s, a ≠ WORLD → cacheHas c a s = true → cacheGet c a s = ct.bal a s) :
    ∀ a s, a ≠ WORLD → cacheHas (cacheMerge c ans) a s = true → cacheGet (cacheMerge c ans) a s = ct.bal a s :=
  sr_cacheMerge_faithful ct q c ans hf hc

/-- C11: a script that does not call `overdraft()` gives the same result with the flag on or off -/
theorem flag_only_gates_overdraft (prog : Program) (rawVars : List (String × String)) (store : Store)
    (h : usesOverdraftFn prog = false) :
    RunProgram prog rawVars store true = RunProgram prog rawVars store false := by
  unfold RunProgram
  rw [sr_parseVars_flag store rawVars prog.vars [] ⟨[], [], 0, []⟩ h]

/-- with the flag off, `overdraft()` fails with the experimental-feature error (unless its
    arguments fail to evaluate first) -/
theorem overdraft_gated (store : Store) (vars : Vars) (q : QState) (ty : String) (fn : FnCall) (args : List Value)
    (hname : fn.name = "overdraft") (hargs : evalExprs vars fn.args = .ok args) :
    handleOrigin store false vars q ty fn = .err (.experimentalFeature FLAG_OVERDRAFT) := by
  unfold handleOrigin
  rw [hargs]
  simp [hname]

end NS
