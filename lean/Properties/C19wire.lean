/-
  Properties/C19wire.lean — the two halves of C19 joined: the document-store state machine (`lspRun`,
  Model/Lsp.lean) served through the wire format (Model/Frame.lean).  JSON is not modelled: `decode` turns a request
  body into a request and `marshal` a response into the messages written for it (its notifications, then the
  response itself); both are parameters.  For every such pair, every state and every list of request bodies that
  decode, the bytes the server writes are exactly the frames of the marshalled responses of `lspRun`, in request
  order — so whatever is proved of `lspRun` (latest text, right document, pure queries) is what a client reads.
-/
import Model.Lsp
import Model.Frame
import Properties.C19frame

namespace NS

/-- what the server writes for one response: notifications first, the response last -/
structure Marshalled where
  notifications : List Bytes
  response : Bytes

/-- the handler `RunServer` is given, built from one step of the document store -/
def wireHandler (decode : Bytes → Req) (marshal : Resp → Marshalled) (s : LspState) (body : Bytes) : Handled LspState :=
  match lspStep s (decode body) with
  | .ok (s', resp) => ⟨s', (marshal resp).notifications, (marshal resp).response⟩
  | _ => ⟨s, [], []⟩           -- a panic of the analysis ends the real process: excluded by the hypothesis below

def messagesOf (marshal : Resp → Marshalled) : List Resp → List Bytes
  | [] => []
  | r :: rs => (marshal r).notifications ++ [(marshal r).response] ++ messagesOf marshal rs

theorem serverSpec_eq_lspRun (decode : Bytes → Req) (marshal : Resp → Marshalled) (s s' : LspState)
    (bodies : List Bytes) (resps : List Resp)
    (h : lspRun s (bodies.map decode) = .ok (s', resps)) :
    serverSpec (wireHandler decode marshal) s bodies = messagesOf marshal resps := by
  induction bodies generalizing s resps with
  | nil =>
    simp only [List.map_nil, lspRun] at h
    cases h
    rfl
  | cons b bs ih =>
    simp only [List.map_cons, lspRun] at h
    cases hstep : lspStep s (decode b) with
    | ok p =>
      obtain ⟨s1, resp⟩ := p
      simp only [hstep] at h
      cases hrun : lspRun s1 (bs.map decode) with
      | ok q =>
        obtain ⟨s2, rs⟩ := q
        simp only [hrun] at h
        cases h
        simp only [serverSpec, wireHandler, hstep, messagesOf]
        rw [ih s1 rs hrun]
      | err e => simp [hrun] at h
      | panic x => simp [hrun] at h
    | err e => simp [hstep] at h
    | panic x => simp [hstep] at h

/-- over the wire a client reads exactly the responses of the document-store state machine, in order -/
theorem lsp_over_the_wire (decode : Bytes → Req) (marshal : Resp → Marshalled) (s s' : LspState)
    (bodies : List Bytes) (resps : List Resp)
    (hrun : lspRun s (bodies.map decode) = .ok (s', resps))
    (hreq : ∀ b ∈ bodies, b.length < 2^63) :
    serverRun (wireHandler decode marshal) (bodies.length + 1) s (bodies.flatMap encodeFrame)
      = some ((messagesOf marshal resps).flatMap encodeFrame) := by
  rw [server_output_exact (wireHandler decode marshal) s bodies hreq,
      serverSpec_eq_lspRun decode marshal s s' bodies resps hrun]

end NS
