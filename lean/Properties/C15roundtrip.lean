/-
  Properties/C15roundtrip.lean — the parser recovers exactly the tree that was written.
  `Program.toks` (Spec/Unparse.lean) is the token sequence (kinds and texts) a tree is written
  as; for every writable tree (`Printable`: no nil child, numbers a machine integer holds, `+`/`-`
  nested to the left, no empty allotment, no ordered destination without a `max` clause) and every
  token stream with these kinds and texts — whatever the positions, i.e. whatever blanks, newlines
  and comments separate the tokens — the parser model accepts and returns that tree (up to ranges):
  statement order, source and destination nesting, which expression is a cap and which an address,
  literal values, declarations and origins.
-/
import Spec.Unparse
import Proofs.UnparseLemmas

namespace NS

/-- expressions: the parser reads back a written expression and stops right after it, whatever
    follows (as long as it is not a `+` or `-`, which would continue the expression) -/
theorem parse_unparse_expr (e : Expr) (he : e.Printable) (ts rest : List Tok)
    (h : ts.map Tok.shape = e.toks)
    (hrest : ∀ t, rest.head? = some t → t.kind ≠ .plus ∧ t.kind ≠ .minus)
    (f : Nat) (hf : 2 * ts.length + 2 ≤ f) :
    ∃ e' stop, pExpr f (ts ++ rest) = some (e', stop, rest) ∧ e'.skel = e.skel :=
  up_expr he ts rest f h hrest hf

/-- whole scripts -/
theorem parse_unparse (p : Program) (hp : p.Printable) (ts : List Tok)
    (h : ts.map Tok.shape = p.toks) :
    (parseTokens ts).map Program.skel = some p.skel :=
  up_program p hp ts h

/-- the literals of a written tree are in the range `Parse` accepts -/
theorem unparse_numbers_in_range (p : Program) (hp : p.Printable) (ts : List Tok)
    (h : ts.map Tok.shape = p.toks) : numbersInRange ts = true := by
  rw [up_numbersInRange, h]
  exact up_program_nr p hp

end NS
