/-
  Properties/C19.lean — the language server answers from the latest text of the
  right document (refinement of `lspRun` to "latest text per URI"), and
  navigation finds the variable under the cursor.
-/
import Model.Lsp
import Spec.Names
import Proofs.LspLemmas

namespace NS

/-- the latest (tree, parse errors) opened or changed under `uri` in a history -/
def latest : List Req → String → Option (Program × List Diag)
  | [], _ => none
  | r :: rs, uri =>
      match latest rs uri with
      | some x => some x
      | none =>
        match r with
        | .didOpen u prog pd => if u = uri then some (prog, pd) else none
        | .didChange u prog pd => if u = uri then some (prog, pd) else none
        | _ => none

/-- what a fresh analysis of the latest text of `uri` gives -/
def freshDoc (h : List Req) (uri : String) : Option Doc :=
  match latest h uri with
  | none => none
  | some (prog, pd) =>
      match checkProgram pd prog with
      | .ok st => some ⟨prog, st⟩
      | _ => none

/-- `freshDoc` in terms of the helper `ls_analyse` -/
theorem ls_freshDoc_eq (h : List Req) (uri : String) :
    freshDoc h uri = (match latest h uri with | none => none | some b => ls_analyse b) := by
  unfold freshDoc ls_analyse
  cases latest h uri with
  | none => rfl
  | some b => rfl

/-- the strong form of the refinement: after any history from the empty store, the stored document
    under every URI IS (as a value, not only in projection) the fresh analysis of the latest text -/
theorem ls_lookup_latest (h : List Req) (s : LspState) (resps : List Resp)
    (hrun : lspRun [] h = .ok (s, resps)) (uri : String) : lookupDoc s uri = freshDoc h uri := by
  have key := ls_run_lookup latest (fun _ => rfl)
    (by
      intro r rs uri
      simp only [latest]
      cases latest rs uri with
      | some x => rfl
      | none => cases r <;> rfl)
    h [] s resps hrun uri
  rw [key, ls_freshDoc_eq]
  cases latest h uri with
  | none => rfl
  | some b => rfl

/-- after any history, the document stored under every URI is a fresh analysis of the latest
    text sent for that URI — never a stale version, never another document's -/
theorem lsp_state_is_latest (h : List Req) (s : LspState) (resps : List Resp)
    (hrun : lspRun [] h = .ok (s, resps)) (uri : String) :
    (lookupDoc s uri).map (fun d => (d.prog, d.st.diags)) = (freshDoc h uri).map (fun d => (d.prog, d.st.diags)) := by
  rw [ls_lookup_latest h s resps hrun uri]

/-- hence every hover answer after a history equals the answer of a fresh analysis of the latest text -/
theorem lsp_hover_answers_latest (h : List Req) (s : LspState) (resps : List Resp)
    (hrun : lspRun [] h = .ok (s, resps)) (uri : String) (pos : Pos) (s' : LspState) (resp : Resp)
    (hstep : lspStep s (.hover uri pos) = .ok (s', resp)) :
    s' = s ∧
    resp = (match freshDoc h uri with
            | none => Resp.null
            | some d =>
              match lspHover d.prog d.st pos with
              | .ok (some (t, r)) => Resp.hover t r
              | _ => Resp.null) := by
  have hs : s' = s := ls_hover_step_state hstep
  subst hs
  refine ⟨rfl, ?_⟩
  have hl := ls_lookup_latest h s' resps hrun uri
  simp only [lspStep, hl] at hstep
  cases hf : freshDoc h uri with
  | none =>
      rw [hf] at hstep
      simp only at hstep ⊢
      cases hstep; rfl
  | some d =>
      rw [hf] at hstep
      simp only at hstep ⊢
      split at hstep <;> rename_i hh <;> cases hstep <;> simp [hh]

/-- a request about a document that was never opened yields null -/
theorem lsp_unknown_document (h : List Req) (s : LspState) (resps : List Resp)
    (hrun : lspRun [] h = .ok (s, resps)) (uri : String) (hnone : latest h uri = none) (pos : Pos) :
    lspStep s (.hover uri pos) = .ok (s, .null) ∧ lspStep s (.definition uri pos) = .ok (s, .null) ∧
    lspStep s (.symbols uri) = .ok (s, .null) := by
  have hl := ls_lookup_latest h s resps hrun uri
  have hn : lookupDoc s uri = none := by
    rw [hl]; simp [freshDoc, hnone]
  simp [lspStep, hn]

/-- a change to one document leaves every answer about another document unchanged -/
theorem lsp_no_cross_document (s s' : LspState) (u1 u2 : String) (prog : Program) (pd : List Diag) (resp : Resp)
    (hne : u1 ≠ u2) (hstep : lspStep s (.didChange u1 prog pd) = .ok (s', resp)) :
    lookupDoc s' u2 = lookupDoc s u2 := by
  obtain ⟨st, _, rfl⟩ := ls_update_ok (by simpa [lspStep] using hstep)
  rw [ls_lookup_cons]
  simp [hne]

/-- queries do not change the state -/
theorem lsp_queries_pure (s s' : LspState) (r : Req) (resp : Resp)
    (hq : match r with | .didOpen .. => False | .didChange .. => False | _ => True)
    (hstep : lspStep s r = .ok (s', resp)) : s' = s := by
  cases r with
  | didOpen u p d => exact absurd hq id
  | didChange u p d => exact absurd hq id
  | hover u p => exact ls_hover_step_state hstep
  | definition u p => exact ls_definition_step_state hstep
  | symbols u => exact ls_symbols_step_state hstep

/-! ### navigation -/

/-- hover is sound: when it answers with a variable, that variable occurs in the expression and
    its token contains the cursor -/
theorem hover_expr_sound (e : Expr) (pos : Pos) (r : Range) (n : String)
    (h : hoverOnExpression e pos = .ok (some (.variable r n))) : (r, n) ∈ usesE e ∧ r.contains pos = true := by
  exact ls_hoverE_sound e pos r n h

/-- an expression whose node ranges contain the ranges of their children -/
def Expr.Nested : Expr → Prop
  | .monetary r a n => (∀ p, a.range.contains p = true → a ≠ .nil → r.contains p = true) ∧
                       (∀ p, n.range.contains p = true → n ≠ .nil → r.contains p = true) ∧ a.Nested ∧ n.Nested
  | .infix r _ l rgt => (∀ p, l.range.contains p = true → l ≠ .nil → r.contains p = true) ∧
                        (∀ p, rgt.range.contains p = true → rgt ≠ .nil → r.contains p = true) ∧ l.Nested ∧ rgt.Nested
  | _ => True

/-- hover is complete on well-nested expressions: a cursor inside exactly one variable token finds it -/
theorem hover_expr_complete (e : Expr) (hb : e ≠ .monetaryNil) (hn : e.Nested) (pos : Pos) (r : Range) (n : String)
    (hmem : (r, n) ∈ usesE e) (hin : r.contains pos = true)
    (huniq : ∀ o ∈ usesE e, o.1.contains pos = true → o = (r, n))
    (hnil : ∀ s, hoverOnExpression e pos ≠ .panic s) :
    hoverOnExpression e pos = .ok (some (.variable r n)) := by
  have _ := hb   -- redundant: `usesE .monetaryNil = []` already contradicts `hmem`
  exact ls_hoverE_complete Expr.Nested (fun _ _ _ h => h) (fun _ _ _ _ h => h) e hn pos r n hmem hin huniq hnil

/-- go-to-definition returns the range of the name in the declaration the use was resolved to -/
theorem goto_is_declaration (prog : Program) (st : CState) (pos : Pos) (r : Range) (n : String) (d : VarDecl)
    (nr : Range) (hh : hoverOn prog pos = .ok (some (.variable r n))) (hres : resolveVar st r n = some d)
    (hname : d.name = some (nr, n)) : gotoDefinition prog st pos = .ok (some nr) := by
  simp [gotoDefinition, hh, hres, hname]

/-- the hover text of a resolved variable shows its name and declared type -/
theorem hover_text_is_decl_type (prog : Program) (st : CState) (pos : Pos) (r : Range) (n : String) (d : VarDecl)
    (tr : Range) (t : String) (hh : hoverOn prog pos = .ok (some (.variable r n)))
    (hres : resolveVar st r n = some d) (htype : d.type = some (tr, t)) :
    lspHover prog st pos = .ok (some ("```numscript\n$" ++ n ++ ": " ++ t ++ "\n```", r)) := by
  simp [lspHover, hh, hres, htype]

end NS
