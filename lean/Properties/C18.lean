/-
  Properties/C18.lean — editor analysis survives any text: over every partial
  syntax tree of the benign class (Spec/Benign.lean: nil children allowed
  everywhere except the four shapes listed there), static analysis, symbol
  listing, hover and go-to-definition never reach a panic site; diagnostics are
  produced deterministically (the model is a function) and the set of
  unused-variable warnings does not depend on the iteration order of the map
  the Go code ranges over.
-/
import Spec.Benign
import Spec.Complete
import Proofs.AnalysisLemmas

namespace NS

/-- static analysis never panics on a benign tree, whatever the parse errors carried along -/
theorem check_never_panics (prog : Program) (hb : prog.Benign) (pd : List Diag) (s : String) :
    checkProgram pd prog ≠ .panic s :=
  an_isOk_ne_panic (an_checkProgram_ok pd prog hb) s

/-- it never returns a typed interpreter error either: it always yields a state with diagnostics -/
theorem check_total (prog : Program) (hb : prog.Benign) (pd : List Diag) :
    ∃ st, checkProgram pd prog = .ok st :=
  an_checkProgram_ok pd prog hb

/-- symbol listing never panics after a successful analysis of a benign tree -/
theorem symbols_never_panic (prog : Program) (hb : prog.Benign) (pd : List Diag) (st : CState)
    (h : checkProgram pd prog = .ok st) (s : String) : getSymbols st ≠ .panic s :=
  an_isOk_ne_panic (an_getSymbols_ok st ((an_checkProgram_step pd prog st h).2 hb)) s

/-- hover never panics, at any position -/
theorem hover_never_panics (prog : Program) (hb : prog.Benign) (pos : Pos) (s : String) :
    hoverOn prog pos ≠ .panic s :=
  an_isOk_ne_panic (an_hoverOn_ok prog hb pos) s

/-- go-to-definition never panics, at any position -/
theorem goto_never_panics (prog : Program) (hb : prog.Benign) (pd : List Diag) (st : CState)
    (h : checkProgram pd prog = .ok st) (pos : Pos) (s : String) :
    gotoDefinition prog st pos ≠ .panic s :=
  an_isOk_ne_panic (an_gotoDefinition_ok prog st pos ((an_checkProgram_step pd prog st h).2 hb)
    (an_hoverOn_ok prog hb pos)) s

/-- the hover text of the language server never panics either -/
theorem lspHover_never_panics (prog : Program) (hb : prog.Benign) (pd : List Diag) (st : CState)
    (h : checkProgram pd prog = .ok st) (pos : Pos) (s : String) :
    lspHover prog st pos ≠ .panic s :=
  an_isOk_ne_panic (an_lspHover_ok prog st pos ((an_checkProgram_step pd prog st h).2 hb)
    (an_hoverOn_ok prog hb pos)) s

/-- the parse errors handed to the analysis are reported first and unchanged -/
theorem check_keeps_parse_diags (prog : Program) (pd : List Diag) (st : CState)
    (h : checkProgram pd prog = .ok st) : ∃ rest, st.diags = pd ++ rest :=
  (an_checkProgram_step pd prog st h).1

/-- a complete tree (no nil child at all, Spec/Complete.lean) whose declarations have types is benign -/
theorem complete_is_benign_expr (e : Expr) (h : e.Complete) : e.Benign ∧ e ≠ .nil :=
  ⟨an_complete_benign e h, by rintro rfl; exact h⟩

end NS
