/-
  Properties/C16.lean — the checker is exact about variable names: every use of
  an undeclared (or not yet declared) variable, every repeated declaration and
  every declared-but-never-used variable is reported exactly once, at the token
  concerned, and no other variable is reported.  The expected lists are defined
  in Spec/Names.lean by a plain traversal that does not mention the checker;
  a branch of the checker that forgets to visit a sub-expression falsifies
  these theorems.

  `hcr : (callRanges prog).Nodup` — distinct calls have distinct caller ranges.  The model
  keys the call-resolution table `fnRes` by caller range (the Go code keys it by the call
  node), so for an arbitrary `Program` value that repeats a caller range a stale entry of an
  earlier builtin call would decide which arguments of a later unknown call are visited.
  Parsed programs satisfy it (ranges of distinct tokens differ).  `duplicate_exact` does not
  need it.
-/
import Spec.Names
import Model.Nav
import Proofs.NamesLemmas

namespace NS

/-- unbound-variable diagnostics = uses not declared before, in traversal order, each once, with
    the range of the variable token (parse diagnostics `pd` carry none of the three kinds) -/
theorem unbound_exact (prog : Program) (pd : List Diag) (st : CState)
    (hpd : unboundDiags pd = [] ∧ duplicateDiags pd = [] ∧ unusedDiags pd = [])
    (hcr : (callRanges prog).Nodup)
    (h : checkProgram pd prog = .ok st) : unboundDiags st.diags = unboundSpec prog := by
  obtain ⟨st1, st2, us, hsteps, f, hu, hd, _⟩ := nm_checkProgram True (fun _ => hcr) h
  have hus := hu trivial
  subst hus
  have h1 := hsteps.unbound trivial
  have h2 := f.unbound
  rw [hd]
  simp only [unboundDiags, List.filterMap_append] at h1 h2 ⊢
  have h3 := (nm_proj_unusedWarnings st2.unused).1
  simp only [unboundDiags] at h3
  have hpd1 := hpd.1
  simp only [unboundDiags] at hpd1
  simp only [nm_core] at h1 h2
  rw [h3, h2, h1, hpd1]
  simp only [unboundSpec, List.nil_append, List.append_nil]
  congr 1
  apply List.filter_congr
  intro o _
  have := hsteps.names o.2
  simp only [nm_core, nm_names, List.map_nil, List.contains_nil, Bool.false_or] at this
  simp only [nm_names, this]

/-- duplicate-declaration diagnostics = declarations whose name was declared earlier -/
theorem duplicate_exact (prog : Program) (pd : List Diag) (st : CState)
    (hpd : unboundDiags pd = [] ∧ duplicateDiags pd = [] ∧ unusedDiags pd = [])
    (h : checkProgram pd prog = .ok st) : duplicateDiags st.diags = duplicateSpec prog := by
  obtain ⟨st1, st2, us, hsteps, f, _, hd, _⟩ := nm_checkProgram False (fun hf => hf.elim) h
  have h1 := hsteps.dup
  have h2 := f.dup
  have h3 := (nm_proj_unusedWarnings st2.unused).2.1
  have hpd2 := hpd.2.1
  simp only [duplicateDiags, nm_core] at h1 h2 h3 hpd2
  rw [hd]
  simp only [duplicateDiags, List.filterMap_append]
  rw [h3, h2, h1, hpd2]
  simp [duplicateSpec, nm_names]

/-- unused-variable diagnostics = first declarations never used afterwards.  (The Go code ranges
    over a map here, so only the *set* is specified; the model lists them in declaration order.) -/
theorem unused_exact (prog : Program) (pd : List Diag) (st : CState)
    (hpd : unboundDiags pd = [] ∧ duplicateDiags pd = [] ∧ unusedDiags pd = [])
    (hcr : (callRanges prog).Nodup)
    (h : checkProgram pd prog = .ok st) : unusedDiags st.diags = unusedSpec prog := by
  obtain ⟨st1, st2, us, hsteps, f, hu, hd, _⟩ := nm_checkProgram True (fun _ => hcr) h
  have hus := hu trivial
  subst hus
  have h1 := hsteps.unusedD
  have h2 := f.unusedD
  have h3 := (nm_proj_unusedWarnings st2.unused).2.2
  have h4 := hsteps.unused trivial (usesStmts prog.stmts)
  have h5 := f.unused
  have hpd3 := hpd.2.2
  rw [nm_nu_eq] at h5
  simp only [unusedDiags, nm_core] at h1 h2 h3 hpd3
  simp only [nm_core] at h4 h5
  rw [hd]
  simp only [unusedDiags, List.filterMap_append]
  rw [h3, h2, h1, hpd3, h5, h4]
  simp only [List.filter_nil, List.map_nil, List.nil_append, nm_names]
  rw [unusedSpec, nm_unusedFrom_eq prog prog.vars 0 [] rfl]

/-- every variable use in a position the language gives a meaning to is resolved to its
    declaration exactly when it is declared before -/
theorem resolution_exact (prog : Program) (pd : List Diag) (st : CState)
    (hcr : (callRanges prog).Nodup)
    (h : checkProgram pd prog = .ok st) (r : Range) (n : String)
    (hu : (r, n) ∈ usesStmts prog.stmts) (hd : (declNames prog.vars).contains n = true) :
    ∃ d, resolveVar st r n = some d ∧ declName d = some n := by
  obtain ⟨st1, st2, us, hsteps, f, hus, _, hv⟩ := nm_checkProgram True (fun _ => hcr) h
  have hus' := hus trivial
  subst hus'
  obtain ⟨i1, i2⟩ := hsteps.inv (by intro q hq; cases hq) (by intro p hp; cases hp)
  have hn : (nm_names (nm_core st1)).contains n = true := by
    rw [hsteps.names n, hd]; simp
  obtain ⟨d0, hd0⟩ := f.resNew (r, n) hu hn
  have hsound := f.resSound i2
  unfold resolveVar
  rw [hv]
  cases hf : st2.varRes.find? (fun p => p.1 == (r, n)) with
  | none =>
      rw [List.find?_eq_none] at hf
      exact absurd (by simp) (hf _ hd0)
  | some p =>
      have hm := List.mem_of_find?_eq_some hf
      have hk := List.find?_some hf
      simp only [beq_iff_eq] at hk
      have hdecl := hsound p hm
      have := i1 _ hdecl
      rw [hk] at this
      exact ⟨p.2, rfl, this⟩

end NS
