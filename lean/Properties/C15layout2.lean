/-
  Properties/C15layout2.lean — clause (c) of Properties/C15layout.lean, proved for every layout that keeps a
  whitespace character directly after each token: blanks, tabs, line breaks, block comments and line comments
  inserted in front of, between and behind the tokens never change the token stream, hence (with `parse_unparse`)
  never change the tree.  The excluded case — a comment glued to the preceding token — is where the full-strength
  statement is false (`layout_insertion_fails_comment_after_asset`); the other known finding (an asset made of
  slashes) is excluded by `Shape.Lexable` (assets start with a capital letter).
-/
import Spec.Layout
import Proofs.LayoutLemmas
import Properties.C15render

namespace NS

/-- PARTIAL form of "inserting whitespace, newlines or comments between tokens never changes the token stream" -/
theorem lex_layout_insertion_partial (shapes : List Shape) (seps : List (List Char)) (lead trail : List Char)
    (h : ∀ s ∈ shapes, s.Lexable) (hs : ∀ sep ∈ seps, SafeSep sep)
    (hlead : Layout lead) (htrail : trail = [] ∨ SafeSep trail) :
    (lex (lead ++ interleave shapes seps ++ trail)).map (fun ts => ts.map Tok.shape) = some shapes :=
  ly_lex_layout shapes seps lead trail h hs hlead htrail

/-- … nor the tree: a writable tree with well-spelt names, written with any such layout, parses to that tree -/
theorem parse_layout_insertion_partial (p : Program) (hp : p.Printable) (hl : ∀ s ∈ p.toks, s.Lexable)
    (seps : List (List Char)) (lead trail : List Char) (hs : ∀ sep ∈ seps, SafeSep sep)
    (hlead : Layout lead) (htrail : trail = [] ∨ SafeSep trail) :
    (parseProgram (lead ++ interleave p.toks seps ++ trail)).map Program.skel = some p.skel := by
  have hlex := ly_lex_layout p.toks seps lead trail hl hs hlead htrail
  cases hts : lex (lead ++ interleave p.toks seps ++ trail) with
  | none => rw [hts] at hlex; cases hlex
  | some ts =>
    rw [hts, Option.map_some, Option.some.injEq] at hlex
    unfold parseProgram
    rw [hts]
    simp only [unparse_numbers_in_range p hp ts hlex, if_true]
    exact parse_unparse p hp ts hlex

/-! non-vacuity (tests) -/
example : SafeSep " /* a * b */\t// c\r\n\n  ".toList := by
  refine ⟨?_, ' ', _, rfl, by decide⟩
  refine Layout.ws ' ' _ (by decide) ?_
  refine Layout.block " a * b ".toList _ (by decide) ?_
  refine Layout.ws '\t' _ (by decide) ?_
  refine Layout.line " c".toList '\r' _ (by decide) (by decide) ?_
  refine Layout.ws '\n' _ (by decide) ?_
  refine Layout.ws '\n' _ (by decide) ?_
  refine Layout.ws ' ' _ (by decide) ?_
  exact Layout.ws ' ' _ (by decide) Layout.nil

example : (lex "// x\nsend \n/* c */ [USD\t1 ] // t\n".toList).map (fun ts => ts.map Tok.shape)
    = some [(.kwSend, "send".toList), (.lbracket, ['[']), (.asset, "USD".toList), (.number, ['1']), (.rbracket, [']'])] := by
  decide

end NS
