/-
  Properties/C04.lean — sources are drawn in declared order, each to its limit
  before the next.  The interpreter's source functions (Model/Source.lean)
  refine the greedy draw of Spec/Draw.lean; the "greedy" reading lemmas are
  proved about the draw itself.
-/
import Spec.Draw
import Proofs.DrawLemmas

namespace NS

/-- what is available to a statement: cached balance minus what it already pulled -/
def availOf (env : Env) (snd : Senders) : Avail :=
  fun a => cacheGet env.cache a env.asset - pulled snd a

/-- R1: whenever the source expression resolves, `trySendingUpTo` is the greedy draw:
    same pulls (zero amounts are not queued), same total, same failure. -/
theorem send_refines_draw (env : Env) (src : Source) (r : RSource) (need : Int) (snd : Senders)
    (hr : resolveS env.vars env.asset src = .ok r) :
    trySendingUpTo env src need snd =
      (match draw env.asset r (availOf env snd) need with
       | .ok l => .ok (sumPulls l, snd ++ nonzero l)
       | .err e => .err e
       | .panic s => .panic s) := by
  have hav : availOf env snd = avOf env snd := rfl
  rw [send_refines env src r need snd hr, hav]
  cases draw env.asset r (avOf env snd) need <;> rfl

/-- R2: the same for "send all" -/
theorem sendAll_refines_drawAll (env : Env) (src : Source) (r : RSource) (snd : Senders)
    (hr : resolveS env.vars env.asset src = .ok r) :
    sendAll env src snd =
      (match drawAll env.asset r (availOf env snd) with
       | .ok l => .ok (sumPulls l, snd ++ nonzero l)
       | .err e => .err e
       | .panic s => .panic s) := by
  have hav : availOf env snd = avOf env snd := rfl
  rw [sendAll_refines env src r snd hr, hav]
  cases drawAll env.asset r (avOf env snd) <;> rfl

/-- a successful draw has visited (and evaluated) the whole source expression -/
theorem send_ok_resolves (env : Env) (src : Source) (need : Int) (snd : Senders) (x : Int × Senders)
    (h : trySendingUpTo env src need snd = .ok x) : ∃ r, resolveS env.vars env.asset src = .ok r := by
  exact send_ok_res env src need snd x h

theorem sendAll_ok_resolves (env : Env) (src : Source) (snd : Senders) (x : Int × Senders)
    (h : sendAll env src snd = .ok x) : ∃ r, resolveS env.vars env.asset src = .ok r := by
  exact sendAll_ok_res env src snd x h

/-! ### the draw is greedy, in declared order -/

/-- an account gives min(what is still needed, its balance plus granted overdraft), never a negative amount -/
theorem draw_account (asset a : String) (od : Int) (av : Avail) (need : Int) :
    draw asset (.acct a od) av need = .ok [(a, min (max 0 (av a + od)) need)] := by
  simp only [draw]

/-- @world / an unbounded-overdraft account gives everything still needed -/
theorem unbounded_gives_all (asset a : String) (av : Avail) (need : Int) :
    draw asset (.unb a) av need = .ok [(a, need)] := by
  simp only [draw]

/-- the total never goes below zero nor above what is needed.  `allotLenOk r` is the
    well-formedness of a resolved tree (an allotment has as many portions as sub-sources); every tree
    produced by `resolveS` satisfies it (`resolveS_allotLenOk`). -/
theorem draw_total_le_need (asset : String) (r : RSource) (av : Avail) (need : Int) (l : Pulls)
    (hk : allotLenOk r) (hn : 0 ≤ need) (h : draw asset r av need = .ok l) :
    0 ≤ sumPulls l ∧ sumPulls l ≤ need :=
  draw_total_le_need_of_lenOk asset r av need l hk hn h

/-- the same, directly for the tree denoted by a source expression -/
theorem draw_total_le_need_of_resolved (vars : Vars) (asset : String) (src : Source) (r : RSource)
    (av : Avail) (need : Int) (l : Pulls) (hr : resolveS vars asset src = .ok r) (hn : 0 ≤ need)
    (h : draw asset r av need = .ok l) : 0 ≤ sumPulls l ∧ sumPulls l ≤ need :=
  draw_total_le_need_of_lenOk asset r av need l (resolveS_allotLenOk vars asset src r hr) hn h

/-- a cap bounds what its sub-source gives; a negative cap counts as zero -/
theorem cap_bounds (asset : String) (cap : Int) (s : RSource) (av : Avail) (need : Int) (l : Pulls)
    (hk : allotLenOk s) (h : draw asset (.capped cap s) av need = .ok l) : sumPulls l ≤ max 0 cap :=
  (cap_bounds_of_lenOk asset cap s av need l hk h).2.1

/-- in an in-order list a later source is asked only for what the earlier ones could not give,
    and sees what they left -/
theorem inorder_sequential (asset : String) (s : RSource) (ss : List RSource) (av : Avail) (need : Int)
    (l : Pulls) (h : draw asset (.inorder (s :: ss)) av need = .ok l) :
    ∃ l1 l2, l = l1 ++ l2 ∧ draw asset s av need = .ok l1 ∧
      draw asset (.inorder ss) (availAfter av l1) (need - sumPulls l1) = .ok l2 := by
  simp only [draw, drawList] at h ⊢
  split at h <;> try cases h
  rename_i l1 h1
  split at h <;> try cases h
  rename_i l2 h2
  exact ⟨l1, l2, rfl, h1, h2⟩

/-- … so if a later source contributes anything, a leading bounded account was drained to its limit -/
theorem inorder_later_only_if_earlier_exhausted (asset a : String) (od : Int) (ss : List RSource)
    (av : Avail) (need : Int) (l : Pulls) (hn : 0 ≤ need)
    (h : draw asset (.inorder (.acct a od :: ss)) av need = .ok l) :
    ∃ l2, l = (a, min (max 0 (av a + od)) need) :: l2 ∧
      (0 < sumPulls l2 → min (max 0 (av a + od)) need = max 0 (av a + od)) := by
  have _ := hn
  simp only [draw, drawList] at h
  split at h <;> try cases h
  rename_i l2 h2
  refine ⟨l2, rfl, ?_⟩
  intro hpos
  simp only [sumPulls_single] at h2
  by_cases hc : min (max 0 (av a + od)) need = max 0 (av a + od)
  · exact hc
  · have hz : need - min (max 0 (av a + od)) need = 0 := by omega
    rw [hz] at h2
    have := drawList_zero asset ss _ l2 h2
    omega

/-- "send all" drains a bounded account to minus its overdraft (when it has anything to give) -/
theorem drawAll_drains (asset a : String) (od : Int) (av : Avail) (h : 0 ≤ av a + od) :
    ∃ l, drawAll asset (.acct a od) av = .ok l ∧ availAfter av l a = -od := by
  refine ⟨[(a, max 0 (av a + od))], by simp only [drawAll], ?_⟩
  simp only [availAfter, pulled]
  simp
  omega

/-- shape of a "send all" source: unbounded and allotment sources only under a cap -/
def sendAllShapeOk : RSource → Bool
  | .acct _ _ => true
  | .unb _ => false
  | .capped _ _ => true
  | .allot _ _ => false
  | .inorder l => l.attach.all (fun ⟨s, _⟩ => sendAllShapeOk s)

/-! helper lemmas: the list forms of the two shape theorems below -/

theorem sendAllShapeOk_inorder (l : List RSource) :
    sendAllShapeOk (.inorder l) = l.all sendAllShapeOk := by
  rw [sendAllShapeOk]
  simp

mutual
theorem drawAll_shape_err (asset : String) : ∀ (r : RSource) (av : Avail) (e : Err),
    sendAllShapeOk r = true → drawAll asset r av = .err e →
    e ≠ .invalidAllotmentInSendAll ∧ ∀ n, e ≠ .invalidUnboundedInSendAll n
  | .acct a od, av, e, _, h => by simp [drawAll] at h
  | .unb a, av, e, hs, _ => by simp [sendAllShapeOk] at hs
  | .allot _ _, av, e, hs, _ => by simp [sendAllShapeOk] at hs
  | .capped cap s, av, e, _, h => by
      simp only [drawAll] at h
      rcases draw_err asset s av _ e h with ⟨a, n, m, rfl⟩ | ⟨q, rfl⟩ <;> simp
  | .inorder l, av, e, hs, h => by
      simp only [drawAll] at h
      rw [sendAllShapeOk_inorder] at hs
      exact drawAllList_shape_err asset l av e hs h

theorem drawAllList_shape_err (asset : String) : ∀ (l : List RSource) (av : Avail) (e : Err),
    l.all sendAllShapeOk = true → drawAllList asset l av = .err e →
    e ≠ .invalidAllotmentInSendAll ∧ ∀ n, e ≠ .invalidUnboundedInSendAll n
  | [], av, e, _, h => by simp [drawAllList] at h
  | s :: ss, av, e, hs, h => by
      simp only [List.all_cons, Bool.and_eq_true] at hs
      simp only [drawAllList] at h
      split at h
      · cases h
      · rename_i e' he
        cases h
        exact drawAll_shape_err asset s av _ hs.1 he
      · split at h
        · cases h
        · rename_i e' he
          cases h
          exact drawAllList_shape_err asset ss _ _ hs.2 he
        · cases h
end

mutual
theorem drawAll_shape_bad (asset : String) : ∀ (r : RSource) (av : Avail) (l : Pulls),
    sendAllShapeOk r = false → drawAll asset r av ≠ .ok l
  | .acct a od, av, l, hs => by simp [sendAllShapeOk] at hs
  | .unb a, av, l, _ => by simp [drawAll]
  | .allot _ _, av, l, _ => by simp [drawAll]
  | .capped cap s, av, l, hs => by simp [sendAllShapeOk] at hs
  | .inorder rs, av, l, hs => by
      simp only [drawAll]
      rw [sendAllShapeOk_inorder] at hs
      exact drawAllList_shape_bad asset rs av l hs

theorem drawAllList_shape_bad (asset : String) : ∀ (rs : List RSource) (av : Avail) (l : Pulls),
    rs.all sendAllShapeOk = false → drawAllList asset rs av ≠ .ok l
  | [], av, l, hs => by simp at hs
  | s :: ss, av, l, hs => by
      intro h
      simp only [drawAllList] at h
      split at h <;> try cases h
      rename_i l1 h1
      split at h <;> try cases h
      rename_i l2 h2
      simp only [List.all_cons, Bool.and_eq_false_iff] at hs
      rcases hs with hs | hs
      · exact drawAll_shape_bad asset s av l1 hs h1
      · exact drawAllList_shape_bad asset ss _ l2 hs h2
end
/-- a well-shaped "send all" source is never rejected for its shape -/
theorem sendAll_shape_ok_not_rejected (asset : String) (r : RSource) (av : Avail) (e : Err)
    (hs : sendAllShapeOk r = true) (h : drawAll asset r av = .err e) :
    e ≠ .invalidAllotmentInSendAll ∧ ∀ n, e ≠ .invalidUnboundedInSendAll n := by
  exact drawAll_shape_err asset r av e hs h

/-- an ill-shaped one never succeeds -/
theorem sendAll_shape_bad_rejected (asset : String) (r : RSource) (av : Avail)
    (hs : sendAllShapeOk r = false) : ∀ l, drawAll asset r av ≠ .ok l := by
  exact fun l => drawAll_shape_bad asset r av l hs

/-! non-vacuity (tests): a repeated account gives its balance once -/
example : draw "USD" (.inorder [.acct "a" 0, .acct "a" 0]) (fun _ => 10) 20 = .ok [("a", 10), ("a", 0)] := by
  simp [draw, drawList, availAfter, pulled, sumPulls]

end NS
