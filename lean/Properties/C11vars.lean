/-
  Properties/C11vars.lean — C11: the run is a function of the inputs the script can see.  Of the caller's variables
  map only the entries of declared variables without origin are read: two maps that agree on those give the same
  run (result, error or panic, store-call log included); in particular an entry for an undeclared name, and the
  order in which a map with distinct keys is listed, change nothing.
-/
import Model.Run

namespace NS

/-- the value the run reads for `name` -/
def rawLookup (raw : List (String × String)) (name : String) : Option String :=
  (raw.find? (fun p => p.1 == name)).map (·.2)

/-- `name` is declared by the script as a plain variable (no origin) -/
def DeclaredPlain (decls : List VarDecl) (name : String) : Prop :=
  ∃ d ∈ decls, ∃ r, d.name = some (r, name) ∧ d.origin = none

theorem parseVars_depends_only_on_declared (store : Store) (fl : Bool) (raw1 raw2 : List (String × String))
    (decls : List VarDecl) (h : ∀ name, DeclaredPlain decls name → rawLookup raw1 name = rawLookup raw2 name)
    (vars : Vars) (q : QState) :
    parseVars store fl raw1 decls vars q = parseVars store fl raw2 decls vars q := by
  induction decls generalizing vars q with
  | nil => simp [parseVars]
  | cons d rest ih =>
    have hrest : ∀ name, DeclaredPlain rest name → rawLookup raw1 name = rawLookup raw2 name := by
      intro name ⟨d', hd', r, hn, ho⟩
      exact h name ⟨d', List.mem_cons_of_mem _ hd', r, hn, ho⟩
    unfold parseVars
    cases hn : d.name with
    | none => simp
    | some rn =>
      obtain ⟨r, name⟩ := rn
      cases ht : d.type with
      | none => simp
      | some rt =>
        obtain ⟨r', ty⟩ := rt
        cases ho : d.origin with
        | none =>
          have hl := h name ⟨d, List.mem_cons_self, r, hn, ho⟩
          simp only [rawLookup] at hl
          simp only [hl]
          cases (raw2.find? (fun p => p.1 == name)).map (·.2) with
          | none => rfl
          | some raw =>
            simp only []
            cases parseVar ty raw with
            | panic s => rfl
            | err e => rfl
            | ok v => exact ih hrest _ _
        | some fn =>
          simp only []
          cases handleOrigin store fl vars q ty fn with
          | panic s => rfl
          | err e => rfl
          | ok vq => exact ih hrest _ _

/-- C11: the run reads, of the variables map, exactly the entries of the declared plain variables -/
theorem run_depends_only_on_declared_vars (prog : Program) (raw1 raw2 : List (String × String)) (store : Store) (fl : Bool)
    (h : ∀ name, DeclaredPlain prog.vars name → rawLookup raw1 name = rawLookup raw2 name) :
    RunProgram prog raw1 store fl = RunProgram prog raw2 store fl := by
  unfold RunProgram
  rw [parseVars_depends_only_on_declared store fl raw1 raw2 prog.vars h]

/-- an entry for a name the script does not declare changes nothing, wherever it stands in the map -/
theorem run_ignores_undeclared_var (prog : Program) (pre post : List (String × String)) (k v : String)
    (store : Store) (fl : Bool) (hk : ¬ DeclaredPlain prog.vars k) :
    RunProgram prog (pre ++ (k, v) :: post) store fl = RunProgram prog (pre ++ post) store fl := by
  apply run_depends_only_on_declared_vars
  intro name hd
  have hne : (k == name) = false := by
    cases hkn : k == name with
    | false => rfl
    | true => exact absurd ((beq_iff_eq.mp hkn) ▸ hd) hk
  simp [rawLookup, List.find?_append, hne]

/-- a map has one entry per key: listed in another order it gives the same run -/
theorem rawLookup_perm (raw1 raw2 : List (String × String)) (hp : raw1.Perm raw2)
    (hnd : (raw1.map (·.1)).Nodup) (name : String) : rawLookup raw1 name = rawLookup raw2 name := by
  induction hp with
  | nil => rfl
  | cons x _ ih =>
    simp only [List.map_cons, List.nodup_cons] at hnd
    simp only [rawLookup, List.find?_cons] at ih ⊢
    cases x.1 == name with
    | true => rfl
    | false => exact ih hnd.2
  | swap x y l =>
    simp only [List.map_cons, List.nodup_cons, List.mem_cons, not_or] at hnd
    simp only [rawLookup, List.find?_cons]
    cases hx : x.1 == name <;> cases hy : y.1 == name <;> simp
    exact absurd ((beq_iff_eq.mp hy).trans (beq_iff_eq.mp hx).symm) hnd.1.1
  | trans h1 _ ih1 ih2 =>
    exact (ih1 hnd).trans (ih2 ((h1.map _).nodup_iff.mp hnd))

theorem run_vars_order_irrelevant (prog : Program) (raw1 raw2 : List (String × String)) (store : Store) (fl : Bool)
    (hp : raw1.Perm raw2) (hnd : (raw1.map (·.1)).Nodup) :
    RunProgram prog raw1 store fl = RunProgram prog raw2 store fl :=
  run_depends_only_on_declared_vars prog raw1 raw2 store fl (fun name _ => rawLookup_perm raw1 raw2 hp hnd name)

/-! non-vacuity (tests): a declared plain variable exists, and an undeclared name does not -/
example : DeclaredPlain [{ name := some (default, "x"), type := some (default, "number"), origin := none, r := default }] "x" :=
  ⟨_, List.mem_cons_self, default, rfl, rfl⟩

end NS
