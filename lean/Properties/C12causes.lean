/-
  Properties/C12causes.lean — C12: an error names the ACTUAL cause.  Evaluation goes left to right and stops at the
  first failure: the error of an unbound variable is `UnboundVariable` with its name, of a zero denominator
  `DivideByZero`, of two monetaries of different assets `MismatchedCurrency` with both assets; in `a + b` the failure of
  `a` is reported whatever `b` is; in an argument list the first argument that fails is the one reported, whatever
  the later ones would do.
-/
import Model.Eval

namespace NS

theorem evalExpr_unbound_var (vars : Vars) (r : Range) (name : String) (h : lookupVar vars name = none) :
    evalExpr vars (.var r name) = .err (.unboundVariable name) := by
  simp [evalExpr, h]

theorem evalExpr_bound_var (vars : Vars) (r : Range) (name : String) (v : Value) (h : lookupVar vars name = some v) :
    evalExpr vars (.var r name) = .ok v := by
  simp [evalExpr, h]

theorem evalExpr_zero_denominator (vars : Vars) (r : Range) (num : Nat) :
    evalExpr vars (.ratio r num 0) = .err (.divideByZero num) := by
  simp [evalExpr]

/-- the left operand is evaluated first: when it fails, that failure is the result -/
theorem evalExpr_infix_left_error_wins (vars : Vars) (r : Range) (op : InfixOp) (l rhs : Expr) (e : Err)
    (h : evalExpr vars l = .err e) : evalExpr vars (.infix r op l rhs) = .err e := by
  simp [evalExpr, h]

/-- … and when it is a monetary, a failure of the right operand is the result -/
theorem evalExpr_infix_right_error (vars : Vars) (r : Range) (op : InfixOp) (l rhs : Expr) (a : String) (n : Int) (e : Err)
    (hl : evalExpr vars l = .ok (.monetary a n)) (h : evalExpr vars rhs = .err e) :
    evalExpr vars (.infix r op l rhs) = .err e := by
  simp [evalExpr, hl, h]

/-- adding or subtracting monetaries of two assets: `MismatchedCurrency` naming both -/
theorem evalExpr_infix_mismatched_currency (vars : Vars) (r : Range) (op : InfixOp) (l rhs : Expr)
    (a1 a2 : String) (n1 n2 : Int) (hl : evalExpr vars l = .ok (.monetary a1 n1))
    (hr : evalExpr vars rhs = .ok (.monetary a2 n2)) (hne : a1 ≠ a2) :
    evalExpr vars (.infix r op l rhs) = .err (.mismatchedCurrency a1 a2) := by
  simp [evalExpr, hl, hr, expectMonetary, hne]

/-- the arguments of a call are evaluated in order and the first failure is the cause, whatever follows -/
theorem evalExprs_first_error (vars : Vars) (pre post : List Expr) (bad : Expr) (e : Err)
    (hpre : ∀ x ∈ pre, ∃ v, evalExpr vars x = .ok v) (hbad : evalExpr vars bad = .err e) :
    evalExprs vars (pre ++ bad :: post) = .err e := by
  induction pre with
  | nil => simp [evalExprs, hbad, bind, Outcome.bind]
  | cons x xs ih =>
    obtain ⟨v, hv⟩ := hpre x List.mem_cons_self
    have ih' := ih (fun y hy => hpre y (List.mem_cons_of_mem _ hy))
    simp [evalExprs, hv, ih', bind, Outcome.bind]

/-! non-vacuity (tests) -/
example : evalExprs [] [.number default 1, .var default "nope", .ratio default 1 0] = .err (.unboundVariable "nope") :=
  evalExprs_first_error [] [.number default 1] [.ratio default 1 0] (.var default "nope") _
    (by intro x hx; simp at hx; subst hx; exact ⟨.number 1, by simp [evalExpr]⟩)
    (evalExpr_unbound_var [] default "nope" rfl)

end NS
