/-
  Properties/C15layout.lean — layout independence, what holds and what does not.

  FULL STRENGTH (the wording of C15): "inserting whitespace, newlines or comments between tokens
  never changes the tree".  It splits into
   (a) the tree depends only on the kinds and texts of the tokens, not on their positions —
       `parse_layout_independent` (Properties/C15tree.lean), for all token streams;
   (b) a tree written with one blank between tokens is read back — `parse_render`
       (Properties/C15render.lean);
   (c) inserting layout between two tokens leaves the token stream (kinds and texts) unchanged.
  (c) is FALSE for the token grammar of Numscript.g4, because '/' is an ASSET character and the
  longest match wins; the two witnesses below are theorems about the lexer model and are replayed
  on the real parser by `vlib/check_c15.py` on every run (known findings
  `comment-glued-to-asset-token` and `asset-of-slashes-becomes-a-comment`).  For layouts that keep
  a blank next to every token (what the generated layout stream of the check does) (c) is observed
  on the real lexer, not proved.
-/
import Spec.ParseSpec

namespace NS

/-- witness 1: a comment written directly after an asset is swallowed by the asset token -/
theorem layout_insertion_fails_comment_after_asset :
    (lex "A /**/".toList).map (·.map Tok.shape) = some [(.asset, ['A'])] ∧
    (lex "A/**/".toList).map (·.map Tok.shape) =
      some [(.asset, "A/".toList), (.star, ['*']), (.star, ['*']), (.asset, ['/'])] := by
  decide

/-- witness 2: an asset made of two slashes is a token on a last line without newline, and the opening
    of a line comment as soon as a newline follows -/
theorem layout_insertion_fails_newline_after_slashes :
    (lex "//".toList).map (·.map Tok.shape) = some [(.asset, "//".toList)] ∧
    (lex "//\n".toList).map (·.map Tok.shape) = some [] := by
  decide

/-- not a witness against (c) — the blank is inside one token — but the reason why `best_of_lexable` needs its
    hypothesis: a number, ONE blank and a slash followed by a digit are a single ratio token -/
theorem ratio_absorbs_one_blank :
    (lex "1 /2".toList).map (·.map Tok.shape) = some [(.ratio, "1 /2".toList)] ∧
    (lex "1  /2".toList).map (·.map Tok.shape) = some [(.number, ['1']), (.asset, "/2".toList)] := by
  decide

end NS
