/-
  Properties/Statement.lean — one send statement: the interpreter's
  `runSendStatement` is the reference semantics `specSend` / `specSendAll`
  (draw, distribute, pair) whenever its expressions evaluate; and what that
  semantics guarantees about the postings of the statement.  These are the
  statement-level halves of properties C01–C05 and C07.
-/
import Spec.Statement
import Properties.C04
import Properties.C05
import Properties.C07
import Properties.C07b
import Properties.DrawBounds
import Proofs.StatementLemmas

namespace NS

/-! ### helpers (they need the property files, so they live here) -/

private theorem st_availOf_nil (vars : Vars) (c : Cache) (asset : String) :
    availOf ⟨vars, c, asset⟩ [] = availOfCache c asset := by
  funext a
  simp [availOf, availOfCache, pulled]

/-- what a successful `specSend` is made of, with the side conditions of the `Reconcile` theorems -/
private theorem st_specSend_facts (asset : String) (n : Int) (rs : RSource) (rd : RDest) (av : Avail)
    (ps : List Posting) (hps : PortionsNonnegS rs) (hpd : PortionsNonnegD rd)
    (h : specSend asset n rs rd av = .ok ps) :
    ∃ l d, 0 ≤ n ∧ draw asset rs av n = .ok l ∧ distribute rd n = .ok d ∧ sumPulls l = n ∧
      sumPulls d = n ∧ ps = Reconcile asset (nonzero l) (nonzero d) ∧
      (∀ p ∈ nonzero l, 0 < p.2) ∧ (∀ p ∈ nonzero d, 0 < p.2) ∧
      sumPulls (nonzero l) = sumPulls (nonzero d) := by
  obtain ⟨hn, l, d, hl, hsum, hd, hps'⟩ := st_specSend_ok asset n rs rd av ps h
  obtain ⟨hsd, hdn⟩ := distribute_conserves rd n d hn hpd hd
  have hln := draw_pulls_nonneg asset rs av n l hn hps hl
  refine ⟨l, d, hn, hl, hd, hsum, hsd, hps', st_nonzero_pos l hln, st_nonzero_pos d hdn, ?_⟩
  rw [sumPulls_nonzero, sumPulls_nonzero, hsum, hsd]

private theorem st_specSendAll_facts (asset : String) (rs : RSource) (rd : RDest) (av : Avail)
    (ps : List Posting) (hps : PortionsNonnegS rs) (hpd : PortionsNonnegD rd)
    (h : specSendAll asset rs rd av = .ok ps) :
    ∃ l d, drawAll asset rs av = .ok l ∧ distribute rd (sumPulls l) = .ok d ∧
      ps = Reconcile asset (nonzero l) (nonzero d) ∧
      (∀ p ∈ nonzero l, 0 < p.2) ∧ (∀ p ∈ nonzero d, 0 < p.2) ∧
      sumPulls (nonzero l) = sumPulls (nonzero d) := by
  obtain ⟨l, d, hl, hd, hps'⟩ := st_specSendAll_ok asset rs rd av ps h
  have hln := drawAll_pulls_nonneg asset rs av l hps hl
  have hn := sumPulls_nonneg_of l hln
  obtain ⟨hsd, hdn⟩ := distribute_conserves rd (sumPulls l) d hn hpd hd
  refine ⟨l, d, hl, hd, hps', st_nonzero_pos l hln, st_nonzero_pos d hdn, ?_⟩
  rw [sumPulls_nonzero, sumPulls_nonzero, hsd]

/-- the postings of a pairing are real transfers between the named accounts -/
private theorem st_postings_real (asset : String) (l d : Pulls) (A B : List String)
    (hl : ∀ p ∈ nonzero l, 0 < p.2) (hd : ∀ p ∈ nonzero d, 0 < p.2)
    (hA : ∀ p ∈ l, p.1 ∈ A) (hB : ∀ p ∈ d, p.1 ∈ B ∨ p.1 = KEPT_ADDR) :
    ∀ p ∈ Reconcile asset (nonzero l) (nonzero d), 0 < p.amount ∧ p.asset = asset ∧
      p.destination ≠ KEPT_ADDR ∧ p.source ∈ A ∧ p.destination ∈ B := by
  intro p hp
  have hpos := reconcile_positive asset _ _ hl hd p hp
  obtain ⟨hsrc, hdst, hasset⟩ := reconcile_names asset _ _ p hp
  have hk := reconcile_never_credits_kept asset _ _ p hp
  obtain ⟨q, hq, e⟩ := st_nonzero_names hsrc
  obtain ⟨q', hq', e'⟩ := st_nonzero_names hdst
  refine ⟨hpos, hasset, hk, e ▸ hA q hq, ?_⟩
  rcases hB q' hq' with hb | hb
  · exact e' ▸ hb
  · exact absurd (e' ▸ hb) hk

/-! ### refinement -/

/-- a fixed-amount send is `specSend` on the denotations of its sub-expressions -/
theorem runSend_fixed_refines (vars : Vars) (st : RState) (r : Range) (m : Expr) (src : Source) (dst : Dest)
    (asset : String) (n : Int) (rs : RSource) (rd : RDest)
    (hm : evalAs vars m expectMonetary = .ok (asset, n))
    (hs : resolveS vars asset src = .ok rs) (hd : resolveD vars asset dst = .ok rd) :
    runSendStatement vars st (.lit r m) src dst =
      (match specSend asset n rs rd (availOfCache st.cache asset) with
       | .ok ps => .ok (ps, { st with cache := applyPostings st.cache ps })
       | .err e => .err e
       | .panic s => .panic s) := by
  unfold runSendStatement specSend
  simp only [hm]
  by_cases hn : n < 0
  · simp [hn]
  · simp only [hn, if_false, trySendingExact]
    rw [send_refines_draw ⟨vars, st.cache, asset⟩ src rs n [] hs,
      receive_refines_distribute ⟨vars, st.cache, asset⟩ dst rd n [] hd, st_availOf_nil]
    cases hdr : draw asset rs (availOfCache st.cache asset) n with
    | err e => rfl
    | panic s => rfl
    | ok l =>
      simp only [List.nil_append]
      by_cases hsum : sumPulls l = n
      · simp only [hsum, if_true]
        cases distribute rd n <;> rfl
      · simp only [hsum, if_false]

/-- a send-all is `specSendAll` on the denotations of its sub-expressions -/
theorem runSend_all_refines (vars : Vars) (st : RState) (r : Range) (a : Expr) (src : Source) (dst : Dest)
    (asset : String) (rs : RSource) (rd : RDest)
    (ha : evalAs vars a expectAsset = .ok asset)
    (hs : resolveS vars asset src = .ok rs) (hd : resolveD vars asset dst = .ok rd) :
    runSendStatement vars st (.all r a) src dst =
      (match specSendAll asset rs rd (availOfCache st.cache asset) with
       | .ok ps => .ok (ps, { st with cache := applyPostings st.cache ps })
       | .err e => .err e
       | .panic s => .panic s) := by
  unfold runSendStatement specSendAll
  simp only [ha]
  rw [sendAll_refines_drawAll ⟨vars, st.cache, asset⟩ src rs [] hs, st_availOf_nil]
  cases hdr : drawAll asset rs (availOfCache st.cache asset) with
  | err e => rfl
  | panic s => rfl
  | ok l =>
    simp only [List.nil_append]
    rw [receive_refines_distribute ⟨vars, st.cache, asset⟩ dst rd (sumPulls l) [] hd]
    cases distribute rd (sumPulls l) <;> rfl

/-! ### C03: a fixed-amount send moves exactly that amount or fails for lack of funds -/

/-- the postings add up to the amount minus what the destination keeps -/
theorem specSend_total (asset : String) (n : Int) (rs : RSource) (rd : RDest) (av : Avail) (ps : List Posting)
    (hps : PortionsNonnegS rs) (hpd : PortionsNonnegD rd) (hk : allotLenOk rs)
    (h : specSend asset n rs rd av = .ok ps) :
    ∃ d, distribute rd n = .ok d ∧ sumAmounts ps = n - keptOf d := by
  have _ := hk
  obtain ⟨l, d, _, _, hd, hsum, _, rfl, hlp, hdp, heq⟩ := st_specSend_facts asset n rs rd av ps hps hpd h
  refine ⟨d, hd, ?_⟩
  unfold sumAmounts keptOf
  rw [reconcile_total asset _ _ hlp hdp heq, sumPulls_nonzero, pulled_nonzero, hsum]

/-- it fails exactly when the amount is negative, the draw fails, the sources give less than `n`,
    or the destination is invalid — and a shortage is reported as missing funds -/
theorem specSend_fails_iff (asset : String) (n : Int) (rs : RSource) (rd : RDest) (av : Avail) (e : Err) :
    specSend asset n rs rd av = .err e ↔
      (n < 0 ∧ e = .negativeAmount n) ∨
      (0 ≤ n ∧ draw asset rs av n = .err e) ∨
      (0 ≤ n ∧ ∃ l, draw asset rs av n = .ok l ∧ sumPulls l ≠ n ∧ e = .missingFunds asset n (sumPulls l)) ∨
      (0 ≤ n ∧ ∃ l, draw asset rs av n = .ok l ∧ sumPulls l = n ∧ distribute rd n = .err e) := by
  unfold specSend
  by_cases hn : n < 0
  · simp only [hn, if_true]
    constructor
    · intro h
      injection h with h
      exact .inl ⟨trivial, h.symm⟩
    · rintro (⟨_, rfl⟩ | ⟨h0, _⟩ | ⟨h0, _⟩ | ⟨h0, _⟩)
      · rfl
      all_goals omega
  · have h0 : 0 ≤ n := by omega
    simp only [hn, if_false, false_and, false_or, h0, true_and]
    cases hdr : draw asset rs av n with
    | panic s => simp
    | err e' => simp
    | ok l =>
      simp only [Outcome.ok.injEq, exists_eq_left', false_or, reduceCtorEq]
      by_cases hsum : sumPulls l = n
      · simp only [hsum, if_true, ne_eq, not_true_eq_false, false_and, false_or, true_and]
        cases distribute rd n <;> simp
      · simp only [hsum, if_false, ne_eq, not_false_eq_true, true_and, false_and, or_false,
          Outcome.err.injEq]
        exact eq_comm

/-- a draw can only fail for lack of funds in an allotment or because of invalid portions -/
theorem draw_err_kinds (asset : String) (r : RSource) (av : Avail) (need : Int) (e : Err)
    (h : draw asset r av need = .err e) :
    (∃ a x y, e = .missingFunds a x y) ∨ (∃ q, e = .invalidAllotmentSum q) := by
  exact draw_err asset r av need e h

/-- a send of zero succeeds with no posting (when the destination's portions are valid) -/
theorem specSend_zero (asset : String) (rs : RSource) (rd : RDest) (av : Avail) (d : Pulls)
    (hd : distribute rd 0 = .ok d) (hpd : PortionsNonnegD rd)
    (hdraw : ∃ l, draw asset rs av 0 = .ok l) : specSend asset 0 rs rd av = .ok [] := by
  obtain ⟨l, hl⟩ := hdraw
  have hlz := st_draw_zero_all asset rs av l hl
  obtain ⟨hsd, hdn⟩ := distribute_conserves rd 0 d (le_refl 0) hpd hd
  have hdz := st_all_zero_of_sum_zero d hdn hsd
  unfold specSend
  simp only [hl, hd, st_sumPulls_all_zero l hlz, st_nonzero_all_zero l hlz, st_nonzero_all_zero d hdz,
    st_reconcile_nil_nil]
  simp

/-! ### C02: every posting is a real transfer -/

theorem specSend_postings_real (asset : String) (n : Int) (rs : RSource) (rd : RDest) (av : Avail) (ps : List Posting)
    (hps : PortionsNonnegS rs) (hpd : PortionsNonnegD rd)
    (h : specSend asset n rs rd av = .ok ps) :
    ∀ p ∈ ps, 0 < p.amount ∧ p.asset = asset ∧ p.destination ≠ KEPT_ADDR ∧
      p.source ∈ accountsOfS rs ∧ p.destination ∈ accountsOfD rd := by
  obtain ⟨l, d, _, hl, hd, _, _, rfl, hlp, hdp, _⟩ := st_specSend_facts asset n rs rd av ps hps hpd h
  exact st_postings_real asset l d _ _ hlp hdp (st_draw_names asset rs av n l hl)
    (st_distribute_names rd n d hd)

theorem specSendAll_postings_real (asset : String) (rs : RSource) (rd : RDest) (av : Avail) (ps : List Posting)
    (hps : PortionsNonnegS rs) (hpd : PortionsNonnegD rd)
    (h : specSendAll asset rs rd av = .ok ps) :
    ∀ p ∈ ps, 0 < p.amount ∧ p.asset = asset ∧ p.destination ≠ KEPT_ADDR ∧
      p.source ∈ accountsOfS rs ∧ p.destination ∈ accountsOfD rd := by
  obtain ⟨l, d, hl, hd, rfl, hlp, hdp, _⟩ := st_specSendAll_facts asset rs rd av ps hps hpd h
  exact st_postings_real asset l d _ _ hlp hdp (st_drawAll_names asset rs av l hl)
    (st_distribute_names rd _ d hd)

/-! ### C01 (one statement): no prefix of the statement's postings debits an account beyond
    its available balance plus the largest overdraft the source grants it -/

theorem specSend_debits_bound (asset : String) (n : Int) (rs : RSource) (rd : RDest) (av : Avail)
    (ps : List Posting) (a : String) (k : Nat)
    (hps : PortionsNonnegS rs) (hpd : PortionsNonnegD rd) (hu : unbIn a rs = false)
    (h : specSend asset n rs rd av = .ok ps) :
    debitsOf (ps.take k) a ≤ max 0 (av a + maxGrant (grantsOf a rs)) ∧ 0 ≤ creditsOf (ps.take k) a := by
  obtain ⟨l, d, hn, hl, _, _, _, rfl, hlp, hdp, _⟩ := st_specSend_facts asset n rs rd av ps hps hpd h
  refine ⟨?_, reconcile_prefix_credits_nonneg asset _ _ hlp hdp a k⟩
  have h1 := reconcile_prefix_debits_le asset _ _ hlp hdp a k
  rw [pulled_nonzero] at h1
  exact le_trans h1 (draw_pulled_bound asset rs av n l a hn hps hu hl)

theorem specSendAll_debits_bound (asset : String) (rs : RSource) (rd : RDest) (av : Avail)
    (ps : List Posting) (a : String) (k : Nat)
    (hps : PortionsNonnegS rs) (hpd : PortionsNonnegD rd) (hu : unbIn a rs = false)
    (h : specSendAll asset rs rd av = .ok ps) :
    debitsOf (ps.take k) a ≤ max 0 (av a + maxGrant (grantsOf a rs)) ∧ 0 ≤ creditsOf (ps.take k) a := by
  obtain ⟨l, d, hl, _, rfl, hlp, hdp, _⟩ := st_specSendAll_facts asset rs rd av ps hps hpd h
  refine ⟨?_, reconcile_prefix_credits_nonneg asset _ _ hlp hdp a k⟩
  have h1 := reconcile_prefix_debits_le asset _ _ hlp hdp a k
  rw [pulled_nonzero] at h1
  exact le_trans h1 (drawAll_pulled_bound asset rs av l a hps hu hl)

/-- an account that the source does not name is not debited at all -/
theorem specSend_no_debit_of_absent (asset : String) (n : Int) (rs : RSource) (rd : RDest) (av : Avail)
    (ps : List Posting) (a : String) (hps : PortionsNonnegS rs) (hpd : PortionsNonnegD rd)
    (ha : a ∉ accountsOfS rs) (h : specSend asset n rs rd av = .ok ps) : ∀ p ∈ ps, p.source ≠ a := by
  intro p hp e
  exact ha (e ▸ (specSend_postings_real asset n rs rd av ps hps hpd h p hp).2.2.2.1)

/-! ### C04 / C05 (observable form): per-account debits and credits of the statement -/

/-- credits: every real destination account receives exactly its share of the distribution;
    credited plus kept equals sent -/
theorem specSend_credits (asset : String) (n : Int) (rs : RSource) (rd : RDest) (av : Avail) (ps : List Posting)
    (hps : PortionsNonnegS rs) (hpd : PortionsNonnegD rd) (hk : allotLenOk rs)
    (h : specSend asset n rs rd av = .ok ps) :
    ∃ d, distribute rd n = .ok d ∧ (∀ x, x ≠ KEPT_ADDR → creditsOf ps x = pulled d x) ∧
      sumAmounts ps + keptOf d = n := by
  have _ := hk
  obtain ⟨l, d, _, _, hd, hsum, _, rfl, hlp, hdp, heq⟩ := st_specSend_facts asset n rs rd av ps hps hpd h
  refine ⟨d, hd, ?_, ?_⟩
  · intro x hx
    rw [reconcile_credits asset _ _ hlp hdp heq x hx, pulled_nonzero]
  · unfold sumAmounts keptOf
    rw [reconcile_total asset _ _ hlp hdp heq, sumPulls_nonzero, pulled_nonzero, hsum]
    omega

/-- debits: every source account is debited at most what the greedy draw takes from it, and exactly
    that when nothing is kept -/
theorem specSend_debits (asset : String) (n : Int) (rs : RSource) (rd : RDest) (av : Avail) (ps : List Posting)
    (hps : PortionsNonnegS rs) (hpd : PortionsNonnegD rd) (hk : allotLenOk rs)
    (h : specSend asset n rs rd av = .ok ps) :
    ∃ l d, draw asset rs av n = .ok l ∧ distribute rd n = .ok d ∧
      (∀ a, debitsOf ps a ≤ pulled l a) ∧ (keptOf d = 0 → ∀ a, debitsOf ps a = pulled l a) := by
  have _ := hk
  obtain ⟨l, d, _, hl, hd, _, _, rfl, hlp, hdp, heq⟩ := st_specSend_facts asset n rs rd av ps hps hpd h
  refine ⟨l, d, hl, hd, ?_, ?_⟩
  · intro a
    have := reconcile_debits_le_pulled asset _ _ hlp hdp a
    rwa [pulled_nonzero] at this
  · intro hkept a
    have hk0 : pulled (nonzero d) KEPT_ADDR = 0 := by rw [pulled_nonzero]; exact hkept
    rw [reconcile_debits_exact asset _ _ hlp hdp heq hk0 a, pulled_nonzero]

/-- C07 at statement level: the flows are the in-order unit pairing of the draw with the distribution -/
theorem specSend_flows (asset : String) (n : Int) (rs : RSource) (rd : RDest) (av : Avail) (ps : List Posting)
    (hps : PortionsNonnegS rs) (hpd : PortionsNonnegD rd)
    (h : specSend asset n rs rd av = .ok ps) :
    ∃ l d, draw asset rs av n = .ok l ∧ distribute rd n = .ok d ∧
      ∀ s x, x ≠ KEPT_ADDR → flowOf ps s x = (unitFlow (nonzero l) (nonzero d) s x : Int) := by
  obtain ⟨l, d, _, hl, hd, _, _, rfl, hlp, hdp, _⟩ := st_specSend_facts asset n rs rd av ps hps hpd h
  exact ⟨l, d, hl, hd, fun s x hx => reconcile_flow_eq_pairing asset _ _ hlp hdp s x hx⟩

/-! non-vacuity (test): {@a @a} with 10 on @a cannot send 20 -/
example : specSend "USD" 20 (.inorder [.acct "a" 0, .acct "a" 0]) (.acct "b") (fun _ => 10) =
    .err (.missingFunds "USD" 20 10) := by
  simp [specSend, draw, drawList, availAfter, pulled, sumPulls]

end NS
