/-
  Properties/C13.lean — values keep their exact meaning across literal,
  variable and metadata text.  About Model/Text.lean: the literal converters
  (`ratioLiteral`, `percentLiteral`), the portion-variable reader
  (`ParsePortionSpecific`), `parseVar` and the renderings.
-/
import Model.Text
import Proofs.TextLemmas

namespace NS

/-- base-ten positional value, defined from the most significant digit -/
def posValue : List Char → Nat
  | [] => 0
  | c :: t => digitVal c * 10 ^ t.length + posValue t

/-- `digitsVal` (a left fold) is the base-ten positional value, for any number of digits and any
    leading zeros -/
theorem digitsVal_eq_posValue (ds : List Char) : digitsVal ds = posValue ds := by
  induction ds with
  | nil => rfl
  | cons c t ih => rw [tx_digitsVal_cons, posValue, ih]

theorem digitsVal_append_digit (ds : List Char) (c : Char) :
    digitsVal (ds ++ [c]) = 10 * digitsVal ds + digitVal c := by
  rw [tx_digitsVal_append, tx_digitsVal_cons]
  simp [tx_digitsVal_nil]
  omega

/-- optional single blank around the slash -/
def sp (b : Bool) : List Char := if b then [' '] else []

/-- literal `n/d` (with optional single blanks): numerator and denominator are exactly the two
    numerals read in base ten — whatever their length and leading zeros -/
theorem ratio_literal_exact (n d : List Char) (hn : n ≠ []) (hnd : n.all isDigit = true)
    (hd : d ≠ []) (hdd : d.all isDigit = true) (b1 b2 : Bool) :
    ratioLiteral (n ++ sp b1 ++ ['/'] ++ sp b2 ++ d) = some (digitsVal n, digitsVal d) := by
  exact tx_ratioLiteral n d hn hnd hd hdd b1 b2

/-- literal `p%`: exactly p/100 -/
theorem percent_literal_exact (p : List Char) (hp : p ≠ []) (hpd : p.all isDigit = true) :
    percentLiteral (p ++ ['%']) = some (digitsVal p, 100) := by
  unfold percentLiteral
  rw [tx_matchPercent_int p hp hpd]
  simp [pow10]

/-- literal `p.q%`: exactly (the numeral pq)/10^(2+|q|) -/
theorem percent_frac_literal_exact (p q : List Char) (hp : p ≠ []) (hpd : p.all isDigit = true)
    (hq : q ≠ []) (hqd : q.all isDigit = true) :
    percentLiteral (p ++ ['.'] ++ q ++ ['%']) = some (digitsVal (p ++ q), 10 ^ (2 + q.length)) := by
  unfold percentLiteral
  rw [show p ++ ['.'] ++ q ++ ['%'] = p ++ '.' :: (q ++ ['%']) by simp,
    tx_matchPercent_frac p q hp hpd hq hqd]
  simp [pow10]

/-- the same text passed as a portion variable denotes the same number (when it lies in [0,1]) … -/
theorem portion_var_ratio (n d : List Char) (hn : n ≠ []) (hnd : n.all isDigit = true)
    (hd : d ≠ []) (hdd : d.all isDigit = true) (b1 b2 : Bool)
    (hz : digitsVal d ≠ 0) (hle : digitsVal n ≤ digitsVal d) :
    ParsePortionSpecific (String.ofList (n ++ sp b1 ++ ['/'] ++ sp b2 ++ d)) =
      .ok (mkRat (digitsVal n) (digitsVal d)) := by
  exact tx_pps_fraction_ok _ n d
    (by simpa [sp] using tx_matchPercent_ratio_none n (sp b2 ++ d) hnd b1)
    (tx_matchFraction n d hn hnd hd hdd b1 b2) hz hle

theorem portion_var_percent (p q : List Char) (hp : p ≠ []) (hpd : p.all isDigit = true)
    (hqd : q.all isDigit = true)
    (hle : digitsVal (p ++ q) ≤ 10 ^ (2 + q.length)) :
    ParsePortionSpecific (String.ofList (p ++ (if q = [] then [] else '.' :: q) ++ ['%'])) =
      .ok (mkRat (digitsVal (p ++ q)) (10 ^ (2 + q.length))) := by
  by_cases hq : q = []
  · subst hq
    simp only [if_true, List.append_nil] at hle ⊢
    have := tx_pps_percent_ok _ p [] (tx_matchPercent_int p hp hpd) (by simpa using hle)
    simpa using this
  · simp only [hq, if_false]
    have := tx_pps_percent_ok _ p q (tx_matchPercent_frac p q hp hpd hq hqd) hle
    simpa using this

/-- … and is rejected, not misread, when its value exceeds one or its denominator is zero -/
theorem portion_var_ratio_rejected (n d : List Char) (hn : n ≠ []) (hnd : n.all isDigit = true)
    (hd : d ≠ []) (hdd : d.all isDigit = true) (b1 b2 : Bool)
    (hbad : digitsVal d = 0 ∨ digitsVal d < digitsVal n) :
    ∃ reason, ParsePortionSpecific (String.ofList (n ++ sp b1 ++ ['/'] ++ sp b2 ++ d)) =
      .err (.badPortionParsing reason) := by
  exact tx_pps_fraction_bad _ n d
    (by simpa [sp] using tx_matchPercent_ratio_none n (sp b2 ++ d) hnd b1)
    (tx_matchFraction n d hn hnd hd hdd b1 b2) hbad

/-! ### round trip through metadata text: `parseVar τ (render v) = v` -/

theorem roundtrip_string (s : String) : parseVar "string" (Value.str s).render = .ok (.str s) := by
  simp [parseVar, Value.render]

theorem roundtrip_asset (s : String) : parseVar "asset" (Value.asset s).render = .ok (.asset s) := by
  simp [parseVar, Value.render]

theorem roundtrip_account (s : String) (h : validAccountName s = true) :
    parseVar "account" (Value.account s).render = .ok (.account s) := by
  simp [parseVar, Value.render, h]

/-- portions in [0,1]: rendered as `num/den`, read back as the same rational -/
theorem roundtrip_portion (q : Rat) (h0 : 0 ≤ q) (h1 : q ≤ 1) :
    parseVar "portion" (Value.portion q).render = .ok (.portion q) := by
  simp [parseVar, Value.render, tx_pps_renderRat q h0 h1]

/-- numbers of any sign and size -/
theorem roundtrip_number (n : Int) : parseVar "number" (Value.number n).render = .ok (.number n) := by
  simp only [parseVar, Value.render, tx_parseInt_toString]
  simp

/-- monetaries: any asset text without a blank, any amount -/
theorem roundtrip_monetary (a : String) (n : Int) (ha : ' ' ∉ a.toList) :
    parseVar "monetary" (Value.monetary a n).render = .ok (.monetary a n) := by
  simp only [parseVar, Value.render, if_true]
  exact tx_parseMonetary_render a n ha

/-! non-vacuity (tests): the spellings the old code misread -/
example : percentLiteral "0.10%".toList = some (10, 10000) := by decide
example : ratioLiteral "1/010".toList = some (1, 10) := by decide
example : ParsePortionSpecific "1/010" = .ok (mkRat 1 10) := by
  have := portion_var_ratio ['1'] ['0', '1', '0'] (by decide) (by decide) (by decide) (by decide)
    false false (by decide) (by decide)
  have h1 : digitsVal ['1'] = 1 := by decide
  have h2 : digitsVal ['0', '1', '0'] = 10 := by decide
  rw [h1, h2] at this
  exact this

end NS
