/-
  Properties/C05.lean — destinations are filled in order up to their caps;
  `remaining` gets the rest.  The interpreter's destination functions
  (Model/Dest.lean) refine `distribute` of Spec/Distribute.lean; conservation
  and the clause formulas are proved about `distribute` itself.
-/
import Spec.Distribute
import Properties.C06
import Proofs.DistributeLemmas
import Proofs.DistributeLemmas2

namespace NS

mutual
  /-- all literal / variable portions of a resolved destination are non-negative
      (and every allotment node has one target per portion) -/
  def PortionsNonnegD : RDest → Prop
    | .acct _ => True
    | .inorder _ tos rest => PortionsNonnegKs tos ∧ PortionsNonnegK rest
    | .allot qs tos => (∀ q, some q ∈ qs → 0 ≤ q) ∧ qs.length = tos.length ∧ PortionsNonnegKs tos
  def PortionsNonnegK : RKoD → Prop
    | .kept => True
    | .to d => PortionsNonnegD d
  def PortionsNonnegKs : List RKoD → Prop
    | [] => True
    | t :: ts => PortionsNonnegK t ∧ PortionsNonnegKs ts
end

/-- R3: whenever the destination expression resolves, `receiveFrom` queues exactly the
    distribution (zero amounts are not queued), and fails exactly when it does -/
theorem receive_refines_distribute (env : Env) (dst : Dest) (r : RDest) (n : Int) (rcv : Receivers)
    (hr : resolveD env.vars env.asset dst = .ok r) :
    receiveFrom env dst n rcv =
      (match distribute r n with
       | .ok l => .ok (rcv ++ nonzero l)
       | .err e => .err e
       | .panic s => .panic s) := by
  rw [receiveFrom_refines env dst r n rcv hr]
  cases distribute r n <;> rfl

mutual
  private theorem distribute_cons : (r : RDest) → (n : Int) → (l : Pulls) → 0 ≤ n → PortionsNonnegD r →
      distribute r n = .ok l → sumPulls l = n ∧ ∀ p ∈ l, 0 ≤ p.2
    | .acct a, n, l, hn, _, h => by
        simp only [distribute, Outcome.ok.injEq] at h
        subst h
        simp [sumPulls, hn]
    | .inorder caps tos rest, n, l, hn, hp, h => by
        simp only [PortionsNonnegD] at hp
        obtain ⟨hp1, hp2⟩ := hp
        simp only [distribute] at h
        split at h <;> try cases h
        rename_i left l1 hcl
        obtain ⟨h0, hs, hnn⟩ := distClauses_cons tos caps n left l1 hn hp1 hcl
        split at h
        · rename_i hz
          cases h
          exact ⟨by omega, hnn⟩
        · split at h <;> try cases h
          rename_i l2 hk
          obtain ⟨hs2, hnn2⟩ := distKoD_cons rest left l2 h0 hp2 hk
          refine ⟨by rw [sumPulls_append_dist]; omega, ?_⟩
          intro p hpm
          rcases List.mem_append.mp hpm with hpm | hpm
          · exact hnn p hpm
          · exact hnn2 p hpm
    | .allot qs tos, n, l, hn, hp, h => by
        simp only [PortionsNonnegD] at hp
        obtain ⟨hq, hlen, hp2⟩ := hp
        simp only [distribute] at h
        split at h <;> try cases h
        rename_i parts ha
        obtain ⟨hsum, hnn, hpl⟩ := allotOf_ok n qs parts hn hq ha
        obtain ⟨hs, hnn2⟩ := distAllot_cons tos parts l hnn hp2 (by omega) h
        exact ⟨by omega, hnn2⟩

  private theorem distKoD_cons : (t : RKoD) → (n : Int) → (l : Pulls) → 0 ≤ n → PortionsNonnegK t →
      distKoD t n = .ok l → sumPulls l = n ∧ ∀ p ∈ l, 0 ≤ p.2
    | .kept, n, l, hn, _, h => by
        simp only [distKoD, Outcome.ok.injEq] at h
        subst h
        simp [sumPulls, hn]
    | .to d, n, l, hn, hp, h => by
        simp only [PortionsNonnegK] at hp
        simp only [distKoD] at h
        exact distribute_cons d n l hn hp h

  private theorem distClauses_cons : (tos : List RKoD) → (caps : List Int) → (left left' : Int) → (l : Pulls) →
      0 ≤ left → PortionsNonnegKs tos → distClauses caps tos left = .ok (left', l) →
      0 ≤ left' ∧ sumPulls l + left' = left ∧ ∀ p ∈ l, 0 ≤ p.2
    | tos, [], left, left', l, hl, _, h => by
        simp only [distClauses, Outcome.ok.injEq, Prod.mk.injEq] at h
        obtain ⟨rfl, rfl⟩ := h
        simp [sumPulls, hl]
    | [], c :: cs, left, left', l, hl, _, h => by
        simp [distClauses] at h
    | t :: ts, c :: cs, left, left', l, hl, hp, h => by
        simp only [PortionsNonnegKs] at hp
        obtain ⟨hp1, hp2⟩ := hp
        simp only [distClauses] at h
        split at h
        · simp only [Outcome.ok.injEq, Prod.mk.injEq] at h
          obtain ⟨rfl, rfl⟩ := h
          simp [sumPulls, hl]
        · split at h
          · exact distClauses_cons ts cs left left' l hl hp2 h
          · split at h <;> try cases h
            rename_i l1 hk
            split at h <;> try cases h
            rename_i _ l2 hrest
            have hamt : 0 ≤ min (max 0 c) left := by omega
            have hle : min (max 0 c) left ≤ left := by omega
            obtain ⟨hs1, hnn1⟩ := distKoD_cons t _ l1 hamt hp1 hk
            obtain ⟨h0, hs2, hnn2⟩ := distClauses_cons ts cs _ left' l2 (by omega) hp2 hrest
            refine ⟨h0, by rw [sumPulls_append_dist]; omega, ?_⟩
            intro p hpm
            rcases List.mem_append.mp hpm with hpm | hpm
            · exact hnn1 p hpm
            · exact hnn2 p hpm

  private theorem distAllot_cons : (tos : List RKoD) → (parts : List Int) → (l : Pulls) →
      (∀ x ∈ parts, 0 ≤ x) → PortionsNonnegKs tos → parts.length = tos.length →
      distAllot tos parts = .ok l → sumPulls l = parts.sum ∧ ∀ p ∈ l, 0 ≤ p.2
    | [], parts, l, _, _, hlen, h => by
        simp only [distAllot, Outcome.ok.injEq] at h
        subst h
        have : parts = [] := List.eq_nil_of_length_eq_zero (by simpa using hlen)
        subst this
        simp [sumPulls]
    | t :: ts, [], l, _, _, hlen, h => by simp at hlen
    | t :: ts, x :: xs, l, hx, hp, hlen, h => by
        simp only [PortionsNonnegKs] at hp
        obtain ⟨hp1, hp2⟩ := hp
        simp only [distAllot] at h
        split at h <;> try cases h
        rename_i l1 hk
        split at h <;> try cases h
        rename_i l2 hrest
        obtain ⟨hs1, hnn1⟩ := distKoD_cons t x l1 (hx x (by simp)) hp1 hk
        obtain ⟨hs2, hnn2⟩ := distAllot_cons ts xs l2 (fun y hy => hx y (List.mem_cons_of_mem _ hy)) hp2
          (by simpa using hlen) hrest
        refine ⟨by rw [sumPulls_append_dist, List.sum_cons]; omega, ?_⟩
        intro p hpm
        rcases List.mem_append.mp hpm with hpm | hpm
        · exact hnn1 p hpm
        · exact hnn2 p hpm
end

/-- conservation: credited plus kept amounts equal the amount sent, and nobody receives a negative amount -/
theorem distribute_conserves (r : RDest) (n : Int) (l : Pulls) (hn : 0 ≤ n) (hp : PortionsNonnegD r)
    (h : distribute r n = .ok l) : sumPulls l = n ∧ ∀ p ∈ l, 0 ≤ p.2 := by
  exact distribute_cons r n l hn hp h

/-- an ordered destination: the first clause receives min(its cap, what is left) — a negative cap
    counts as zero — and the following clauses distribute what is left after it -/
theorem distClauses_step (c : Int) (cs : List Int) (t : RKoD) (ts : List RKoD) (left : Int) (hl : 0 < left)
    (hc : 0 < c) :
    distClauses (c :: cs) (t :: ts) left =
      (match distKoD t (min c left) with
       | .ok l1 =>
          (match distClauses cs ts (left - min c left) with
           | .ok (left', l2) => .ok (left', l1 ++ l2)
           | .err e => .err e
           | .panic s => .panic s)
       | .err e => .err e
       | .panic s => .panic s) := by
  have hm : min (max 0 c) left = min c left := by omega
  have h1 : left ≠ 0 := by omega
  have h2 : min c left ≠ 0 := by omega
  simp only [distClauses, hm, h1, h2, if_false]
  cases distKoD t (min c left) with
  | err e => rfl
  | panic s => rfl
  | ok l1 =>
    simp only
    cases distClauses cs ts (left - min c left) <;> rfl

/-- a clause whose cap is zero or negative receives nothing: a negative cap counts as zero.
    (For `left = 0` the loop stops before looking at the cap, so the statement is about `0 < left`.) -/
theorem distClauses_nonpositive_cap_skipped (c : Int) (cs : List Int) (t : RKoD) (ts : List RKoD) (left : Int)
    (hc : c ≤ 0) (hl : 0 < left) : distClauses (c :: cs) (t :: ts) left = distClauses cs ts left :=
  distClauses_nonpositive_cap_skipped_pos c cs t ts left hc hl

/-- the `remaining` clause receives what is left after all caps -/
theorem distribute_inorder_remaining (caps : List Int) (tos : List RKoD) (rest : RKoD) (n left : Int) (l : Pulls)
    (h : distClauses caps tos n = .ok (left, l)) (hl : left ≠ 0) :
    distribute (.inorder caps tos rest) n =
      (match distKoD rest left with
       | .ok l2 => .ok (l ++ l2)
       | .err e => .err e
       | .panic s => .panic s) := by
  simp only [distribute, h, hl, if_false]
  cases distKoD rest left <;> rfl

/-- amounts routed to `kept` go to the pseudo-receiver only: a `kept` target credits nobody else -/
theorem distKoD_kept (n : Int) : distKoD .kept n = .ok [(KEPT_ADDR, n)] := by
  simp only [distKoD]

/-! non-vacuity (test): a negative cap counts as zero -/
example : distribute (.inorder [-5] [.to (.acct "a")] (.to (.acct "b"))) 10 = .ok [("b", 10)] := by
  simp [distribute, distClauses, distKoD]

end NS
