/-
  Properties/C14grammar.lean — the texts the parser model accepts are exactly the written forms of
  trees.  Completeness is `parse_unparse` (Properties/C15roundtrip.lean): every token stream with
  the kinds and texts of a writable tree is accepted, with that tree.  Soundness is below: when a
  token stream is accepted, the returned tree is writable and the stream is, kind by kind, what
  that tree is written as (up to an empty `vars { }` block, which leaves no trace in the tree, and to the
  two spellings of a portion).
  So "accepted with zero errors" = "is the written form of some tree of the grammar".
-/
import Spec.Render
import Proofs.GrammarLemmas

namespace NS

/-- an identifier token never carries the text of a keyword (the keyword rule wins the tie) -/
theorem lex_ident_not_keyword (cs : List Char) (ts : List Tok) (h : lex cs = some ts) :
    ∀ t ∈ ts, t.kind = .ident → t.text ∉ keywordTexts := by
  intro t ht hk
  exact gr_ident_not_keyword t (gr_lex_toks cs ts h t ht) hk

/-- keyword and punctuation tokens carry their fixed spelling -/
theorem lex_fixed_text (cs : List Char) (ts : List Tok) (h : lex cs = some ts) :
    ∀ t ∈ ts, ∀ txt, fixedText t.kind = some txt → t.text = txt := by
  intro t ht txt hf
  exact gr_fixed_text t (gr_lex_toks cs ts h t ht) txt hf

/-- a percentage is one of the two spellings of a portion: the tree keeps the value, not the spelling -/
def normKind (k : TK) : TK := if k = .percent then .ratio else k

/-- soundness on token streams -/
theorem parse_sound (ts : List Tok) (p : Program) (h : parseTokens ts = some p)
    (hid : ∀ t ∈ ts, t.kind = .ident → t.text ≠ "overdraft".toList)
    (hkw : ∀ t ∈ ts, t.kind = .kwOverdraft → t.text = "overdraft".toList) :
    p.Printable ∧
    (ts.map (fun t => normKind t.kind) = p.toks.map (·.1) ∨
     (p.vars = [] ∧ ts.map (fun t => normKind t.kind) = [TK.kwVars, TK.lbrace, TK.rbrace] ++ p.toks.map (·.1))) := by
  have hnk : (fun t : Tok => normKind t.kind) = (fun t : Tok => gr_normKind t.kind) := rfl
  rw [hnk]
  exact gr_parseTokens h (fun t ht => ⟨hid t ht, hkw t ht⟩)

/-- soundness on texts -/
theorem parse_text_sound (text : List Char) (p : Program) (h : parseProgram text = some p) :
    ∃ ts, lex text = some ts ∧ p.Printable ∧
      (ts.map (fun t => normKind t.kind) = p.toks.map (·.1) ∨
       (p.vars = [] ∧ ts.map (fun t => normKind t.kind) = [TK.kwVars, TK.lbrace, TK.rbrace] ++ p.toks.map (·.1))) := by
  unfold parseProgram at h
  split at h
  · rename_i ts hl
    split at h
    · exact ⟨ts, hl, parse_sound ts p h
        (fun t ht hk e => lex_ident_not_keyword text ts hl t ht hk (e ▸ (by decide)))
        (fun t ht hk => lex_fixed_text text ts hl t ht _ (by rw [hk]; rfl))⟩
    · cases h
  · cases h

end NS
