/-
  Properties/C15ranges.lean — ranges of the parsed tree (Model/Parse.lean) over a token
  stream in text order: every node's range runs from its first token to its last, children
  lie within their parents, siblings are in text order without overlap; distinct function
  calls sit at distinct places (the parser invariant assumed by C16/C17).
-/
import Spec.ParseSpec
import Spec.Names
import Proofs.SoundnessLemmas
import Proofs.ParseRangeLemmas
import Properties.C19

namespace NS

/-- children within parents, siblings ordered, declarations and statements in text order -/
theorem parseTokens_ranges_ok (ts : List Tok) (p : Program) (hs : TokensSorted ts)
    (h : parseTokens ts = some p) : p.RangesOk :=
  (pr_parseTokens_inv ts p hs h).1

/-- distinct calls have distinct caller ranges -/
theorem parseTokens_call_ranges_nodup (ts : List Tok) (p : Program) (hs : TokensSorted ts)
    (h : parseTokens ts = some p) : (callRanges p).Nodup ∧ p.fnRanges.Nodup := by
  obtain ⟨lo, hi, hc⟩ := (pr_parseTokens_inv ts p hs h).2
  rw [pr_callRanges_eq]
  exact ⟨hc.nodup, hc.nodup⟩

/-- well-formed ranges give the nesting that hover completeness (C19) assumes -/
theorem rangesOk_nested (e : Expr) (h : e.RangesOk) : e.Nested := by
  induction e with
  | monetary r a n iha ihn =>
      simp only [Expr.RangesOk, Family] at h
      obtain ⟨⟨h1, _, h3⟩, ha, hn⟩ := h
      simp only [Expr.Nested]
      exact ⟨fun p hp _ => pr_contains_within h1 hp, fun p hp _ => pr_contains_within h3 hp, iha ha, ihn hn⟩
  | «infix» r o a n iha ihn =>
      simp only [Expr.RangesOk, Family] at h
      obtain ⟨⟨h1, _, h3⟩, ha, hn⟩ := h
      simp only [Expr.Nested]
      exact ⟨fun p hp _ => pr_contains_within h1 hp, fun p hp _ => pr_contains_within h3 hp, iha ha, ihn hn⟩
  | _ => simp only [Expr.Nested]

/-- every expression of a parsed program is well nested -/
theorem parseTokens_exprs_nested (ts : List Tok) (p : Program) (hs : TokensSorted ts)
    (h : parseTokens ts = some p) : ∀ e ∈ p.exprs, e.Nested :=
  fun e he => rangesOk_nested e (pr_program_exprs p (parseTokens_ranges_ok ts p hs h) e he)

end NS
