/-
  Properties/C1415.lean — the parts of C14 / C15 / C20 that are logic:
  error display never panics on the ranges the error listener produces;
  the range arithmetic of SyntaxError; position order and containment;
  exit status of `check`.  (The ANTLR recogniser itself is observed, not
  modelled: see DESIGN §4 C14, C15.)
-/
import Model.Show
import Proofs.ShowLemmas

namespace NS

/-- a range is displayable on a source: it lies on existing lines, does not end before it
    starts, and on a multi-line range the start column is within its line (in bytes) -/
def Range.Displayable (r : Range) (source : List Char) : Prop :=
  let lines := splitLines source
  r.s.line ≤ r.e.line ∧ r.e.line < lines.length ∧
  (r.s.line = r.e.line → r.s.char ≤ r.e.char) ∧
  (r.s.line < r.e.line → r.s.char ≤ byteLen (lines.getD r.s.line []))

/-- rendering a displayable range never panics (slice bounds, neighbours, Repeat counts) -/
theorem show_never_panics (r : Range) (source : List Char) (h : r.Displayable source) (s : String) :
    showOnSource r source ≠ .panic s := by
  obtain ⟨hse, hlen, h1, h2⟩ := h
  unfold showOnSource
  simp only []
  rw [if_neg (by omega)]
  have hn : ((splitLines source).drop r.s.line |>.take (r.e.line + 1 - r.s.line)).length
      = r.e.line + 1 - r.s.line := by
    rw [List.length_take, List.length_drop]; omega
  rw [hn]
  apply sh_showLoop_no_panic r (splitLines source) hse hlen h1 h2 _ 0 ""
    ((splitLines source).take r.s.line)
    (((splitLines source).drop r.s.line).drop (r.e.line + 1 - r.s.line))
  · rw [List.append_assoc, List.take_append_drop, List.take_append_drop]
  · rw [List.length_take]; omega
  · rw [hn]; omega

/-- the range `SyntaxError` builds for a token of at least one character on an existing line is
    displayable: it starts where the token starts and does not end before it starts -/
theorem syntax_error_range_wf (source : List Char) (startL startC len : Nat)
    (hl : 1 ≤ startL) (hline : startL ≤ (splitLines source).length) (hlen : 1 ≤ len) :
    (syntaxErrorRange startL startC len).Displayable source ∧
    (syntaxErrorRange startL startC len).s = ⟨startL - 1, startC⟩ ∧
    (syntaxErrorRange startL startC len).s.char ≤ (syntaxErrorRange startL startC len).e.char := by
  refine ⟨⟨?_, ?_, ?_, ?_⟩, rfl, ?_⟩ <;> simp only [syntaxErrorRange] <;> omega

/-- hence displaying a reported syntax error never panics -/
theorem show_syntax_error_never_panics (source : List Char) (startL startC len : Nat)
    (hl : 1 ≤ startL) (hline : startL ≤ (splitLines source).length) (hlen : 1 ≤ len) (s : String) :
    showOnSource (syntaxErrorRange startL startC len) source ≠ .panic s := by
  exact show_never_panics _ _ (syntax_error_range_wf source startL startC len hl hline hlen).1 s

/-- a text always splits into at least one line -/
theorem splitLines_ne_nil (cs : List Char) : splitLines cs ≠ [] := by
  exact sh_splitLines_go_ne_nil cs []

/-! ### positions (internal/parser/range.go): `GtEq` is a total preorder, `Contains` is closed-interval membership -/

theorem gtEq_refl (p : Pos) : p.gtEq p = true := by
  simp [Pos.gtEq]

theorem gtEq_total (p q : Pos) : p.gtEq q = true ∨ q.gtEq p = true := by
  unfold Pos.gtEq
  by_cases h : p.line = q.line
  · rw [if_pos h, if_pos h.symm]; simp only [decide_eq_true_eq]; omega
  · rw [if_neg h, if_neg (Ne.symm h)]; simp only [decide_eq_true_eq]; omega

theorem gtEq_trans (p q r : Pos) (h1 : p.gtEq q = true) (h2 : q.gtEq r = true) : p.gtEq r = true := by
  rw [sh_gtEq_iff] at *
  omega

theorem gtEq_antisymm (p q : Pos) (h1 : p.gtEq q = true) (h2 : q.gtEq p = true) : p = q := by
  rw [sh_gtEq_iff] at *
  cases p; cases q; simp_all; omega

/-- `gtEq` is the lexicographic order on (line, character) -/
theorem gtEq_iff (p q : Pos) : p.gtEq q = true ↔ (q.line < p.line ∨ (q.line = p.line ∧ q.char ≤ p.char)) := by
  exact sh_gtEq_iff p q

/-- a range nested in another contains only positions the outer one contains
    (children lie within their parents ⇒ descending by containment is sound) -/
theorem contains_mono (inner outer : Range) (p : Pos)
    (hs : inner.s.gtEq outer.s = true) (he : outer.e.gtEq inner.e = true)
    (h : inner.contains p = true) : outer.contains p = true := by
  simp only [Range.contains, Bool.and_eq_true, sh_gtEq_iff] at *
  omega

/-- two ranges in order (the first ends strictly before the second starts) share no position -/
theorem contains_disjoint (a b : Range) (p : Pos) (hord : b.s.gtEq a.e = true) (hne : a.e ≠ b.s)
    (ha : a.contains p = true) : b.contains p = false := by
  have hne' : ¬ (a.e.line = b.s.line ∧ a.e.char = b.s.char) := by
    intro hh; apply hne
    cases hae : a.e; cases hbs : b.s; simp_all
  cases hb : b.contains p with
  | false => rfl
  | true =>
    simp only [Range.contains, Bool.and_eq_true, sh_gtEq_iff] at *
    omega

/-! ### C20: exit status of `numscript check` -/

/-- `check` exits non-zero exactly when some diagnostic has error severity -/
theorem check_exit_iff_error (ds : List Diag) : errorCount ds ≠ 0 ↔ ∃ d ∈ ds, d.kind.severity = 1 := by
  unfold errorCount
  rw [ne_eq, List.length_eq_zero_iff, List.filter_eq_nil_iff]
  constructor
  · intro h
    apply Classical.byContradiction
    intro hn
    apply h
    intro d hd hsev
    exact hn ⟨d, hd, by simpa using hsev⟩
  · rintro ⟨d, hd, hsev⟩ h
    exact h d hd (by simpa using hsev)

end NS
