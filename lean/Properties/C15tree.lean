/-
  Properties/C15tree.lean — the parser model (Model/Parse.lean), facts that do not involve
  positions: an accepted text gives a tree without nil children (the `Complete` class that
  C12/C16/C17 quantify over), whose allotment clauses have the parser's shapes, `+`/`-`
  associate to the left, and structure and literal values depend on the kinds and texts of the
  tokens only — not on where they stand (layout independence from the token stream upward).
-/
import Spec.ParseSpec
import Spec.Complete
import Proofs.SoundnessLemmas
import Proofs.ParseLemmas

namespace NS

/-- an accepted text yields a tree with no nil child anywhere -/
theorem parse_complete (text : List Char) (p : Program) (h : parseProgram text = some p) : p.Complete := by
  obtain ⟨ts, hts⟩ := pt_parseProgram_tokens h
  exact (pt_parseTokens_ok hts).1

/-- allotment clauses are `remaining`, a portion literal or a variable -/
theorem parse_shape_ok (text : List Char) (p : Program) (h : parseProgram text = some p) :
    ∀ s ∈ p.stmts, s.ShapeOk := by
  obtain ⟨ts, hts⟩ := pt_parseProgram_tokens h
  exact (pt_parseTokens_ok hts).2.1

/-- `a - b + c` is `(a - b) + c`, at every depth -/
theorem parse_left_assoc (text : List Char) (p : Program) (h : parseProgram text = some p) :
    ∀ e ∈ p.exprs, e.LeftAssoc := by
  obtain ⟨ts, hts⟩ := pt_parseProgram_tokens h
  exact (pt_parseTokens_ok hts).2.2

/-- two token streams with the same kinds and texts (whatever their positions) are both rejected
    or give the same tree up to ranges -/
theorem parse_layout_independent (ts ts' : List Tok) (h : ts.map Tok.shape = ts'.map Tok.shape) :
    (parseTokens ts).map Program.skel = (parseTokens ts').map Program.skel :=
  pt_parseTokens_sim h

end NS
