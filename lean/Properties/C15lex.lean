/-
  Properties/C15lex.lean — the lexer model (Model/Lex.lean): tokens come in text order
  without overlap, each token's text is exactly what the source holds at the token's
  position, and no token contains a line break (so `tokenToRange`/`ctxToRange`, which add
  the length of the last token to its column, delimit exactly the text of the construct).
-/
import Spec.ParseSpec
import Proofs.LexLemmas

namespace NS

/-- tokens are non-empty, in text order, and do not overlap -/
theorem lex_sorted (cs : List Char) (ts : List Tok) (h : lex cs = some ts) : TokensSorted ts := by
  exact (lx_loop_inv cs _ cs 0 0 ts h (by simp [dropToPos])).2.2

/-- the text of every token is the text of the source at the token's position, on one line -/
theorem lex_located (cs : List Char) (ts : List Tok) (h : lex cs = some ts) : ∀ t ∈ ts, t.Located cs := by
  exact (lx_loop_inv cs _ cs 0 0 ts h (by simp [dropToPos])).1

/-- lexing never runs out of fuel: it answers `none` only on a character that starts no token -/
theorem lexLoop_fuel_irrelevant (cs : List Char) (line col f : Nat) (hf : cs.length < f) :
    lexLoop f cs line col = lexLoop (cs.length + 1) cs line col := by
  exact lx_fuel f (cs.length + 1) cs line col hf (Nat.lt_succ_self _)

/-- the text is covered: skipped stretches (blanks, comments) and tokens partition it — in
    particular the total length of the tokens never exceeds the text -/
theorem lex_lengths (cs : List Char) (ts : List Tok) (h : lex cs = some ts) :
    (ts.map (fun t => t.text.length)).sum ≤ cs.length := by
  exact lx_lengths _ cs 0 0 ts h

end NS
