/-
  Properties/C15render.lean — the lexer reads back what was written: a sequence of well-spelt
  tokens separated by single blanks lexes to exactly these tokens (kinds and texts); hence, with
  `parse_unparse`, writing a tree and parsing the text gives the tree back — from characters to tree.
-/
import Spec.Render
import Proofs.RenderLemmas
import Properties.C15roundtrip

namespace NS

/-- one token followed by the end of the text, or by a blank that is not followed by a slash (digits, a
    blank and `/digits` would be read as one ratio), is matched whole, as the intended kind -/
theorem best_of_lexable (s : Shape) (hs : s.Lexable) (rest : List Char)
    (hrest : rest = [] ∨ ∃ r, rest = ' ' :: r ∧ r.head? ≠ some '/') :
    bestOf (candidates (s.2 ++ rest)) = some (some s.1, s.2.length) :=
  rd_best_of_lexable' s hs rest hrest

/-- a rendered token sequence lexes to the same kinds and texts -/
theorem lex_render (shapes : List Shape) (h : ∀ s ∈ shapes, s.Lexable) :
    (lex (renderShapes shapes)).map (fun ts => ts.map Tok.shape) = some shapes := by
  obtain ⟨ts, hts, hshape⟩ := rd_lex_render shapes h
  rw [hts, Option.map_some, hshape]

/-- from characters to tree: the canonical text of a writable tree with well-spelt names parses to that tree -/
theorem parse_render (p : Program) (hp : p.Printable) (hl : ∀ s ∈ p.toks, s.Lexable) :
    (parseProgram (renderShapes p.toks)).map Program.skel = some p.skel := by
  obtain ⟨ts, hts, hshape⟩ := rd_lex_render p.toks hl
  unfold parseProgram
  rw [hts]
  simp only [unparse_numbers_in_range p hp ts hshape, if_true]
  exact parse_unparse p hp ts hshape

end NS
