/-
  Properties/C06.lean — allotments split exactly: floor shares, leftover units
  leftmost, nothing lost.  Only property theorems and their non-vacuity
  examples live here; helper lemmas are in Proofs/.
-/
import Spec.AllotSpec
import Proofs.AllotLemmas

namespace NS

/-- the shares add up to exactly the amount -/
theorem allot_sum (n : Int) (ps : List Rat) (hn : 0 ≤ n) (hp : ∀ p ∈ ps, 0 ≤ p) (hs : ps.sum = 1) :
    (allotParts n ps).sum = n := by
  have hl := leftover_bounds n ps hs
  unfold leftover at hl
  unfold allotParts
  simp only
  rw [bump_sum _ _ hl.1 (by simpa using hl.2.le)]
  omega

/-- the leftover after the floors is non-negative and smaller than the number of clauses
    (so the leftover loop always finishes inside the list) -/
theorem allot_leftover_lt (n : Int) (ps : List Rat) (hn : 0 ≤ n) (hp : ∀ p ∈ ps, 0 ≤ p)
    (hs : ps.sum = 1) : 0 ≤ leftover n ps ∧ leftover n ps < ps.length := by
  exact leftover_bounds n ps hs

/-- one share per clause -/
theorem allot_length (n : Int) (ps : List Rat) : (allotParts n ps).length = ps.length := by
  unfold allotParts
  simp [bump_length]

/-- each share is the floor of the exact portion of the amount, plus one unit for exactly the
    earliest `leftover` clauses -/
theorem allot_share_formula (n : Int) (ps : List Rat) (hn : 0 ≤ n) (hp : ∀ p ∈ ps, 0 ≤ p)
    (hs : ps.sum = 1) (i : Nat) (hi : i < ps.length) :
    (allotParts n ps)[i]? = some (shareSpec n ps i) := by
  unfold allotParts shareSpec leftover
  simp only
  rw [bump_getElem? _ _ i (by simpa using hi)]
  simp [List.getD, List.getElem?_map, List.getElem?_eq_getElem hi]

/-- every share is non-negative and at most one unit above the exact portion rounded down -/
theorem allot_share_bounds (n : Int) (ps : List Rat) (hn : 0 ≤ n) (hp : ∀ p ∈ ps, 0 ≤ p)
    (hs : ps.sum = 1) (i : Nat) (hi : i < ps.length) :
    ∃ x, (allotParts n ps)[i]? = some x ∧ 0 ≤ x ∧
      floorShare n (ps.getD i 0) ≤ x ∧ x ≤ floorShare n (ps.getD i 0) + 1 := by
  refine ⟨shareSpec n ps i, allot_share_formula n ps hn hp hs i hi, ?_, ?_, ?_⟩
  · have h0 : 0 ≤ floorShare n (ps.getD i 0) := by
      apply floorShare_nonneg n _ hn
      have : ps.getD i 0 = ps[i] := by simp [List.getD, List.getElem?_eq_getElem hi]
      rw [this]
      exact hp _ (List.getElem_mem hi)
    unfold shareSpec
    split <;> omega
  · unfold shareSpec
    split <;> omega
  · unfold shareSpec
    split <;> omega

/-- `makeAllotment` without a `remaining` clause: succeeds iff the portions sum to one, and then
    it is `allotParts` of the evaluated portions; otherwise `InvalidAllotmentSum` -/
theorem makeAllotment_no_remaining (vars : Vars) (n : Int) (items : List AllotVal) (qs : List (Option Rat))
    (hev : evalAllotItems vars items = .ok qs) (hnone : qs.any Option.isNone = false) :
    makeAllotment vars n items =
      (if sumSome qs = 1 then .ok (allotParts n (fillRemaining 0 qs))
       else .err (.invalidAllotmentSum (sumSome qs))) := by
  unfold makeAllotment
  rw [hev]
  simp only [Outcome.ok_bind, hnone, Outcome.pure_eq]
  by_cases h : sumSome qs = 1 <;> simp [h]

/-- `makeAllotment` with a `remaining` clause: rejected iff the other portions exceed one;
    otherwise the (last) `remaining` clause stands for one minus the other portions -/
theorem makeAllotment_with_remaining (vars : Vars) (n : Int) (items : List AllotVal) (qs : List (Option Rat))
    (hev : evalAllotItems vars items = .ok qs) (hsome : qs.any Option.isNone = true) :
    makeAllotment vars n items =
      (if sumSome qs > 1 then .err (.invalidAllotmentSum (sumSome qs))
       else .ok (allotParts n (fillRemaining (1 - sumSome qs) qs))) := by
  unfold makeAllotment
  rw [hev]
  simp only [Outcome.ok_bind, hsome, Outcome.pure_eq]
  simp

/-- with a `remaining` clause the filled-in portions are non-negative and sum to one, so the
    theorems above apply to what `makeAllotment` computes -/
theorem fillRemaining_sum (qs : List (Option Rat)) (hsome : qs.any Option.isNone = true) :
    (fillRemaining (1 - sumSome qs) qs).sum = 1 := by
  rw [fillRemaining_some_sum _ _ hsome]
  ring

theorem fillRemaining_nonneg (qs : List (Option Rat)) (hq : ∀ q, some q ∈ qs → 0 ≤ q)
    (hle : sumSome qs ≤ 1) : ∀ p ∈ fillRemaining (1 - sumSome qs) qs, 0 ≤ p := by
  exact fillRemaining_mem_nonneg _ (by linarith) qs hq

/-- without `remaining` the filled-in portions are the portions themselves -/
theorem fillRemaining_no_remaining_sum (qs : List (Option Rat)) (hnone : qs.any Option.isNone = false) :
    (fillRemaining 0 qs).sum = sumSome qs := by
  exact fillRemaining_none_sum 0 qs hnone

/-! non-vacuity: concrete splits (tests, labelled as such) -/
example : allotParts 10 [mkRat 1 3, mkRat 1 3, mkRat 1 3] = [4, 3, 3] := by decide +kernel
example : allotParts 99 [mkRat 15 100, mkRat 30 100, mkRat 55 100] = [15, 30, 54] := by decide +kernel
example : ([mkRat 1 3, mkRat 1 3, mkRat 1 3] : List Rat).sum = 1 := by decide +kernel

end NS
