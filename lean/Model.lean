import Model.Basic
import Model.Eval
import Model.Allot
import Model.Source
import Model.Dest
import Model.Reconcile
import Model.Text
import Model.Run
