/-
  Spec/Valid.lean — the language's static rules, declaratively (C16: "a script
  that is valid by the language's static rules receives no error-severity
  diagnostic").  Nothing here mentions the checker.
-/
import Model.Check
import Spec.Complete

namespace NS

/-- declared variables: name ↦ type, in declaration order -/
abbrev TyEnv := List (String × String)

def TyEnv.lookup (Γ : TyEnv) (name : String) : Option String :=
  (Γ.find? (fun p => p.1 == name)).map (·.2)

/-- `Γ ⊢ e : τ` -/
inductive HasType (Γ : TyEnv) : Expr → String → Prop where
  | var (r : Range) (name τ : String) : Γ.lookup name = some τ → HasType Γ (.var r name) τ
  | asset (r : Range) (s : String) : HasType Γ (.asset r s) "asset"
  | account (r : Range) (s : String) : HasType Γ (.account r s) "account"
  | str (r : Range) (s : String) : HasType Γ (.str r s) "string"
  | number (r : Range) (n : Int) : HasType Γ (.number r n) "number"
  | ratio (r : Range) (num den : Nat) : den ≠ 0 → HasType Γ (.ratio r num den) "portion"
  | monetary (r : Range) (a n : Expr) : HasType Γ a "asset" → HasType Γ n "number" → HasType Γ (.monetary r a n) "monetary"
  | infixNumber (r : Range) (op : InfixOp) (l rgt : Expr) :
      HasType Γ l "number" → HasType Γ rgt "number" → HasType Γ (.infix r op l rgt) "number"
  | infixMonetary (r : Range) (op : InfixOp) (l rgt : Expr) :
      HasType Γ l "monetary" → HasType Γ rgt "monetary" → HasType Γ (.infix r op l rgt) "monetary"

/-- `e` can stand where a value of type `τ` is required (`any` accepts every well-typed expression) -/
def Fits (Γ : TyEnv) (e : Expr) (τ : String) : Prop :=
  if τ = "any" then ∃ τ', HasType Γ e τ' else HasType Γ e τ

def isWorldLiteral : Expr → Bool
  | .account _ s => s == WORLD
  | _ => false

/-- sum of the literal portions, number of portion variables, whether a `remaining` clause is present -/
structure AllotSummary where
  sum : Rat := 0
  vars : Nat := 0
  rem : Bool := false

def summarize : List AllotVal → AllotSummary
  | [] => {}
  | .remaining _ :: t => { summarize t with rem := true }
  | .portion (.ratio _ n d) :: t => let s := summarize t; { s with sum := s.sum + mkRat n d }
  | .portion (.var _ _) :: t => let s := summarize t; { s with vars := s.vars + 1 }
  | _ :: t => summarize t

/-- literal portions must not exceed one, and must reach one unless a `remaining` clause or a portion
    variable can absorb the rest -/
def AllotSumOk (vals : List AllotVal) : Prop :=
  let s := summarize vals
  s.sum ≤ 1 ∧ (s.sum < 1 → s.rem = true ∨ s.vars ≥ 1)

/-- each clause is well-formed: `remaining` only in last position, portion variables have type portion,
    literal portions have a non-zero denominator -/
def AllotValsOk (Γ : TyEnv) : List AllotVal → Prop
  | [] => True
  | [.remaining _] => True
  | .remaining _ :: _ :: _ => False
  | .portion (.var r n) :: t => HasType Γ (.var r n) "portion" ∧ AllotValsOk Γ t
  | .portion (.ratio _ _ d) :: t => d ≠ 0 ∧ AllotValsOk Γ t
  | _ :: _ => False

def SrcItem.val : SrcItem → AllotVal
  | .mk _ a _ => a
def DestItem.val : DestItem → AllotVal
  | .mk _ a _ => a

mutual
  /-- a valid source; `all` = under `send [A *]` outside any cap -/
  def ValidSource (Γ : TyEnv) : Bool → Source → Prop
    | _, .nil => False
    | all, .account e => Fits Γ e "account" ∧ (all = true → isWorldLiteral e = false)
    | all, .overdraft _ addr none => Fits Γ addr "account" ∧ all = false
    | all, .overdraft _ addr (some b) => Fits Γ addr "account" ∧ Fits Γ b "monetary" ∧ (all = true → isWorldLiteral addr = false)
    | all, .inorder _ srcs => ValidSources Γ all srcs
    | _, .capped _ cap src => Fits Γ cap "monetary" ∧ ValidSource Γ false src
    | _, .allotment _ items => AllotValsOk Γ (items.map SrcItem.val) ∧ AllotSumOk (items.map SrcItem.val) ∧ ValidSrcItems Γ items
  def ValidSources (Γ : TyEnv) : Bool → List Source → Prop
    | _, [] => True
    | all, s :: ss => ValidSource Γ all s ∧ ValidSources Γ all ss
  def ValidSrcItems (Γ : TyEnv) : List SrcItem → Prop
    | [] => True
    | (.mk _ _ src) :: rest => ValidSource Γ false src ∧ ValidSrcItems Γ rest
end

mutual
  def ValidDest (Γ : TyEnv) : Dest → Prop
    | .nil => False
    | .account e => Fits Γ e "account"
    | .inorder _ clauses remaining => ValidClauses Γ clauses ∧ ValidKoD Γ remaining
    | .allotment _ items => AllotValsOk Γ (items.map DestItem.val) ∧ AllotSumOk (items.map DestItem.val) ∧ ValidDstItems Γ items
  def ValidKoD (Γ : TyEnv) : KoD → Prop
    | .nil => False
    | .kept _ => True
    | .to d => ValidDest Γ d
  def ValidClauses (Γ : TyEnv) : List DestClause → Prop
    | [] => True
    | (.mk _ cap to) :: rest => Fits Γ cap "monetary" ∧ ValidKoD Γ to ∧ ValidClauses Γ rest
  def ValidDstItems (Γ : TyEnv) : List DestItem → Prop
    | [] => True
    | (.mk _ _ to) :: rest => ValidKoD Γ to ∧ ValidDstItems Γ rest
end

def FitsAll (Γ : TyEnv) : List Expr → List String → Prop
  | [], [] => True
  | e :: es, τ :: τs => Fits Γ e τ ∧ FitsAll Γ es τs
  | _, _ => False

def ValidStatement (Γ : TyEnv) : Statement → Prop
  | .send _ (.lit _ m) src dst => Fits Γ m "monetary" ∧ ValidSource Γ false src ∧ ValidDest Γ dst
  | .send _ (.all _ a) src dst => Fits Γ a "asset" ∧ ValidSource Γ true src ∧ ValidDest Γ dst
  | .save _ (.lit _ m) amount => Fits Γ m "monetary" ∧ Fits Γ amount "account"
  | .save _ (.all _ a) amount => Fits Γ a "asset" ∧ Fits Γ amount "account"
  | .fnCall fn => isStatementBuiltin fn.name = true ∧ FitsAll Γ fn.args (builtinParams fn.name)
  | _ => False

def ValidStatements (Γ : TyEnv) : List Statement → Prop
  | [] => True
  | s :: ss => ValidStatement Γ s ∧ ValidStatements Γ ss

/-- declarations: known type, fresh name, and a well-typed origin call (checked with the variables
    declared before) whose return type is the declared type (`any` fits every type) -/
def ValidDecls : TyEnv → List VarDecl → Prop
  | _, [] => True
  | Γ, d :: ds =>
      match d.name, d.type with
      | some (_, name), some (_, ty) =>
          isTypeAllowed ty = true ∧ Γ.lookup name = none ∧
          (match d.origin with
           | none => True
           | some fn => isOriginBuiltin fn.name = true ∧ FitsAll Γ fn.args (builtinParams fn.name) ∧
                        (builtinReturn fn.name = "any" ∨ builtinReturn fn.name = ty)) ∧
          ValidDecls (Γ ++ [(name, ty)]) ds
      | _, _ => False

def envOfDecls : List VarDecl → TyEnv
  | [] => []
  | d :: ds =>
      (match d.name, d.type with
       | some (_, name), some (_, ty) => [(name, ty)]
       | _, _ => []) ++ envOfDecls ds

/-- a statically valid script -/
def Program.Valid (p : Program) : Prop :=
  ValidDecls [] p.vars ∧ ValidStatements (envOfDecls p.vars) p.stmts

end NS
