/-
  Spec/StoreSpec.lean — what it means for a store to answer faithfully (C10),
  observable result of a run, use of the gated builtin (C11).
-/
import Model.Run
import Spec.Ledger

namespace NS

/-- the content of a ledger: balances (absent = 0) and account metadata -/
structure Content where
  bal : Bal
  meta_ : String → String → Option String

def ansFind (ans : BalanceAnswer) (a c : String) : Option Int :=
  (ans.find? (fun p => p.1 == (a, c))).map (·.2)

/-- an answer to a balance query is faithful to the content when every entry it contains is the
    content's value (it may contain more than what was asked: "superset", "static"), and every
    requested pair it omits has balance zero ("sparse") -/
def FaithfulAnswer (ct : Content) (q : BalanceQuery) (ans : BalanceAnswer) : Prop :=
  (∀ a c v, ansFind ans a c = some v → v = ct.bal a c) ∧
  (∀ a cs, (a, cs) ∈ q → ∀ c ∈ cs, ansFind ans a c = none → ct.bal a c = 0)

/-- a store is faithful to a content when all its answers are, whatever the call index -/
def Faithful (store : Store) (ct : Content) : Prop :=
  (∀ idx q, ∃ ans, store.getBalances idx q = .ok ans ∧ FaithfulAnswer ct q ans) ∧
  (∀ idx a k, ∃ ans, store.getMeta idx a k = .ok ans ∧ lookupMeta ans a k = ct.meta_ a k)

/-- what the caller observes of a run: postings and metadata, or the error; not the query log -/
def observe : Outcome ExecResult → Outcome (List Posting × TxMeta × AccMeta)
  | .ok r => .ok (r.postings, r.txMeta, r.accMeta)
  | .err e => .err e
  | .panic s => .panic s

/-- the script uses the feature-gated builtin -/
def usesOverdraftFn (prog : Program) : Bool :=
  prog.vars.any (fun d => match d.origin with | some fn => fn.name == "overdraft" | none => false)

/-- the accounts requested in a store call -/
def callAccounts : StoreCall → List String
  | .balances q => q.map (·.1)
  | .metadata _ _ => []

end NS
