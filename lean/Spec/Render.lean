/-
  Spec/Render.lean — writing a token sequence as text (one blank between tokens), and the
  spellings the lexer reads back as the token they were meant to be.
-/
import Spec.Unparse

namespace NS

/-- the tokens separated by single blanks -/
def renderShapes : List Shape → List Char
  | [] => []
  | [s] => s.2
  | s :: rest => s.2 ++ ' ' :: renderShapes rest

def keywordTexts : List (List Char) :=
  ["vars", "max", "source", "destination", "send", "from", "up", "to", "remaining", "allowing", "unbounded",
   "overdraft", "kept", "save"].map String.toList

/-- the fixed spelling of keyword and punctuation kinds -/
def fixedText : TK → Option (List Char)
  | .kwVars => some "vars".toList | .kwMax => some "max".toList | .kwSource => some "source".toList
  | .kwDestination => some "destination".toList | .kwSend => some "send".toList | .kwFrom => some "from".toList
  | .kwUp => some "up".toList | .kwTo => some "to".toList | .kwRemaining => some "remaining".toList
  | .kwAllowing => some "allowing".toList | .kwUnbounded => some "unbounded".toList
  | .kwOverdraft => some "overdraft".toList | .kwKept => some "kept".toList | .kwSave => some "save".toList
  | .lparen => some ['('] | .rparen => some [')'] | .lbracket => some ['['] | .rbracket => some [']']
  | .lbrace => some ['{'] | .rbrace => some ['}'] | .comma => some [','] | .eq => some ['=']
  | .star => some ['*'] | .minus => some ['-'] | .plus => some ['+']
  | _ => none

/-- non-empty runs of account characters separated by single colons -/
def acctOk : Bool → List Char → Bool
  | inSeg, [] => inSeg
  | inSeg, c :: t =>
      if isAcctChar c then acctOk true t
      else if c = ':' then inSeg && acctOk false t
      else false

/-- a (kind, text) pair whose text, written between blanks, is read back by the lexer as one token of
    that kind: keywords and punctuation in their fixed spelling; names in the alphabet of their rule;
    identifiers that are not keywords; assets starting with a capital letter (an asset made of digits
    and slashes only would be read as a number, a ratio or — see the known findings — a comment);
    strings without quote, backslash or line break -/
def Shape.Lexable (s : Shape) : Prop :=
  match s.1 with
  | .ident => (∃ c t, s.2 = c :: t ∧ isLowerChar c = true ∧ t.all isIdentTail = true) ∧ s.2 ∉ keywordTexts
  | .varName => ∃ c t, s.2 = '$' :: c :: t ∧ isVarHead c = true ∧ t.all isVarTail = true
  | .account => ∃ t, s.2 = '@' :: t ∧ acctOk false t = true
  | .asset => ∃ c t, s.2 = c :: t ∧ isUpperChar c = true ∧ t.all isAssetChar = true
  | .number => (∃ ds, s.2 = ds ∧ ds ≠ [] ∧ ds.all isDigit = true) ∨ (∃ ds, s.2 = '-' :: ds ∧ ds ≠ [] ∧ ds.all isDigit = true)
  | .ratio => ∃ a b, s.2 = a ++ '/' :: b ∧ a ≠ [] ∧ b ≠ [] ∧ a.all isDigit = true ∧ b.all isDigit = true
  | .percent => False
  | .string => ∃ body, s.2 = '"' :: body ++ ['"'] ∧
      body.all (fun c => c != '"' && c != '\\' && c != '\n' && c != '\r') = true
  | k => fixedText k = some s.2

end NS
