/-
  Spec/Pairing.lean — unit-by-unit, first-come-first-served pairing of the draw
  list with the distribution list (property C07), and observable quantities of
  a posting list.
-/
import Model.Reconcile

namespace NS

/-- every name repeated by its amount -/
def units (l : List (String × Int)) : List String :=
  l.flatMap (fun p => List.replicate p.2.toNat p.1)

/-- the k-th unit drawn is paired with the k-th unit to be received -/
def pairUnits (senders receivers : List (String × Int)) : List (String × String) :=
  (units senders).zip (units receivers)

/-- number of units flowing from `s` to `d` in the in-order pairing -/
def unitFlow (senders receivers : List (String × Int)) (s d : String) : Nat :=
  ((pairUnits senders receivers).filter (fun p => p.1 = s ∧ p.2 = d)).length

/-- net flow from `s` to `d` in a posting list -/
def flowOf (ps : List Posting) (s d : String) : Int :=
  ((ps.filter (fun p => p.source = s ∧ p.destination = d)).map (·.amount)).sum

/-- total debited from `a` -/
def debitsOf (ps : List Posting) (a : String) : Int :=
  ((ps.filter (fun p => p.source = a)).map (·.amount)).sum

/-- total credited to `a` -/
def creditsOf (ps : List Posting) (a : String) : Int :=
  ((ps.filter (fun p => p.destination = a)).map (·.amount)).sum

/-- no two consecutive postings share both source and destination -/
def NoAdjacentSamePair : List Posting → Prop
  | [] => True
  | [_] => True
  | p :: q :: t => ¬ (p.source = q.source ∧ p.destination = q.destination) ∧ NoAdjacentSamePair (q :: t)

end NS
