/-
  Spec/Benign.lean — the shapes of partial syntax trees on which the analyses
  are crash-free (C18).  A tree may have nil children almost everywhere (the
  fault-tolerant converter leaves them for what the user has not typed yet);
  the four shapes excluded here are the ones on which the Go code would
  dereference nil.  The harness monitors every tree the real parser produces
  for these shapes (vlib/check_c18.py).
-/
import Model.Nav

namespace NS

/-- no typed-nil `*MonetaryLiteral` inside an expression -/
def Expr.Benign : Expr → Prop
  | .monetaryNil => False
  | .monetary _ a n => a.Benign ∧ n.Benign
  | .infix _ _ l r => l.Benign ∧ r.Benign
  | _ => True

def ExprsBenign : List Expr → Prop
  | [] => True
  | e :: es => e.Benign ∧ ExprsBenign es

def AllotVal.Benign : AllotVal → Prop
  | .portion e => e.Benign
  | _ => True

mutual
  /-- account sources hold an expression; overdraft sources have an address -/
  def Source.Benign : Source → Prop
    | .nil => True
    | .account e => e ≠ .nil ∧ e.Benign
    | .overdraft _ addr none => addr ≠ .nil ∧ addr.Benign
    | .overdraft _ addr (some b) => addr ≠ .nil ∧ addr.Benign ∧ b.Benign
    | .inorder _ srcs => SourcesBenign srcs
    | .capped _ cap src => cap.Benign ∧ src.Benign
    | .allotment _ items => SrcItemsBenign items
  def SourcesBenign : List Source → Prop
    | [] => True
    | s :: ss => s.Benign ∧ SourcesBenign ss
  def SrcItemsBenign : List SrcItem → Prop
    | [] => True
    | (.mk _ a src) :: rest => a.Benign ∧ src.Benign ∧ SrcItemsBenign rest
end

mutual
  def Dest.Benign : Dest → Prop
    | .nil => True
    | .account e => e ≠ .nil ∧ e.Benign
    | .inorder _ clauses remaining => ClausesBenign clauses ∧ remaining.Benign
    | .allotment _ items => DstItemsBenign items
  def KoD.Benign : KoD → Prop
    | .nil => True
    | .kept _ => True
    | .to d => d.Benign
  def ClausesBenign : List DestClause → Prop
    | [] => True
    | (.mk _ cap to) :: rest => cap.Benign ∧ to.Benign ∧ ClausesBenign rest
  def DstItemsBenign : List DestItem → Prop
    | [] => True
    | (.mk _ a to) :: rest => a.Benign ∧ to.Benign ∧ DstItemsBenign rest
end

def SentValue.Benign : SentValue → Prop
  | .nil => True
  | .lit _ m => m.Benign
  | .all _ a => a.Benign

/-- no typed-nil `*FnCall` statement -/
def Statement.Benign : Statement → Prop
  | .nil => True
  | .fnCallNil => False
  | .send _ sv src dst => sv.Benign ∧ src.Benign ∧ dst.Benign
  | .save _ sv amount => sv.Benign ∧ amount.Benign
  | .fnCall fn => ExprsBenign fn.args

def StatementsBenign : List Statement → Prop
  | [] => True
  | s :: ss => s.Benign ∧ StatementsBenign ss

/-- a declaration that has a name also has a type (the converter reads both tokens or drops the declaration) -/
def VarDecl.Benign (d : VarDecl) : Prop :=
  (d.name.isSome → d.type.isSome) ∧ (∀ fn, d.origin = some fn → ExprsBenign fn.args)

def VarDeclsBenign : List VarDecl → Prop
  | [] => True
  | d :: ds => d.Benign ∧ VarDeclsBenign ds

def Program.Benign (p : Program) : Prop := VarDeclsBenign p.vars ∧ StatementsBenign p.stmts

end NS
