/-
  Spec/Draw.lean — the reference semantics of the source side of a send:
  resolved source trees and the left-to-right greedy draw (properties C01, C03, C04).

  A *resolved* tree is what a source expression denotes once its account,
  cap, overdraft and portion expressions are evaluated in the run's variable
  environment.  The draw is threaded through an "available" function so that an
  account named several times sees its earlier pulls.
-/
import Model.Source

namespace NS

/-- the tail of `makeAllotment`, after the clauses are evaluated
    (`none` stands for `remaining`) -/
def allotOf (monetary : Int) (qs : List (Option Rat)) : Outcome (List Int) :=
  let total := sumSome qs
  if qs.any Option.isNone then
    if total > 1 then .err (.invalidAllotmentSum total)
    else .ok (allotParts monetary (fillRemaining (1 - total) qs))
  else if total ≠ 1 then .err (.invalidAllotmentSum total)
  else .ok (allotParts monetary (fillRemaining 0 qs))

inductive RSource where
  | acct (a : String) (od : Int)          -- a bounded account: plain (od = 0) or `allowing overdraft up to [c od]`
  | unb (a : String)                      -- @world, or `allowing unbounded overdraft`
  | inorder (l : List RSource)
  | capped (cap : Int) (s : RSource)
  | allot (qs : List (Option Rat)) (subs : List RSource)     -- parallel lists

abbrev Avail := String → Int
abbrev Pulls := List (String × Int)

def sumPulls : Pulls → Int
  | [] => 0
  | (_, m) :: t => m + sumPulls t

/-- what remains available after some pulls -/
def availAfter (av : Avail) (l : Pulls) : Avail := fun a => av a - pulled l a

mutual
  /-- greedy draw of `need` from a resolved source; `MissingFunds` when an allotment
      cannot be honoured exactly, `InvalidAllotmentSum` when its portions are invalid -/
  def draw (asset : String) : RSource → Avail → Int → Outcome Pulls
    | .acct a od, av, need => .ok [(a, min (max 0 (av a + od)) need)]
    | .unb a, _, need => .ok [(a, need)]
    | .capped cap s, av, need => draw asset s av (max 0 (min need cap))
    | .inorder l, av, need => drawList asset l av need
    | .allot qs subs, av, need =>
        match allotOf need qs with
        | .panic s => .panic s
        | .err e => .err e
        | .ok parts => drawAllot asset subs parts av

  /-- in-order list: each source is asked for what the earlier ones could not give -/
  def drawList (asset : String) : List RSource → Avail → Int → Outcome Pulls
    | [], _, _ => .ok []
    | s :: ss, av, need =>
        match draw asset s av need with
        | .panic p => .panic p
        | .err e => .err e
        | .ok l1 =>
          match drawList asset ss (availAfter av l1) (need - sumPulls l1) with
          | .panic p => .panic p
          | .err e => .err e
          | .ok l2 => .ok (l1 ++ l2)

  /-- allotment: every sub-source must give exactly its share -/
  def drawAllot (asset : String) : List RSource → List Int → Avail → Outcome Pulls
    | [], _, _ => .ok []
    | _ :: _, [], _ => .panic "allot index out of range"
    | s :: ss, p :: ps, av =>
        match draw asset s av p with
        | .panic x => .panic x
        | .err e => .err e
        | .ok l1 =>
          if sumPulls l1 = p then
            match drawAllot asset ss ps (availAfter av l1) with
            | .panic x => .panic x
            | .err e => .err e
            | .ok l2 => .ok (l1 ++ l2)
          else .err (.missingFunds asset p (sumPulls l1))
end

mutual
  /-- "send all": every bounded account is drained down to minus its overdraft;
      unbounded and allotment sources are rejected unless a cap encloses them -/
  def drawAll (asset : String) : RSource → Avail → Outcome Pulls
    | .acct a od, av => .ok [(a, max 0 (av a + od))]
    | .unb a, _ => .err (.invalidUnboundedInSendAll a)
    | .capped cap s, av => draw asset s av (max 0 cap)
    | .inorder l, av => drawAllList asset l av
    | .allot _ _, _ => .err .invalidAllotmentInSendAll

  def drawAllList (asset : String) : List RSource → Avail → Outcome Pulls
    | [], _ => .ok []
    | s :: ss, av =>
        match drawAll asset s av with
        | .panic p => .panic p
        | .err e => .err e
        | .ok l1 =>
          match drawAllList asset ss (availAfter av l1) with
          | .panic p => .panic p
          | .err e => .err e
          | .ok l2 => .ok (l1 ++ l2)
end

/-! ### resolution of a source expression -/

mutual
  def resolveS (vars : Vars) (asset : String) : Source → Outcome RSource
    | .nil => .panic "nil source"
    | .account e =>
        match evalAs vars e expectAccount with
        | .panic s => .panic s
        | .err e => .err e
        | .ok a => .ok (if a = WORLD then .unb a else .acct a 0)
    | .overdraft _ addr none =>
        match evalAs vars addr expectAccount with
        | .panic s => .panic s
        | .err e => .err e
        | .ok a => .ok (.unb a)
    | .overdraft _ addr (some b) =>
        match evalAs vars b (expectMonetaryOfAsset asset) with
        | .panic s => .panic s
        | .err e => .err e
        | .ok od =>
          match evalAs vars addr expectAccount with
          | .panic s => .panic s
          | .err e => .err e
          | .ok a => .ok (if a = WORLD then .unb a else .acct a od)
    | .inorder _ srcs =>
        match resolveSList vars asset srcs with
        | .panic s => .panic s
        | .err e => .err e
        | .ok l => .ok (.inorder l)
    | .capped _ cap src =>
        match evalAs vars cap (expectMonetaryOfAsset asset) with
        | .panic s => .panic s
        | .err e => .err e
        | .ok c =>
          match resolveS vars asset src with
          | .panic s => .panic s
          | .err e => .err e
          | .ok r => .ok (.capped c r)
    | .allotment _ items =>
        match evalAllotItems vars (items.map SrcItem.allot) with
        | .panic s => .panic s
        | .err e => .err e
        | .ok qs =>
          match resolveSItems vars asset items with
          | .panic s => .panic s
          | .err e => .err e
          | .ok subs => .ok (.allot qs subs)

  def resolveSList (vars : Vars) (asset : String) : List Source → Outcome (List RSource)
    | [] => .ok []
    | s :: ss =>
        match resolveS vars asset s with
        | .panic x => .panic x
        | .err e => .err e
        | .ok r =>
          match resolveSList vars asset ss with
          | .panic x => .panic x
          | .err e => .err e
          | .ok rs => .ok (r :: rs)

  def resolveSItems (vars : Vars) (asset : String) : List SrcItem → Outcome (List RSource)
    | [] => .ok []
    | (.mk _ _ src) :: rest =>
        match resolveS vars asset src with
        | .panic x => .panic x
        | .err e => .err e
        | .ok r =>
          match resolveSItems vars asset rest with
          | .panic x => .panic x
          | .err e => .err e
          | .ok rs => .ok (r :: rs)
end

/-! ### static facts of a resolved tree used by the overdraft bound (C01) -/

mutual
  /-- the overdraft bounds granted to account `a` anywhere in the tree -/
  def grantsOf (a : String) : RSource → List Int
    | .acct b od => if b = a then [od] else []
    | .unb _ => []
    | .capped _ s => grantsOf a s
    | .inorder l => grantsOfList a l
    | .allot _ subs => grantsOfList a subs
  def grantsOfList (a : String) : List RSource → List Int
    | [] => []
    | s :: ss => grantsOf a s ++ grantsOfList a ss
end

mutual
  /-- `a` occurs as an unbounded source (`@world` or unbounded overdraft) -/
  def unbIn (a : String) : RSource → Bool
    | .acct _ _ => false
    | .unb b => b = a
    | .capped _ s => unbIn a s
    | .inorder l => unbInList a l
    | .allot _ subs => unbInList a subs
  def unbInList (a : String) : List RSource → Bool
    | [] => false
    | s :: ss => unbIn a s || unbInList a ss
end

/-- the largest granted bound, never below zero -/
def maxGrant : List Int → Int
  | [] => 0
  | g :: t => max g (maxGrant t)

/-- pushed senders: the pulls with the zero amounts dropped -/
def nonzero (l : Pulls) : Pulls := l.filter (fun p => p.2 ≠ 0)

end NS
