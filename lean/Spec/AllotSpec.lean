/-
  Spec/AllotSpec.lean — what an exact split is (property C06).
-/
import Model.Allot

namespace NS

/-- units left over after giving every clause the floor of its exact share -/
def leftover (n : Int) (ps : List Rat) : Int := n - (ps.map (floorShare n)).sum

/-- the share of clause `i`: floor of the exact portion, plus one unit for the
    earliest `leftover` clauses -/
def shareSpec (n : Int) (ps : List Rat) (i : Nat) : Int :=
  floorShare n (ps.getD i 0) + (if (i : Int) < leftover n ps then 1 else 0)

end NS
