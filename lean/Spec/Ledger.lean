/-
  Spec/Ledger.lean — balances as functions, replay of postings (C01, C08, C09).
-/
import Model.Run
import Spec.Pairing

namespace NS

/-- balances as a total function: an absent entry is 0 -/
abbrev Bal := String → String → Int

/-- apply one posting: debit the source, then credit the destination -/
def applyPosting (B : Bal) (p : Posting) : Bal := fun a c =>
  let b1 := if a = p.source ∧ c = p.asset then B a c - p.amount else B a c
  if a = p.destination ∧ c = p.asset then b1 + p.amount else b1

/-- balances after replaying a list of postings in order -/
def replay (B : Bal) : List Posting → Bal
  | [] => B
  | p :: ps => replay (applyPosting B p) ps

/-- balances after the first `k` postings -/
def replayN (B : Bal) (ps : List Posting) (k : Nat) : Bal := replay B (ps.take k)

/-- the balances a cache denotes -/
def balOfCache (c : Cache) : Bal := fun a asset => cacheGet c a asset

/-- last value associated with a key -/
def assocGet {κ ν : Type} [BEq κ] (m : List (κ × ν)) (k : κ) : Option ν :=
  (m.find? (fun p => p.1 == k)).map (·.2)

end NS
