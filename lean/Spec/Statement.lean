/-
  Spec/Statement.lean — reference semantics of one send statement on resolved
  trees: draw, distribute, pair.  (Properties C01–C05, C07 at statement level.)
-/
import Spec.Distribute
import Spec.Pairing
import Model.Run

namespace NS

/-- `send [asset n] (source = rs destination = rd)` against the available balances `av` -/
def specSend (asset : String) (n : Int) (rs : RSource) (rd : RDest) (av : Avail) : Outcome (List Posting) :=
  if n < 0 then .err (.negativeAmount n)
  else
    match draw asset rs av n with
    | .panic s => .panic s
    | .err e => .err e
    | .ok l =>
      if sumPulls l = n then
        match distribute rd n with
        | .panic s => .panic s
        | .err e => .err e
        | .ok d => .ok (Reconcile asset (nonzero l) (nonzero d))
      else .err (.missingFunds asset n (sumPulls l))

/-- `send [asset *] (source = rs destination = rd)` -/
def specSendAll (asset : String) (rs : RSource) (rd : RDest) (av : Avail) : Outcome (List Posting) :=
  match drawAll asset rs av with
  | .panic s => .panic s
  | .err e => .err e
  | .ok l =>
    match distribute rd (sumPulls l) with
    | .panic s => .panic s
    | .err e => .err e
    | .ok d => .ok (Reconcile asset (nonzero l) (nonzero d))

/-- the balances a statement sees: the cache, for the statement's asset -/
def availOfCache (c : Cache) (asset : String) : Avail := fun a => cacheGet c a asset

mutual
  /-- the accounts named in a resolved source -/
  def accountsOfS : RSource → List String
    | .acct a _ => [a]
    | .unb a => [a]
    | .capped _ s => accountsOfS s
    | .inorder l => accountsOfSList l
    | .allot _ subs => accountsOfSList subs
  def accountsOfSList : List RSource → List String
    | [] => []
    | s :: ss => accountsOfS s ++ accountsOfSList ss
end

mutual
  /-- the accounts named in a resolved destination -/
  def accountsOfD : RDest → List String
    | .acct a => [a]
    | .inorder _ tos rest => accountsOfKs tos ++ accountsOfK rest
    | .allot _ tos => accountsOfKs tos
  def accountsOfK : RKoD → List String
    | .kept => []
    | .to d => accountsOfD d
  def accountsOfKs : List RKoD → List String
    | [] => []
    | t :: ts => accountsOfK t ++ accountsOfKs ts
end

def sumAmounts (ps : List Posting) : Int := (ps.map (·.amount)).sum

end NS
