/-
  Spec/Distribute.lean — the reference semantics of the destination side of a
  send: resolved destination trees and the ordered / allotted distribution
  (property C05).
-/
import Spec.Draw
import Model.Dest

namespace NS

mutual
  inductive RDest where
    | acct (a : String)
    | inorder (caps : List Int) (tos : List RKoD) (rest : RKoD)     -- parallel lists: `max capᵢ toᵢ`, then `remaining rest`
    | allot (qs : List (Option Rat)) (tos : List RKoD)              -- parallel lists
  inductive RKoD where
    | kept
    | to (d : RDest)
end

mutual
  /-- the receivers (name, amount) of `n` units, in order; `kept` is the pseudo-receiver KEPT_ADDR -/
  def distribute : RDest → Int → Outcome Pulls
    | .acct a, n => .ok [(a, n)]
    | .allot qs tos, n =>
        match allotOf n qs with
        | .panic s => .panic s
        | .err e => .err e
        | .ok parts => distAllot tos parts
    | .inorder caps tos rest, n =>
        match distClauses caps tos n with
        | .panic s => .panic s
        | .err e => .err e
        | .ok (left, l) =>
          if left = 0 then .ok l
          else
            match distKoD rest left with
            | .panic s => .panic s
            | .err e => .err e
            | .ok l2 => .ok (l ++ l2)

  def distKoD : RKoD → Int → Outcome Pulls
    | .kept, n => .ok [(KEPT_ADDR, n)]
    | .to d, n => distribute d n

  /-- ordered clauses: clause i receives min(max capᵢ 0, what is left); returns what is left after all caps -/
  def distClauses : List Int → List RKoD → Int → Outcome (Int × Pulls)
    | [], _, left => .ok (left, [])
    | _ :: _, [], _ => .panic "clause lists of different lengths"
    | c :: cs, t :: ts, left =>
        if left = 0 then .ok (left, [])
        else if min (max 0 c) left = 0 then distClauses cs ts left
        else
          match distKoD t (min (max 0 c) left) with
          | .panic s => .panic s
          | .err e => .err e
          | .ok l1 =>
            match distClauses cs ts (left - min (max 0 c) left) with
            | .panic s => .panic s
            | .err e => .err e
            | .ok (left', l2) => .ok (left', l1 ++ l2)

  def distAllot : List RKoD → List Int → Outcome Pulls
    | [], _ => .ok []
    | _ :: _, [] => .panic "allot index out of range"
    | t :: ts, p :: ps =>
        match distKoD t p with
        | .panic s => .panic s
        | .err e => .err e
        | .ok l1 =>
          match distAllot ts ps with
          | .panic s => .panic s
          | .err e => .err e
          | .ok l2 => .ok (l1 ++ l2)
end

/-! ### resolution of a destination expression (every expression is evaluated) -/

mutual
  def resolveD (vars : Vars) (asset : String) : Dest → Outcome RDest
    | .nil => .panic "nil destination"
    | .account e =>
        match evalAs vars e expectAccount with
        | .panic s => .panic s
        | .err e => .err e
        | .ok a => .ok (.acct a)
    | .inorder _ clauses remaining =>
        match resolveClauses vars asset clauses with
        | .panic s => .panic s
        | .err e => .err e
        | .ok (caps, tos) =>
          match resolveKoD vars asset remaining with
          | .panic s => .panic s
          | .err e => .err e
          | .ok rest => .ok (.inorder caps tos rest)
    | .allotment _ items =>
        match evalAllotItems vars (items.map DestItem.allot) with
        | .panic s => .panic s
        | .err e => .err e
        | .ok qs =>
          match resolveDItems vars asset items with
          | .panic s => .panic s
          | .err e => .err e
          | .ok tos => .ok (.allot qs tos)

  def resolveKoD (vars : Vars) (asset : String) : KoD → Outcome RKoD
    | .nil => .panic "nil keptOrDestination"
    | .kept _ => .ok .kept
    | .to d =>
        match resolveD vars asset d with
        | .panic s => .panic s
        | .err e => .err e
        | .ok r => .ok (.to r)

  def resolveClauses (vars : Vars) (asset : String) : List DestClause → Outcome (List Int × List RKoD)
    | [] => .ok ([], [])
    | (.mk _ cap to) :: rest =>
        match evalAs vars cap (expectMonetaryOfAsset asset) with
        | .panic s => .panic s
        | .err e => .err e
        | .ok c =>
          match resolveKoD vars asset to with
          | .panic s => .panic s
          | .err e => .err e
          | .ok t =>
            match resolveClauses vars asset rest with
            | .panic s => .panic s
            | .err e => .err e
            | .ok (cs, ts) => .ok (c :: cs, t :: ts)

  def resolveDItems (vars : Vars) (asset : String) : List DestItem → Outcome (List RKoD)
    | [] => .ok []
    | (.mk _ _ to) :: rest =>
        match resolveKoD vars asset to with
        | .panic s => .panic s
        | .err e => .err e
        | .ok t =>
          match resolveDItems vars asset rest with
          | .panic s => .panic s
          | .err e => .err e
          | .ok ts => .ok (t :: ts)
end

/-- total routed to `kept` -/
def keptOf (l : Pulls) : Int := pulled l KEPT_ADDR

end NS
