/-
  Spec/ParseSpec.lean — what C15 says about the parsed tree, stated on the tree alone
  (no reference to the parser): ranges of children lie within their parents, siblings
  appear in text order without overlap, `+`/`-` associate to the left; and what the
  token stream of a text must satisfy for ranges to "delimit exactly the text".
-/
import Model.Parse
import Model.Nav

namespace NS

/-! ### order on ranges -/

/-- `c` lies within `p` -/
def Range.within (c p : Range) : Prop := c.s.gtEq p.s = true ∧ p.e.gtEq c.e = true

/-- `a` ends before (or where) `b` starts -/
def Range.before (a b : Range) : Prop := b.s.gtEq a.e = true

/-- a range is not reversed -/
def Range.wf (r : Range) : Prop := r.e.gtEq r.s = true

/-- every child within the parent, children in text order without overlap -/
def Family (parent : Range) : List Range → Prop
  | [] => True
  | [c] => c.within parent
  | c :: d :: rest => c.within parent ∧ c.before d ∧ Family parent (d :: rest)

/-- consecutive ranges in text order without overlap -/
def Ordered : List Range → Prop
  | [] => True
  | [_] => True
  | a :: b :: rest => a.before b ∧ Ordered (b :: rest)

/-! ### ranges of the nodes that carry none of their own -/

def AllotVal.range : AllotVal → Range
  | .nil => Range.zero
  | .remaining r => r
  | .portion e => e.range

def Source.range : Source → Range
  | .nil => Range.zero
  | .account e => e.range
  | .overdraft r _ _ | .inorder r _ | .capped r _ _ | .allotment r _ => r

def SrcItem.range : SrcItem → Range
  | .mk r _ _ => r

mutual
  def Dest.range : Dest → Range
    | .nil => Range.zero
    | .account e => e.range
    | .inorder r _ _ | .allotment r _ => r
  def KoD.range : KoD → Range
    | .nil => Range.zero
    | .kept r => r
    | .to d => d.range
end

def DestClause.range : DestClause → Range
  | .mk r _ _ => r

def DestItem.range : DestItem → Range
  | .mk r _ _ => r

def SentValue.range : SentValue → Range
  | .nil => Range.zero
  | .lit r _ | .all r _ => r

def Statement.range : Statement → Range
  | .nil | .fnCallNil => Range.zero
  | .send r _ _ _ | .save r _ _ => r
  | .fnCall c => c.r

/-! ### the tree predicate: every node's children form a `Family` of its range -/

def Expr.RangesOk : Expr → Prop
  | .monetary r a n => Family r [a.range, n.range] ∧ a.RangesOk ∧ n.RangesOk
  | .infix r _ l rgt => Family r [l.range, rgt.range] ∧ l.RangesOk ∧ rgt.RangesOk
  | e => e.range.wf

def ExprsRangesOk : List Expr → Prop
  | [] => True
  | e :: es => e.RangesOk ∧ ExprsRangesOk es

def AllotVal.RangesOk : AllotVal → Prop
  | .nil => True
  | .remaining r => r.wf
  | .portion e => e.RangesOk

mutual
  def Source.RangesOk : Source → Prop
    | .nil => True
    | .account e => e.RangesOk
    | .overdraft r addr none => Family r [addr.range] ∧ addr.RangesOk
    | .overdraft r addr (some b) => Family r [addr.range, b.range] ∧ addr.RangesOk ∧ b.RangesOk
    | .inorder r srcs => Family r (srcRanges srcs) ∧ SourcesRangesOk srcs
    | .capped r cap src => Family r [cap.range, src.range] ∧ cap.RangesOk ∧ src.RangesOk
    | .allotment r items => Family r (srcItemRanges items) ∧ SrcItemsRangesOk items
  def SourcesRangesOk : List Source → Prop
    | [] => True
    | s :: ss => s.RangesOk ∧ SourcesRangesOk ss
  def SrcItemsRangesOk : List SrcItem → Prop
    | [] => True
    | (.mk r a src) :: rest => Family r [a.range, src.range] ∧ a.RangesOk ∧ src.RangesOk ∧ SrcItemsRangesOk rest
  def srcRanges : List Source → List Range
    | [] => []
    | s :: ss => s.range :: srcRanges ss
  def srcItemRanges : List SrcItem → List Range
    | [] => []
    | (.mk r _ _) :: rest => r :: srcItemRanges rest
end

mutual
  def Dest.RangesOk : Dest → Prop
    | .nil => True
    | .account e => e.RangesOk
    | .inorder r clauses remaining =>
        Family r (clauseRanges clauses ++ [remaining.range]) ∧ ClausesRangesOk clauses ∧ remaining.RangesOk
    | .allotment r items => Family r (dstItemRanges items) ∧ DstItemsRangesOk items
  def KoD.RangesOk : KoD → Prop
    | .nil => True
    | .kept r => r.wf
    | .to d => d.RangesOk
  def ClausesRangesOk : List DestClause → Prop
    | [] => True
    | (.mk r cap to) :: rest => Family r [cap.range, to.range] ∧ cap.RangesOk ∧ to.RangesOk ∧ ClausesRangesOk rest
  def DstItemsRangesOk : List DestItem → Prop
    | [] => True
    | (.mk r a to) :: rest => Family r [a.range, to.range] ∧ a.RangesOk ∧ to.RangesOk ∧ DstItemsRangesOk rest
  def clauseRanges : List DestClause → List Range
    | [] => []
    | (.mk r _ _) :: rest => r :: clauseRanges rest
  def dstItemRanges : List DestItem → List Range
    | [] => []
    | (.mk r _ _) :: rest => r :: dstItemRanges rest
end

def SentValue.RangesOk : SentValue → Prop
  | .nil => True
  | .lit r m => Family r [m.range] ∧ m.RangesOk
  | .all r a => Family r [a.range] ∧ a.RangesOk

def FnCall.RangesOk (c : FnCall) : Prop :=
  Family c.r (c.callerRange :: c.args.map Expr.range) ∧ ExprsRangesOk c.args

def Statement.RangesOk : Statement → Prop
  | .nil | .fnCallNil => True
  | .send r sv src dst => Family r [sv.range, src.range, dst.range] ∧ sv.RangesOk ∧ src.RangesOk ∧ dst.RangesOk
  | .save r sv amount => Family r [sv.range, amount.range] ∧ sv.RangesOk ∧ amount.RangesOk
  | .fnCall c => c.RangesOk

/-- a declaration as the parser builds it: type, name, optional origin, in this order -/
def VarDecl.RangesOk (d : VarDecl) : Prop :=
  match d.type, d.name, d.origin with
  | some (tr, _), some (nr, _), none => Family d.r [tr, nr]
  | some (tr, _), some (nr, _), some c => Family d.r [tr, nr, c.r] ∧ c.RangesOk
  | _, _, _ => False

/-- declarations then statements, each well-formed, all in text order -/
def Program.RangesOk (p : Program) : Prop :=
  (∀ d ∈ p.vars, d.RangesOk) ∧ (∀ s ∈ p.stmts, s.RangesOk) ∧
  Ordered (p.vars.map (·.r) ++ p.stmts.map Statement.range)

/-! ### left associativity -/

def Expr.isInfix : Expr → Bool
  | .infix .. => true
  | _ => false

/-- the right operand of a `+`/`-` is never itself a `+`/`-`: `a - b + c` is `(a - b) + c` -/
def Expr.LeftAssoc : Expr → Prop
  | .monetary _ a n => a.LeftAssoc ∧ n.LeftAssoc
  | .infix _ _ l rgt => rgt.isInfix = false ∧ l.LeftAssoc ∧ rgt.LeftAssoc
  | _ => True

/-! ### the expressions of a program (maximal ones, in text order) -/

def AllotVal.exprs : AllotVal → List Expr
  | .portion e => [e]
  | _ => []

mutual
  def Source.exprs : Source → List Expr
    | .nil => []
    | .account e => [e]
    | .overdraft _ addr none => [addr]
    | .overdraft _ addr (some b) => [addr, b]
    | .inorder _ srcs => sourcesExprs srcs
    | .capped _ cap src => cap :: src.exprs
    | .allotment _ items => srcItemsExprs items
  def sourcesExprs : List Source → List Expr
    | [] => []
    | s :: ss => s.exprs ++ sourcesExprs ss
  def srcItemsExprs : List SrcItem → List Expr
    | [] => []
    | (.mk _ a src) :: rest => a.exprs ++ src.exprs ++ srcItemsExprs rest
end

mutual
  def Dest.exprs : Dest → List Expr
    | .nil => []
    | .account e => [e]
    | .inorder _ clauses remaining => clausesExprs clauses ++ remaining.exprs
    | .allotment _ items => dstItemsExprs items
  def KoD.exprs : KoD → List Expr
    | .nil => []
    | .kept _ => []
    | .to d => d.exprs
  def clausesExprs : List DestClause → List Expr
    | [] => []
    | (.mk _ cap to) :: rest => cap :: to.exprs ++ clausesExprs rest
  def dstItemsExprs : List DestItem → List Expr
    | [] => []
    | (.mk _ a to) :: rest => a.exprs ++ to.exprs ++ dstItemsExprs rest
end

def SentValue.exprs : SentValue → List Expr
  | .nil => []
  | .lit _ m => [m]
  | .all _ a => [a]

def Statement.exprs : Statement → List Expr
  | .nil | .fnCallNil => []
  | .send _ sv src dst => sv.exprs ++ src.exprs ++ dst.exprs
  | .save _ sv amount => sv.exprs ++ [amount]
  | .fnCall c => c.args

def VarDecl.exprs (d : VarDecl) : List Expr :=
  match d.origin with
  | some c => c.args
  | none => []

def Program.exprs (p : Program) : List Expr :=
  p.vars.flatMap VarDecl.exprs ++ p.stmts.flatMap Statement.exprs

/-! ### token streams -/

/-- tokens are non-empty, stay on their line, come in text order and do not overlap -/
def TokensSorted : List Tok → Prop
  | [] => True
  | [t] => t.text ≠ []
  | a :: b :: rest => a.text ≠ [] ∧ b.startPos.gtEq a.endPos = true ∧ TokensSorted (b :: rest)

/-- the characters of `src` from 0-based (line, column) on; lines end at '\n' -/
def dropToPos : List Char → Nat → Nat → List Char
  | cs, 0, 0 => cs
  | [], _, _ => []
  | c :: cs, 0, col + 1 => if c = '\n' then [] else dropToPos cs 0 col
  | c :: cs, line + 1, col => if c = '\n' then dropToPos cs line col else dropToPos cs (line + 1) col

/-- the text of the token is what the source holds at the token's position -/
def Tok.Located (src : List Char) (t : Tok) : Prop :=
  (dropToPos src t.line t.col).take t.text.length = t.text ∧ '\n' ∉ t.text

/-! ### the tree without its ranges -/

def Expr.skel : Expr → Expr
  | .nil => .nil
  | .monetaryNil => .monetaryNil
  | .var _ n => .var Range.zero n
  | .asset _ n => .asset Range.zero n
  | .account _ n => .account Range.zero n
  | .str _ n => .str Range.zero n
  | .number _ n => .number Range.zero n
  | .ratio _ n d => .ratio Range.zero n d
  | .monetary _ a b => .monetary Range.zero a.skel b.skel
  | .infix _ op l r => .infix Range.zero op l.skel r.skel

def AllotVal.skel : AllotVal → AllotVal
  | .nil => .nil
  | .remaining _ => .remaining Range.zero
  | .portion e => .portion e.skel

mutual
  def Source.skel : Source → Source
    | .nil => .nil
    | .account e => .account e.skel
    | .overdraft _ addr none => .overdraft Range.zero addr.skel none
    | .overdraft _ addr (some b) => .overdraft Range.zero addr.skel (some b.skel)
    | .inorder _ srcs => .inorder Range.zero (sourcesSkel srcs)
    | .capped _ cap src => .capped Range.zero cap.skel src.skel
    | .allotment _ items => .allotment Range.zero (srcItemsSkel items)
  def sourcesSkel : List Source → List Source
    | [] => []
    | s :: ss => s.skel :: sourcesSkel ss
  def srcItemsSkel : List SrcItem → List SrcItem
    | [] => []
    | (.mk _ a src) :: rest => .mk Range.zero a.skel src.skel :: srcItemsSkel rest
end

mutual
  def Dest.skel : Dest → Dest
    | .nil => .nil
    | .account e => .account e.skel
    | .inorder _ clauses remaining => .inorder Range.zero (clausesSkel clauses) remaining.skel
    | .allotment _ items => .allotment Range.zero (dstItemsSkel items)
  def KoD.skel : KoD → KoD
    | .nil => .nil
    | .kept _ => .kept Range.zero
    | .to d => .to d.skel
  def clausesSkel : List DestClause → List DestClause
    | [] => []
    | (.mk _ cap to) :: rest => .mk Range.zero cap.skel to.skel :: clausesSkel rest
  def dstItemsSkel : List DestItem → List DestItem
    | [] => []
    | (.mk _ a to) :: rest => .mk Range.zero a.skel to.skel :: dstItemsSkel rest
end

def SentValue.skel : SentValue → SentValue
  | .nil => .nil
  | .lit _ m => .lit Range.zero m.skel
  | .all _ a => .all Range.zero a.skel

def FnCall.skel (c : FnCall) : FnCall := ⟨Range.zero, Range.zero, c.name, c.args.map Expr.skel⟩

def Statement.skel : Statement → Statement
  | .nil => .nil
  | .fnCallNil => .fnCallNil
  | .send _ sv src dst => .send Range.zero sv.skel src.skel dst.skel
  | .save _ sv amount => .save Range.zero sv.skel amount.skel
  | .fnCall c => .fnCall c.skel

def VarDecl.skel (d : VarDecl) : VarDecl :=
  ⟨Range.zero, d.name.map (fun p => (Range.zero, p.2)), d.type.map (fun p => (Range.zero, p.2)), d.origin.map FnCall.skel⟩

/-- structure and literal values, positions forgotten -/
def Program.skel (p : Program) : Program := ⟨p.vars.map VarDecl.skel, p.stmts.map Statement.skel⟩

/-- kind and text of a token, position forgotten -/
def Tok.shape (t : Tok) : TK × List Char := (t.kind, t.text)

end NS
