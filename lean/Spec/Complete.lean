/-
  Spec/Complete.lean — the syntax trees the parser produces for texts without
  syntax errors: no nil child anywhere (C12, C16, C17).
-/
import Model.Basic

namespace NS

def Expr.Complete : Expr → Prop
  | .nil => False
  | .monetaryNil => False
  | .monetary _ a n => a.Complete ∧ n.Complete
  | .infix _ _ l r => l.Complete ∧ r.Complete
  | _ => True

def ExprsComplete : List Expr → Prop
  | [] => True
  | e :: es => e.Complete ∧ ExprsComplete es

def AllotVal.Complete : AllotVal → Prop
  | .nil => False
  | .remaining _ => True
  | .portion e => e.Complete

mutual
  def Source.Complete : Source → Prop
    | .nil => False
    | .account e => e.Complete
    | .overdraft _ addr none => addr.Complete
    | .overdraft _ addr (some b) => addr.Complete ∧ b.Complete
    | .inorder _ srcs => SourcesComplete srcs
    | .capped _ cap src => cap.Complete ∧ src.Complete
    | .allotment _ items => SrcItemsComplete items
  def SourcesComplete : List Source → Prop
    | [] => True
    | s :: ss => s.Complete ∧ SourcesComplete ss
  def SrcItemsComplete : List SrcItem → Prop
    | [] => True
    | (.mk _ a src) :: rest => a.Complete ∧ src.Complete ∧ SrcItemsComplete rest
end

mutual
  def Dest.Complete : Dest → Prop
    | .nil => False
    | .account e => e.Complete
    | .inorder _ clauses remaining => ClausesComplete clauses ∧ remaining.Complete
    | .allotment _ items => DstItemsComplete items
  def KoD.Complete : KoD → Prop
    | .nil => False
    | .kept _ => True
    | .to d => d.Complete
  def ClausesComplete : List DestClause → Prop
    | [] => True
    | (.mk _ cap to) :: rest => cap.Complete ∧ to.Complete ∧ ClausesComplete rest
  def DstItemsComplete : List DestItem → Prop
    | [] => True
    | (.mk _ a to) :: rest => a.Complete ∧ to.Complete ∧ DstItemsComplete rest
end

def SentValue.Complete : SentValue → Prop
  | .nil => False
  | .lit _ m => m.Complete
  | .all _ a => a.Complete

def FnCall.Complete (fn : FnCall) : Prop := ExprsComplete fn.args

def Statement.Complete : Statement → Prop
  | .nil => False
  | .fnCallNil => False
  | .send _ sv src dst => sv.Complete ∧ src.Complete ∧ dst.Complete
  | .save _ sv amount => sv.Complete ∧ amount.Complete
  | .fnCall fn => fn.Complete

def StatementsComplete : List Statement → Prop
  | [] => True
  | s :: ss => s.Complete ∧ StatementsComplete ss

def VarDecl.Complete (d : VarDecl) : Prop :=
  d.name.isSome ∧ d.type.isSome ∧ (∀ fn, d.origin = some fn → fn.Complete)

def VarDeclsComplete : List VarDecl → Prop
  | [] => True
  | d :: ds => d.Complete ∧ VarDeclsComplete ds

def Program.Complete (p : Program) : Prop := VarDeclsComplete p.vars ∧ StatementsComplete p.stmts

end NS
