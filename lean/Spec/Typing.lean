/-
  Spec/Typing.lean — notions for the soundness of the static checker (C17):
  the class of run-time failures a clean check excludes, agreement between the
  checker's declarations and the run-time variable environment.
-/
import Model.Check
import Model.Run
import Spec.Complete

namespace NS

/-- failures that are static in nature: wrong type, unknown name, wrong arity, unknown type -/
def Err.isStaticClass : Err → Bool
  | .typeError _ _ => true
  | .unboundVariable _ => true
  | .unboundFunction _ => true
  | .badArity _ _ => true
  | .invalidType _ => true
  | _ => false

/-- failures caused by the shape of a send-all source -/
def Err.isSendAllShape : Err → Bool
  | .invalidAllotmentInSendAll => true
  | .invalidUnboundedInSendAll _ => true
  | _ => false

/-- no result of this outcome is a static-class failure (and it is not a crash) -/
def Outcome.noStaticFailure {α : Type} : Outcome α → Prop
  | .ok _ => True
  | .err e => e.isStaticClass = false
  | .panic _ => False

/-- the run-time environment agrees with the checker's declarations: every declared variable
    whose declared type is a valid type holds a value of that type -/
def EnvAgrees (st : CState) (vars : Vars) : Prop :=
  ∀ name d r t, lookupDecl st name = some d → d.type = some (r, t) → isTypeAllowed t = true →
    ∃ v, lookupVar vars name = some v ∧ v.typeName = t

/-- the checker added no error-severity diagnostic between two states -/
def NoNewErrors (st st' : CState) : Prop := errorCount st'.diags = errorCount st.diags

/-- allotment clauses are `remaining`, a portion literal or a variable (what the parser builds) -/
def AllotVal.ShapeOk : AllotVal → Prop
  | .nil => False
  | .remaining _ => True
  | .portion (.var _ _) => True
  | .portion (.ratio _ _ _) => True
  | .portion _ => False

end NS
