/-
  Spec/Layout.lean — layout that may be written between tokens: runs of blanks, tabs, carriage returns and line
  feeds, block comments and line comments, in any number and order.  A separator between two tokens is a layout
  that BEGINS WITH A WHITESPACE CHARACTER (a comment glued to the preceding token is the known finding
  `comment-glued-to-asset-token`).
-/
import Spec.Render

namespace NS

/-- no occurrence of `a` immediately followed by `b` -/
def noPair (a b : Char) : List Char → Bool
  | x :: y :: t => !(x = a && y = b) && noPair a b (y :: t)
  | _ => true

/-- the text between `/*` and `*/`: contains neither `*/` nor `/*`, and does not end with `/` (which would
    form `/*` with the closing star) -/
def blockBodyOk (body : List Char) : Bool :=
  noPair '*' '/' body && noPair '/' '*' body && body.getLast? != some '/'

/-- the text between `//` and the end of the line -/
def lineBodyOk (body : List Char) : Bool := body.all (fun c => !isNlChar c)

inductive Layout : List Char → Prop
  | nil : Layout []
  | ws (c : Char) (t : List Char) : isWsChar c = true → Layout t → Layout (c :: t)
  | block (body t : List Char) : blockBodyOk body = true → Layout t →
      Layout ('/' :: '*' :: body ++ '*' :: '/' :: t)
  | line (body : List Char) (c : Char) (t : List Char) : lineBodyOk body = true → isNlChar c = true → Layout t →
      Layout ('/' :: '/' :: body ++ c :: t)

/-- a separator: layout that begins with a whitespace character -/
def SafeSep (sep : List Char) : Prop := Layout sep ∧ ∃ c t, sep = c :: t ∧ isWsChar c = true

/-- the tokens with the given separators between them (one blank where the list of separators runs out) -/
def interleave : List Shape → List (List Char) → List Char
  | [], _ => []
  | [s], _ => s.2
  | s :: rest, [] => s.2 ++ ' ' :: interleave rest []
  | s :: rest, sep :: seps => s.2 ++ sep ++ interleave rest seps

end NS
