/-
  Spec/Unparse.lean — the token sequence a tree is written as (kinds and texts, no
  positions), and which trees can be written at all.  Used to state that the parser
  recovers exactly the tree that was written (C15), at the level of tokens:
  `parseTokens` inverts `Program.toks` on every `Printable` tree.
-/
import Model.Parse
import Spec.ParseSpec

namespace NS

abbrev Shape := TK × List Char

def natText (n : Nat) : List Char := Nat.toDigits 10 n

def intText (n : Int) : List Char :=
  if n < 0 then '-' :: natText n.natAbs else natText n.toNat

def kw (k : TK) (s : String) : Shape := (k, s.toList)

/-! ### expressions -/

def Expr.toks : Expr → List Shape
  | .nil => []
  | .monetaryNil => []
  | .var _ n => [(.varName, '$' :: n.toList)]
  | .asset _ s => [(.asset, s.toList)]
  | .account _ s => [(.account, '@' :: s.toList)]
  | .str _ s => [(.string, '"' :: s.toList ++ ['"'])]
  | .number _ n => [(.number, intText n)]
  | .ratio _ n d => [(.ratio, natText n ++ '/' :: natText d)]
  | .monetary _ a b => kw .lbracket "[" :: a.toks ++ b.toks ++ [kw .rbracket "]"]
  | .infix _ op l r => l.toks ++ [match op with | .plus => kw .plus "+" | .minus => kw .minus "-"] ++ r.toks

/-- what can be written: no nil child, numbers a machine integer holds, `+`/`-` nested to the left -/
def Expr.Printable : Expr → Prop
  | .nil => False
  | .monetaryNil => False
  | .number _ n => - (2 ^ 63 : Int) ≤ n ∧ n < (2 ^ 63 : Int)
  | .monetary _ a b => a.Printable ∧ b.Printable
  | .infix _ _ l r => l.Printable ∧ r.Printable ∧ r.isInfix = false
  | _ => True

def exprsToks : List Expr → List Shape
  | [] => []
  | [e] => e.toks
  | e :: es => e.toks ++ kw .comma "," :: exprsToks es

def ExprsPrintable : List Expr → Prop
  | [] => True
  | e :: es => e.Printable ∧ ExprsPrintable es

/-! ### allotment heads -/

def AllotVal.toks : AllotVal → List Shape
  | .nil => []
  | .remaining _ => [kw .kwRemaining "remaining"]
  | .portion e => e.toks

def AllotVal.Printable : AllotVal → Prop
  | .remaining _ => True
  | .portion (.var _ _) => True
  | .portion (.ratio _ _ _) => True
  | _ => False

/-! ### sources -/

mutual
  def Source.toks : Source → List Shape
    | .nil => []
    | .account e => e.toks
    | .overdraft _ addr none =>
        addr.toks ++ [kw .kwAllowing "allowing", kw .kwUnbounded "unbounded", kw .kwOverdraft "overdraft"]
    | .overdraft _ addr (some b) =>
        addr.toks ++ [kw .kwAllowing "allowing", kw .kwOverdraft "overdraft", kw .kwUp "up", kw .kwTo "to"] ++ b.toks
    | .inorder _ srcs => kw .lbrace "{" :: sourcesToks srcs ++ [kw .rbrace "}"]
    | .capped _ cap src => kw .kwMax "max" :: cap.toks ++ kw .kwFrom "from" :: src.toks
    | .allotment _ items => kw .lbrace "{" :: srcItemsToks items ++ [kw .rbrace "}"]
  def sourcesToks : List Source → List Shape
    | [] => []
    | s :: ss => s.toks ++ sourcesToks ss
  def srcItemsToks : List SrcItem → List Shape
    | [] => []
    | (.mk _ a src) :: rest => a.toks ++ kw .kwFrom "from" :: src.toks ++ srcItemsToks rest
end

mutual
  def Source.Printable : Source → Prop
    | .nil => False
    | .account e => e.Printable
    | .overdraft _ addr none => addr.Printable
    | .overdraft _ addr (some b) => addr.Printable ∧ b.Printable
    | .inorder _ srcs => SourcesPrintable srcs
    | .capped _ cap src => cap.Printable ∧ src.Printable
    | .allotment _ items => items ≠ [] ∧ SrcItemsPrintable items
  def SourcesPrintable : List Source → Prop
    | [] => True
    | s :: ss => s.Printable ∧ SourcesPrintable ss
  def SrcItemsPrintable : List SrcItem → Prop
    | [] => True
    | (.mk _ a src) :: rest => a.Printable ∧ src.Printable ∧ SrcItemsPrintable rest
end

/-! ### destinations -/

mutual
  def Dest.toks : Dest → List Shape
    | .nil => []
    | .account e => e.toks
    | .inorder _ clauses remaining =>
        kw .lbrace "{" :: clausesToks clauses ++ kw .kwRemaining "remaining" :: remaining.toks ++ [kw .rbrace "}"]
    | .allotment _ items => kw .lbrace "{" :: dstItemsToks items ++ [kw .rbrace "}"]
  def KoD.toks : KoD → List Shape
    | .nil => []
    | .kept _ => [kw .kwKept "kept"]
    | .to d => kw .kwTo "to" :: d.toks
  def clausesToks : List DestClause → List Shape
    | [] => []
    | (.mk _ cap k) :: rest => kw .kwMax "max" :: cap.toks ++ k.toks ++ clausesToks rest
  def dstItemsToks : List DestItem → List Shape
    | [] => []
    | (.mk _ a k) :: rest => a.toks ++ k.toks ++ dstItemsToks rest
end

mutual
  /-- an ordered destination without any `max` clause is written `{ remaining … }`, which the grammar
      reads as a one-clause allotment: such a tree cannot be written -/
  def Dest.Printable : Dest → Prop
    | .nil => False
    | .account e => e.Printable
    | .inorder _ clauses remaining => clauses ≠ [] ∧ ClausesPrintable clauses ∧ remaining.Printable
    | .allotment _ items => items ≠ [] ∧ DstItemsPrintable items
  def KoD.Printable : KoD → Prop
    | .nil => False
    | .kept _ => True
    | .to d => d.Printable
  def ClausesPrintable : List DestClause → Prop
    | [] => True
    | (.mk _ cap k) :: rest => cap.Printable ∧ k.Printable ∧ ClausesPrintable rest
  def DstItemsPrintable : List DestItem → Prop
    | [] => True
    | (.mk _ a k) :: rest => a.Printable ∧ k.Printable ∧ DstItemsPrintable rest
end

/-! ### statements -/

def SentValue.toks : SentValue → List Shape
  | .nil => []
  | .lit _ m => m.toks
  | .all _ a => kw .lbracket "[" :: a.toks ++ [kw .star "*", kw .rbracket "]"]

def SentValue.Printable : SentValue → Prop
  | .nil => False
  | .lit _ m => m.Printable
  | .all _ a => a.Printable

/-- the name token: `overdraft` is a keyword of the grammar, every other name an identifier -/
def fnNameTok (name : String) : Shape :=
  if name = "overdraft" then (.kwOverdraft, name.toList) else (.ident, name.toList)

def FnCall.toks (c : FnCall) : List Shape :=
  fnNameTok c.name :: kw .lparen "(" :: exprsToks c.args ++ [kw .rparen ")"]

def FnCall.Printable (c : FnCall) : Prop := ExprsPrintable c.args

def Statement.toks : Statement → List Shape
  | .nil => []
  | .fnCallNil => []
  | .send _ sv src dst =>
      kw .kwSend "send" :: sv.toks ++ [kw .lparen "(", kw .kwSource "source", kw .eq "="] ++ src.toks ++
        [kw .kwDestination "destination", kw .eq "="] ++ dst.toks ++ [kw .rparen ")"]
  | .save _ sv amount => kw .kwSave "save" :: sv.toks ++ kw .kwFrom "from" :: amount.toks
  | .fnCall c => c.toks

def Statement.Printable : Statement → Prop
  | .nil => False
  | .fnCallNil => False
  | .send _ sv src dst => sv.Printable ∧ src.Printable ∧ dst.Printable
  | .save _ sv amount => sv.Printable ∧ amount.Printable
  | .fnCall c => c.Printable

def VarDecl.toks (d : VarDecl) : List Shape :=
  match d.type, d.name with
  | some (_, t), some (_, n) =>
      (.ident, t.toList) :: (.varName, '$' :: n.toList) ::
        (match d.origin with
         | some c => kw .eq "=" :: c.toks
         | none => [])
  | _, _ => []

def VarDecl.Printable (d : VarDecl) : Prop :=
  d.type.isSome ∧ d.name.isSome ∧ (∀ c, d.origin = some c → c.Printable)

/-- the whole script: an optional `vars { … }` block (omitted when there is no declaration), then the statements -/
def Program.toks (p : Program) : List Shape :=
  (if p.vars = [] then [] else
    kw .kwVars "vars" :: kw .lbrace "{" :: p.vars.flatMap VarDecl.toks ++ [kw .rbrace "}"]) ++
  p.stmts.flatMap Statement.toks

def Program.Printable (p : Program) : Prop :=
  (∀ d ∈ p.vars, d.Printable) ∧ (∀ s ∈ p.stmts, s.Printable)

end NS
