/-
  Spec/ProgramSpec.lean — script-level notions used by C01–C03: what each send
  statement denotes, the overdraft the script grants an account, the accounts it
  exempts, well-formed variable environments.
-/
import Spec.Statement
import Spec.Ledger

namespace NS

/-- the asset and resolved source / destination of a send statement (when its expressions evaluate) -/
def stmtSend (vars : Vars) : Statement → Option (String × RSource × RDest)
  | .send _ (.lit _ m) src dst =>
      match evalAs vars m expectMonetary with
      | .ok (asset, _) =>
          match resolveS vars asset src, resolveD vars asset dst with
          | .ok rs, .ok rd => some (asset, rs, rd)
          | _, _ => none
      | _ => none
  | .send _ (.all _ a) src dst =>
      match evalAs vars a expectAsset with
      | .ok asset =>
          match resolveS vars asset src, resolveD vars asset dst with
          | .ok rs, .ok rd => some (asset, rs, rd)
          | _, _ => none
      | _ => none
  | _ => none

/-- every send statement of the script denotes something (all its expressions evaluate);
    true of every statically clean script, see C17 -/
def SendsResolve (vars : Vars) (stmts : List Statement) : Prop :=
  ∀ s ∈ stmts, (∃ r sv src dst, s = .send r sv src dst) → (stmtSend vars s).isSome

/-- all overdraft bounds the script grants to account `a` in asset `c` -/
def grantsOfStmts (vars : Vars) : List Statement → String → String → List Int
  | [], _, _ => []
  | s :: ss, a, c =>
      (match stmtSend vars s with
       | some (asset, rs, _) => if asset = c then grantsOf a rs else []
       | none => []) ++ grantsOfStmts vars ss a c

/-- `a` is an unbounded source (`@world` or unbounded overdraft) of asset `c` somewhere in the script -/
def unbInStmts (vars : Vars) : List Statement → String → String → Bool
  | [], _, _ => false
  | s :: ss, a, c =>
      (match stmtSend vars s with
       | some (asset, rs, _) => asset = c && unbIn a rs
       | none => false) || unbInStmts vars ss a c

/-- the accounts named as sources / destinations anywhere in the script -/
def sourceAccounts (vars : Vars) : List Statement → List String
  | [] => []
  | s :: ss =>
      (match stmtSend vars s with
       | some (_, rs, _) => accountsOfS rs
       | none => []) ++ sourceAccounts vars ss

def destAccounts (vars : Vars) : List Statement → List String
  | [] => []
  | s :: ss =>
      (match stmtSend vars s with
       | some (_, _, rd) => accountsOfD rd
       | none => []) ++ destAccounts vars ss

/-- the assets of the send statements of the script -/
def sendAssets (vars : Vars) : List Statement → List String
  | [] => []
  | s :: ss =>
      (match stmtSend vars s with
       | some (asset, _, _) => [asset]
       | none => []) ++ sendAssets vars ss

/-- portion variables hold values in [0, 1] (what `parseVar` guarantees) -/
def VarsWF (vars : Vars) : Prop :=
  ∀ name q, lookupVar vars name = some (.portion q) → 0 ≤ q ∧ q ≤ 1

/-- the floor of C01: the lower of the starting balance and minus the largest overdraft granted -/
def overdraftFloor (B0 : Bal) (vars : Vars) (stmts : List Statement) (a c : String) : Int :=
  min (B0 a c) (- maxGrant (grantsOfStmts vars stmts a c))

end NS
