/-
  Spec/Names.lean — variable occurrences of a script, defined by a plain
  traversal of the syntax tree that is independent of the checker (C16).
-/
import Model.Check

namespace NS

abbrev Occ := Range × String     -- an occurrence: where, and which name

/-- variable occurrences of an expression, left to right -/
def usesE : Expr → List Occ
  | .var r n => [(r, n)]
  | .monetary _ a n => usesE a ++ usesE n
  | .infix _ _ l r => usesE l ++ usesE r
  | _ => []

def usesEs : List Expr → List Occ
  | [] => []
  | e :: es => usesE e ++ usesEs es

def usesAllot : AllotVal → List Occ
  | .portion (.var r n) => [(r, n)]
  | _ => []

mutual
  def usesS : Source → List Occ
    | .nil => []
    | .account e => usesE e
    | .overdraft _ addr none => usesE addr
    | .overdraft _ addr (some b) => usesE addr ++ usesE b
    | .inorder _ srcs => usesSs srcs
    | .capped _ cap src => usesE cap ++ usesS src
    | .allotment _ items => usesSItems items
  def usesSs : List Source → List Occ
    | [] => []
    | s :: ss => usesS s ++ usesSs ss
  def usesSItems : List SrcItem → List Occ
    | [] => []
    | (.mk _ a src) :: rest => usesAllot a ++ usesS src ++ usesSItems rest
end

mutual
  def usesD : Dest → List Occ
    | .nil => []
    | .account e => usesE e
    | .inorder _ clauses remaining => usesClauses clauses ++ usesK remaining
    | .allotment _ items => usesDItems items
  def usesK : KoD → List Occ
    | .to d => usesD d
    | _ => []
  def usesClauses : List DestClause → List Occ
    | [] => []
    | (.mk _ cap to) :: rest => usesE cap ++ usesK to ++ usesClauses rest
  def usesDItems : List DestItem → List Occ
    | [] => []
    | (.mk _ a to) :: rest => usesAllot a ++ usesK to ++ usesDItems rest
end

def usesSV : SentValue → List Occ
  | .nil => []
  | .lit _ m => usesE m
  | .all _ a => usesE a

/-- the arguments of a call that the language gives a meaning to: all of them for an unknown
    function, the first `arity` ones for a builtin of the right context (excess arguments are
    reported as an arity error and not looked into) -/
def callArgs (resolved : Bool) (fn : FnCall) : List Expr :=
  let valid := fn.args.filter (fun a => match a with | .nil => false | _ => true)
  if resolved then valid.take (builtinParams fn.name).length else valid

def usesStmt : Statement → List Occ
  | .send _ sv src dst => usesSV sv ++ usesS src ++ usesD dst
  | .save _ sv amount => usesSV sv ++ usesE amount
  | .fnCall fn => usesEs (callArgs (isStatementBuiltin fn.name) fn)
  | _ => []

def usesStmts : List Statement → List Occ
  | [] => []
  | s :: ss => usesStmt s ++ usesStmts ss

def usesOrigin (d : VarDecl) : List Occ :=
  match d.origin with
  | some fn => usesEs (callArgs (isOriginBuiltin fn.name) fn)
  | none => []

def declName (d : VarDecl) : Option String := d.name.map (·.2)

/-- names declared by a list of declarations -/
def declNames : List VarDecl → List String
  | [] => []
  | d :: ds => (match declName d with | some n => [n] | none => []) ++ declNames ds

/-- uses of variables that are not declared, or not yet declared where they occur:
    `seen` = names declared so far -/
def unboundInDecls (seen : List String) : List VarDecl → List Occ
  | [] => []
  | d :: ds =>
      (usesOrigin d).filter (fun o => ! seen.contains o.2) ++
      unboundInDecls (match declName d with | some n => if seen.contains n then seen else seen ++ [n] | none => seen) ds

def unboundSpec (prog : Program) : List Occ :=
  unboundInDecls [] prog.vars ++ (usesStmts prog.stmts).filter (fun o => ! (declNames prog.vars).contains o.2)

/-- repeated declarations: every declaration whose name was already declared, in order -/
def duplicateInDecls (seen : List String) : List VarDecl → List Occ
  | [] => []
  | d :: ds =>
      match d.name with
      | some (r, n) => if seen.contains n then (r, n) :: duplicateInDecls seen ds else duplicateInDecls (seen ++ [n]) ds
      | none => duplicateInDecls seen ds

def duplicateSpec (prog : Program) : List Occ := duplicateInDecls [] prog.vars

/-- all uses that come after the declaration at index `i` is complete -/
def usesAfter (prog : Program) (i : Nat) : List Occ :=
  ((prog.vars.drop (i + 1)).flatMap usesOrigin) ++ usesStmts prog.stmts

/-- first declarations never used afterwards, in declaration order -/
def unusedFrom (prog : Program) (seen : List String) : Nat → List VarDecl → List Occ
  | _, [] => []
  | i, d :: ds =>
      match d.name with
      | some (r, n) =>
          if seen.contains n then unusedFrom prog seen (i + 1) ds
          else (if (usesAfter prog i).any (fun o => o.2 == n) then [] else [(r, n)]) ++ unusedFrom prog (seen ++ [n]) (i + 1) ds
      | none => unusedFrom prog seen (i + 1) ds

def unusedSpec (prog : Program) : List Occ := unusedFrom prog [] 0 prog.vars

def stmtCall : Statement → List Range
  | .fnCall fn => [fn.callerRange]
  | _ => []

def declCall (d : VarDecl) : List Range :=
  match d.origin with
  | some fn => [fn.callerRange]
  | none => []

/-- caller ranges of the calls of a program, in traversal order.  The checker keys its call
    resolution table by the call site; in a parsed program distinct calls have distinct caller
    ranges (`(callRanges prog).Nodup`), which an arbitrary `Program` value need not satisfy. -/
def callRanges (prog : Program) : List Range :=
  prog.vars.flatMap declCall ++ prog.stmts.flatMap stmtCall

/-- projections of the diagnostics -/
def unboundDiags (ds : List Diag) : List Occ :=
  ds.filterMap (fun d => match d.kind with | .unboundVariable n => some (d.range, n) | _ => none)

def duplicateDiags (ds : List Diag) : List Occ :=
  ds.filterMap (fun d => match d.kind with | .duplicateVariable n => some (d.range, n) | _ => none)

def unusedDiags (ds : List Diag) : List Occ :=
  ds.filterMap (fun d => match d.kind with | .unusedVar n => some (d.range, n) | _ => none)

end NS
