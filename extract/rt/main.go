package main

// veriftables: prints, as JSON, the tables of internal/analysis AS THE PROGRAM HOLDS THEM AT RUN TIME — the builtin
// signatures (analysis.Builtins), the allowed type names (analysis.AllowedTypes) and the severity of every
// diagnostic kind — so that the Lean tables regenerated from them do not depend on how the Go source spells them
// (one literal, several declarations, an init function, a switch…). Compiled into the module with `go build -overlay`.

import (
	"encoding/json"
	"fmt"
	"os"
	"reflect"
	"sort"

	"github.com/formancehq/numscript/internal/analysis"
)

func main() {
	out := map[string]any{}
	out["allowedTypes"] = analysis.AllowedTypes
	names := []string{}
	for n := range analysis.Builtins {
		names = append(names, n)
	}
	sort.Strings(names)
	builtins := []map[string]any{}
	for _, n := range names {
		b := map[string]any{"name": n}
		switch r := analysis.Builtins[n].(type) {
		case analysis.StatementFnCallResolution:
			b["ctx"], b["params"], b["ret"], b["docs"] = "statement", r.Params, "", r.Docs
		case analysis.VarOriginFnCallResolution:
			b["ctx"], b["params"], b["ret"], b["docs"] = "origin", r.Params, r.Return, r.Docs
		case *analysis.StatementFnCallResolution:
			b["ctx"], b["params"], b["ret"], b["docs"] = "statement", r.Params, "", r.Docs
		case *analysis.VarOriginFnCallResolution:
			b["ctx"], b["params"], b["ret"], b["docs"] = "origin", r.Params, r.Return, r.Docs
		default:
			fmt.Fprintf(os.Stderr, "unknown resolution type %T for %s\n", r, n)
			os.Exit(1)
		}
		if b["params"] == nil {
			b["params"] = []string{}
		}
		builtins = append(builtins, b)
	}
	out["builtins"] = builtins
	kinds := []analysis.DiagnosticKind{
		&analysis.Parsing{}, &analysis.InvalidType{}, &analysis.DuplicateVariable{}, &analysis.UnboundVariable{},
		&analysis.UnusedVar{}, &analysis.TypeMismatch{}, &analysis.RemainingIsNotLast{}, &analysis.BadAllotmentSum{},
		&analysis.FixedPortionVariable{}, &analysis.RedundantRemaining{}, &analysis.UnknownFunction{}, &analysis.BadArity{},
		&analysis.InvalidWorldOverdraft{}, &analysis.NoAllotmentInSendAll{}, &analysis.InvalidUnboundedAccount{},
		&analysis.EmptiedAccount{}, &analysis.UnboundedAccountIsNotLast{}, &analysis.DivByZero{},
	}
	sev := map[string]int{}
	for _, k := range kinds {
		sev[reflect.TypeOf(k).Elem().Name()] = int(k.Severity())
	}
	out["severities"] = sev
	enc := json.NewEncoder(os.Stdout)
	enc.SetEscapeHTML(false)
	if err := enc.Encode(out); err != nil {
		os.Exit(1)
	}
}
