module verifextract

go 1.22
