// verifextract: regenerates lean/Model/Tables.lean from the Go sources of
// internal/analysis (builtin signatures, allowed types, diagnostic severities),
// so that the Lean checker model and the theorems stated over these tables are
// re-checked against what the code says now.
package main

import (
	"crypto/sha256"
	"encoding/hex"
	"encoding/json"
	"fmt"
	"go/printer"
	"go/ast"
	"go/parser"
	"go/token"
	"go/types"
	"os"
	"path/filepath"
	"sort"
	"strconv"
	"strings"
)

func must(err error) {
	if err != nil {
		fmt.Fprintln(os.Stderr, "verifextract:", err)
		os.Exit(1)
	}
}

// funcHashes prints, as JSON, a hash of the normalised source (comments dropped, gofmt layout) of every
// function of the hand-modelled packages: the checks compare it with the inventory recorded for the tree the
// model was written against and look harder (larger streams) when some function differs.
func funcHashes(repo string) {
	out := map[string]string{}
	dirs := []string{"", "internal/interpreter", "internal/analysis", "internal/parser", "internal/lsp", "internal/cmd", "internal/utils"}
	for _, d := range dirs {
		entries, err := os.ReadDir(filepath.Join(repo, d))
		must(err)
		for _, e := range entries {
			name := e.Name()
			if e.IsDir() || !strings.HasSuffix(name, ".go") || strings.HasSuffix(name, "_test.go") {
				continue
			}
			fset := token.NewFileSet()
			f, err := parser.ParseFile(fset, filepath.Join(repo, d, name), nil, 0)
			if err != nil {
				out[filepath.Join(d, name)+":<file>"] = "unparsable"
				continue
			}
			var gen strings.Builder
			for _, decl := range f.Decls {
				fd, ok := decl.(*ast.FuncDecl)
				if !ok {
					// constants, variables (tables, regular expressions), types: one hash per file
					must(printer.Fprint(&gen, fset, decl))
					gen.WriteString("\n")
					continue
				}
				key := filepath.Join(d, name) + ":" + fd.Name.Name
				if fd.Recv != nil && len(fd.Recv.List) > 0 {
					key = filepath.Join(d, name) + ":" + types.ExprString(fd.Recv.List[0].Type) + "." + fd.Name.Name
				}
				var b strings.Builder
				fd.Doc = nil
				must(printer.Fprint(&b, fset, fd))
				sum := sha256.Sum256([]byte(b.String()))
				out[key] = hex.EncodeToString(sum[:8])
			}
			gsum := sha256.Sum256([]byte(gen.String()))
			out[filepath.Join(d, name)+":<declarations>"] = hex.EncodeToString(gsum[:8])
		}
	}
	enc := json.NewEncoder(os.Stdout)
	enc.SetIndent("", " ")
	must(enc.Encode(out))
}

// canonGuard: equivalent spellings of "this count is not zero" / "this is not nil" get one text, so that a harmless
// rewrite of the condition does not change the regenerated table
func canonGuard(e ast.Expr) string {
	if p, ok := e.(*ast.ParenExpr); ok {
		return canonGuard(p.X)
	}
	if b, ok := e.(*ast.BinaryExpr); ok {
		isZero := func(x ast.Expr) bool { l, ok := x.(*ast.BasicLit); return ok && l.Value == "0" }
		isNil := func(x ast.Expr) bool { id, ok := x.(*ast.Ident); return ok && id.Name == "nil" }
		switch {
		case isZero(b.Y) && (b.Op == token.NEQ || b.Op == token.GTR):
			return types.ExprString(b.X) + " != 0"
		case isZero(b.X) && (b.Op == token.NEQ || b.Op == token.LSS):
			return types.ExprString(b.Y) + " != 0"
		case isZero(b.Y) && b.Op == token.GEQ:
			break
		case isNil(b.Y) && b.Op == token.NEQ:
			return types.ExprString(b.X) + " != nil"
		case isNil(b.X) && b.Op == token.NEQ:
			return types.ExprString(b.Y) + " != nil"
		}
		if l, ok := b.Y.(*ast.BasicLit); ok && l.Value == "1" && b.Op == token.GEQ {
			return types.ExprString(b.X) + " != 0"
		}
	}
	return types.ExprString(e)
}

// callDefinedLocals: locals assigned exactly once, by `x := recv.Method(...)` or `x := f(...)`: name -> "Method()" / "f()"
// (a condition on such a local is reported as a condition on what defines it, so that renaming the local changes nothing)
func callDefinedLocals(body *ast.BlockStmt) map[string]string {
	count := map[string]int{}
	def := map[string]string{}
	ast.Inspect(body, func(n ast.Node) bool {
		as, ok := n.(*ast.AssignStmt)
		if !ok {
			return true
		}
		for i, l := range as.Lhs {
			id, ok := l.(*ast.Ident)
			if !ok {
				continue
			}
			count[id.Name]++
			if len(as.Lhs) == len(as.Rhs) {
				if call, ok := as.Rhs[i].(*ast.CallExpr); ok {
					switch f := call.Fun.(type) {
					case *ast.SelectorExpr:
						def[id.Name] = f.Sel.Name + "()"
					case *ast.Ident:
						def[id.Name] = f.Name + "()"
					}
				}
			}
		}
		return true
	})
	out := map[string]string{}
	for k, v := range def {
		if count[k] == 1 {
			out[k] = v
		}
	}
	return out
}

func substLocals(e ast.Expr, defs map[string]string) string {
	if p, ok := e.(*ast.ParenExpr); ok {
		return substLocals(p.X, defs)
	}
	if id, ok := e.(*ast.Ident); ok {
		if d, ok := defs[id.Name]; ok {
			return d
		}
	}
	return types.ExprString(e)
}

// guardText: a condition (negated or not) in canonical text; "this count is not zero" and "this is not nil" have one
// spelling each
func guardText(e ast.Expr, neg bool, defs map[string]string) string {
	if p, ok := e.(*ast.ParenExpr); ok {
		return guardText(p.X, neg, defs)
	}
	if u, ok := e.(*ast.UnaryExpr); ok && u.Op == token.NOT {
		return guardText(u.X, !neg, defs)
	}
	if b, ok := e.(*ast.BinaryExpr); ok {
		isLit := func(x ast.Expr, v string) bool { l, ok := x.(*ast.BasicLit); return ok && l.Value == v }
		isNil := func(x ast.Expr) bool { id, ok := x.(*ast.Ident); return ok && id.Name == "nil" }
		x, y, op := b.X, b.Y, b.Op
		if isLit(x, "0") || isLit(x, "1") || isNil(x) { // constant on the left: mirror
			x, y = y, x
			switch op {
			case token.LSS:
				op = token.GTR
			case token.GTR:
				op = token.LSS
			case token.LEQ:
				op = token.GEQ
			case token.GEQ:
				op = token.LEQ
			}
		}
		subj := substLocals(x, defs)
		nonzero, zero := false, false
		switch {
		case isLit(y, "0") && (op == token.NEQ || op == token.GTR), isLit(y, "1") && op == token.GEQ:
			nonzero = true
		case isLit(y, "0") && (op == token.EQL || op == token.LEQ), isLit(y, "1") && op == token.LSS:
			zero = true
		}
		if nonzero || zero {
			if nonzero != neg {
				return subj + " != 0"
			}
			return subj + " == 0"
		}
		if isNil(y) && (op == token.NEQ || op == token.EQL) {
			if (op == token.NEQ) != neg {
				return subj + " != nil"
			}
			return subj + " == nil"
		}
	}
	if neg {
		return "!(" + types.ExprString(e) + ")"
	}
	return types.ExprString(e)
}

func endsWithReturn(b *ast.BlockStmt) bool {
	if b == nil || len(b.List) == 0 {
		return false
	}
	_, ok := b.List[len(b.List)-1].(*ast.ReturnStmt)
	return ok
}

// nearestGuard: the condition under which the call on top of `stack` is reached, as far as the nearest guard tells:
// the condition of the nearest enclosing `if` (negated in its else branch); failing that, the negation of the nearest
// preceding `if C { …; return }` of the enclosing blocks
func nearestGuard(stack []ast.Node, defs map[string]string) string {
	for i := len(stack) - 1; i >= 0; i-- {
		if ifs, ok := stack[i].(*ast.IfStmt); ok && i+1 < len(stack) {
			if stack[i+1] == ast.Node(ifs.Body) {
				return guardText(ifs.Cond, false, defs)
			}
			if ifs.Else != nil && stack[i+1] == ifs.Else {
				return guardText(ifs.Cond, true, defs)
			}
		}
		if blk, ok := stack[i].(*ast.BlockStmt); ok && i+1 < len(stack) {
			// statements of this block before the one that contains the call, nearest first
			idx := -1
			for k, st := range blk.List {
				if ast.Node(st) == stack[i+1] {
					idx = k
				}
			}
			for k := idx - 1; k >= 0; k-- {
				if ifs, ok := blk.List[k].(*ast.IfStmt); ok && ifs.Else == nil && endsWithReturn(ifs.Body) {
					return guardText(ifs.Cond, true, defs)
				}
			}
		}
	}
	return ""
}

// packageState prints the package-level variables of the hand-written packages: (package, name, kind), where kind
// says what a value of that variable can be made to do: "scalar" (numbers, strings, booleans), "regexp", "error",
// "func"/"alias" (a function value or another package's identifier), and the kinds that can hold state shared by every
// call in the process: "map", "slice", "pointer", "sync" (sync.Pool, sync.Map, sync.Mutex, atomic…), "struct", "other".
func packageState(repo string) {
	type entry struct {
		Pkg  string `json:"pkg"`
		Name string `json:"name"`
		Kind string `json:"kind"`
	}
	out := []entry{}
	dirs := []string{".", "internal/interpreter", "internal/analysis", "internal/parser", "internal/lsp", "internal/utils", "internal/cmd", "internal/ansi", "internal/numscript"}
	kindOfType := func(t ast.Expr) string {
		switch t := t.(type) {
		case *ast.MapType:
			return "map"
		case *ast.ArrayType:
			return "slice"
		case *ast.StarExpr:
			return "pointer"
		case *ast.FuncType:
			return "func"
		case *ast.ChanType:
			return "sync"
		case *ast.InterfaceType:
			return "other"
		case *ast.StructType:
			return "struct"
		case *ast.SelectorExpr:
			if id, ok := t.X.(*ast.Ident); ok && (id.Name == "sync" || id.Name == "atomic") {
				return "sync"
			}
			if id, ok := t.X.(*ast.Ident); ok && id.Name == "big" {
				return "struct"
			}
			return "other"
		case *ast.IndexExpr, *ast.IndexListExpr:
			return "other"
		case *ast.Ident:
			switch t.Name {
			case "string", "bool", "int", "int8", "int16", "int32", "int64", "uint", "uint8", "uint16", "uint32", "uint64", "byte", "rune", "float32", "float64":
				return "scalar"
			case "error":
				return "error"
			}
			return "other"
		}
		return "other"
	}
	var kindOfValue func(v ast.Expr) string
	kindOfValue = func(v ast.Expr) string {
		switch v := v.(type) {
		case *ast.BasicLit:
			return "scalar"
		case *ast.FuncLit:
			return "func"
		case *ast.Ident:
			if v.Name == "true" || v.Name == "false" {
				return "scalar"
			}
			return "alias"
		case *ast.SelectorExpr:
			return "alias"
		case *ast.CompositeLit:
			if v.Type == nil {
				return "other"
			}
			return kindOfType(v.Type)
		case *ast.UnaryExpr:
			if v.Op == token.AND {
				// `&cobra.Command{…}`: the command objects of the CLI (configuration read by cobra, whatever they are called)
				if cl, ok := v.X.(*ast.CompositeLit); ok {
					if sel, ok := cl.Type.(*ast.SelectorExpr); ok {
						if id, ok := sel.X.(*ast.Ident); ok && id.Name == "cobra" && sel.Sel.Name == "Command" {
							return "cobra"
						}
					}
				}
				return "pointer"
			}
			return kindOfValue(v.X)
		case *ast.BinaryExpr:
			return "scalar"
		case *ast.ParenExpr:
			return kindOfValue(v.X)
		case *ast.CallExpr:
			switch f := v.Fun.(type) {
			case *ast.SelectorExpr:
				if id, ok := f.X.(*ast.Ident); ok {
					switch {
					case id.Name == "regexp":
						return "regexp"
					case id.Name == "errors" || (id.Name == "fmt" && f.Sel.Name == "Errorf"):
						return "error"
					case id.Name == "big":
						return "pointer"
					case id.Name == "sync" || id.Name == "atomic":
						return "sync"
					case id.Name == "strconv" || id.Name == "strings" || id.Name == "math":
						return "scalar"
					}
				}
				return "other"
			case *ast.Ident:
				switch f.Name {
				case "make":
					if len(v.Args) > 0 {
						return kindOfType(v.Args[0])
					}
				case "new":
					return "pointer"
				case "len", "cap", "min", "max", "string", "int", "int64", "uint64", "byte":
					return "scalar"
				}
				return "other"
			case *ast.ParenExpr: // a conversion such as (*T)(nil)
				return "other"
			}
			return "other"
		}
		return "other"
	}
	for _, dir := range dirs {
		matches, err := filepath.Glob(filepath.Join(repo, dir, "*.go"))
		must(err)
		sort.Strings(matches)
		for _, path := range matches {
			if strings.HasSuffix(path, "_test.go") || filepath.Base(path) == "bindings.go" {
				continue // bindings.go: generated LSP protocol types
			}
			fset := token.NewFileSet()
			f, err := parser.ParseFile(fset, path, nil, 0)
			must(err)
			for _, d := range f.Decls {
				gd, ok := d.(*ast.GenDecl)
				if !ok || gd.Tok != token.VAR {
					continue
				}
				for _, sp := range gd.Specs {
					vs := sp.(*ast.ValueSpec)
					for i, n := range vs.Names {
						if n.Name == "_" {
							continue // compile-time assertions
						}
						kind := "other"
						if vs.Type != nil {
							kind = kindOfType(vs.Type)
						} else if i < len(vs.Values) {
							kind = kindOfValue(vs.Values[i])
						}
						out = append(out, entry{dir, n.Name, kind})
					}
				}
			}
		}
	}
	// maps and slices that the code only ever reads (indexing, ranging, len, membership tests) are tables, not state
	written := writtenVars(repo, dirs)
	for i := range out {
		if (out[i].Kind == "map" || out[i].Kind == "slice") && written[out[i].Pkg+"."+out[i].Name] == "" {
			out[i].Kind = "table"
		}
	}
	sort.Slice(out, func(i, j int) bool {
		if out[i].Pkg != out[j].Pkg {
			return out[i].Pkg < out[j].Pkg
		}
		return out[i].Name < out[j].Name
	})
	enc := json.NewEncoder(os.Stdout)
	enc.SetEscapeHTML(false)
	must(enc.Encode(out))
}

// writtenVars: for every package-level variable of the given directories, the first use found (in any of them) that
// may modify what it holds or let a reference to it escape: assignment to it or to one of its elements, ++/--, &,
// delete / append / copy / clear, slicing, passing it whole to a function that is not a known reader, returning it,
// storing it, calling a method on it. "" = only read. (Names shadowed by a local of the same file-level scope are
// resolved by go/ast; a local with the same name declared in another way counts as a use: the answer errs towards
// "written".)
func writtenVars(repo string, dirs []string) map[string]string {
	const module = "github.com/formancehq/numscript"
	res := map[string]string{}
	readers := map[string]bool{"len": true, "cap": true, "slices.Contains": true, "slices.ContainsFunc": true, "slices.Index": true,
		"slices.IndexFunc": true, "strings.Join": true, "fmt.Sprint": true, "fmt.Sprintf": true, "fmt.Sprintln": true, "fmt.Println": true, "fmt.Printf": true}
	pkgVars := map[string]map[string]bool{}
	type parsed struct {
		dir string
		f   *ast.File
	}
	var files []parsed
	for _, dir := range dirs {
		matches, err := filepath.Glob(filepath.Join(repo, dir, "*.go"))
		must(err)
		sort.Strings(matches)
		pkgVars[dir] = map[string]bool{}
		for _, path := range matches {
			if strings.HasSuffix(path, "_test.go") || filepath.Base(path) == "bindings.go" {
				continue
			}
			f, err := parser.ParseFile(token.NewFileSet(), path, nil, 0)
			must(err)
			files = append(files, parsed{dir, f})
			for _, d := range f.Decls {
				if gd, ok := d.(*ast.GenDecl); ok && gd.Tok == token.VAR {
					for _, sp := range gd.Specs {
						for _, n := range sp.(*ast.ValueSpec).Names {
							pkgVars[dir][n.Name] = true
						}
					}
				}
			}
		}
	}
	calleeName := func(c *ast.CallExpr) string { return types.ExprString(c.Fun) }
	for _, pf := range files {
		alias := map[string]string{} // import name -> directory of a package of this module
		for _, im := range pf.f.Imports {
			path, _ := strconv.Unquote(im.Path.Value)
			if path != module && !strings.HasPrefix(path, module+"/") {
				continue
			}
			dir := strings.TrimPrefix(strings.TrimPrefix(path, module), "/")
			if dir == "" {
				dir = "."
			}
			name := filepath.Base(path)
			if im.Name != nil {
				name = im.Name.Name
			}
			alias[name] = dir
		}
		var stack []ast.Node
		ast.Inspect(pf.f, func(n ast.Node) bool {
			if n == nil {
				stack = stack[:len(stack)-1]
				return true
			}
			stack = append(stack, n)
			var key string
			var ref ast.Expr
			switch e := n.(type) {
			case *ast.Ident:
				if !pkgVars[pf.dir][e.Name] {
					return true
				}
				if e.Obj != nil {
					if _, isSpec := e.Obj.Decl.(*ast.ValueSpec); !isSpec || e.Obj.Kind != ast.Var {
						return true // a local, a parameter, a field…
					}
				}
				if len(stack) >= 2 {
					switch p := stack[len(stack)-2].(type) {
					case *ast.SelectorExpr:
						if p.Sel == e {
							return true // x.Name: a field or method, or pkg.Name handled at the selector
						}
					case *ast.KeyValueExpr:
						if p.Key == e {
							return true
						}
					case *ast.ValueSpec:
						for _, nm := range p.Names {
							if nm == e {
								return true // the declaration itself
							}
						}
					case *ast.Field:
						return true
					}
				}
				key, ref = pf.dir+"."+e.Name, e
			case *ast.SelectorExpr:
				id, ok := e.X.(*ast.Ident)
				if !ok || alias[id.Name] == "" || !pkgVars[alias[id.Name]][e.Sel.Name] {
					return true
				}
				key, ref = alias[id.Name]+"."+e.Sel.Name, e
			default:
				return true
			}
			if res[key] != "" {
				return true
			}
			// climb over element / field selections
			cur := ast.Node(ref)
			i := len(stack) - 2
			indexed := false
			for ; i >= 0; i-- {
				switch p := stack[i].(type) {
				case *ast.IndexExpr:
					if p.X == cur {
						cur, indexed = p, true
						continue
					}
				case *ast.SelectorExpr:
					if p.X == cur {
						cur = p
						continue
					}
				case *ast.ParenExpr:
					cur = p
					continue
				case *ast.StarExpr:
					cur = p
					continue
				}
				break
			}
			if i < 0 {
				return true
			}
			why := ""
			switch p := stack[i].(type) {
			case *ast.AssignStmt:
				for _, l := range p.Lhs {
					if l == cur {
						why = "assigned"
					}
				}
				if why == "" && !indexed {
					why = "aliased by an assignment"
				}
			case *ast.IncDecStmt:
				why = "incremented"
			case *ast.UnaryExpr:
				if p.Op == token.AND {
					why = "address taken"
				}
			case *ast.RangeStmt:
				if p.X != cur {
					why = "assigned by a range clause"
				}
			case *ast.SliceExpr:
				if p.X == cur {
					why = "sliced"
				}
			case *ast.CallExpr:
				if p.Fun == cur {
					why = "method called on it"
				} else if !readers[calleeName(p)] && !indexed {
					why = "passed to " + calleeName(p)
				} else if indexed {
					switch calleeName(p) {
					case "delete", "append", "copy", "clear":
						why = "passed to " + calleeName(p)
					}
				}
			case *ast.ReturnStmt, *ast.CompositeLit, *ast.KeyValueExpr, *ast.SendStmt, *ast.ValueSpec:
				if !indexed {
					why = "escapes"
				}
			}
			if why != "" {
				res[key] = why
			}
			return true
		})
	}
	return res
}

// exitSites prints every os.Exit call of internal/cmd: function, nearest enclosing `if` condition, argument
func exitSites(repo string) {
	fset := token.NewFileSet()
	type exitSite struct {
		Fn    string `json:"fn"`
		Guard string `json:"guard"`
		Arg   string `json:"arg"`
	}
	exits := []exitSite{}
	matches, err := filepath.Glob(filepath.Join(repo, "internal", "cmd", "*.go"))
	must(err)
	sort.Strings(matches)
	// the historical order of the table: check.go, run.go, root.go first, anything else after
	order := map[string]int{"check.go": 0, "run.go": 1, "root.go": 2}
	sort.SliceStable(matches, func(i, j int) bool {
		oi, ok1 := order[filepath.Base(matches[i])]
		oj, ok2 := order[filepath.Base(matches[j])]
		if !ok1 {
			oi = 9
		}
		if !ok2 {
			oj = 9
		}
		return oi < oj
	})
	// integer constants of the package: `os.Exit(someName)` is reported with the value the name stands for
	intConsts := map[string]string{}
	for _, path := range matches {
		if strings.HasSuffix(path, "_test.go") {
			continue
		}
		f, err := parser.ParseFile(token.NewFileSet(), path, nil, 0)
		must(err)
		for _, d := range f.Decls {
			gd, ok := d.(*ast.GenDecl)
			if !ok || gd.Tok != token.CONST {
				continue
			}
			for _, sp := range gd.Specs {
				vs := sp.(*ast.ValueSpec)
				for i, n := range vs.Names {
					if i < len(vs.Values) {
						if bl, ok := vs.Values[i].(*ast.BasicLit); ok && bl.Kind == token.INT {
							intConsts[n.Name] = bl.Value
						}
					}
				}
			}
		}
	}
	for _, path := range matches {
		if strings.HasSuffix(path, "_test.go") {
			continue
		}
		f, err := parser.ParseFile(fset, path, nil, 0)
		must(err)
		for _, d := range f.Decls {
			fd, ok := d.(*ast.FuncDecl)
			if !ok || fd.Body == nil {
				continue
			}
			defs := callDefinedLocals(fd.Body)
			var stack []ast.Node
			ast.Inspect(fd.Body, func(n ast.Node) bool {
				if n == nil {
					stack = stack[:len(stack)-1]
					return true
				}
				stack = append(stack, n)
				call, ok := n.(*ast.CallExpr)
				if !ok {
					return true
				}
				sel, ok := call.Fun.(*ast.SelectorExpr)
				if !ok || sel.Sel.Name != "Exit" {
					return true
				}
				if id, ok := sel.X.(*ast.Ident); !ok || id.Name != "os" {
					return true
				}
				guard := nearestGuard(stack, defs)
				arg := ""
				if len(call.Args) == 1 {
					arg = types.ExprString(call.Args[0])
					if id, ok := call.Args[0].(*ast.Ident); ok {
						if v, ok := intConsts[id.Name]; ok {
							arg = v
						}
					}
				}
				exits = append(exits, exitSite{fd.Name.Name, guard, arg})
				return true
			})
		}
	}
	enc := json.NewEncoder(os.Stdout)
	enc.SetEscapeHTML(false)
	must(enc.Encode(exits))
}

func main() {
	repo := os.Args[1]
	if len(os.Args) > 2 && os.Args[2] == "--funcs" {
		funcHashes(repo)
		return
	}
	if len(os.Args) > 2 && os.Args[2] == "--state" {
		packageState(repo)
		return
	}
	if len(os.Args) > 2 && os.Args[2] == "--exits" {
		exitSites(repo)
		return
	}
	fset := token.NewFileSet()
	consts := map[string]string{}
	var files []*ast.File
	for _, name := range []string{"check.go", "diagnostic_kind.go"} {
		f, err := parser.ParseFile(fset, filepath.Join(repo, "internal", "analysis", name), nil, 0)
		must(err)
		files = append(files, f)
		for _, d := range f.Decls {
			gd, ok := d.(*ast.GenDecl)
			if !ok || gd.Tok != token.CONST {
				continue
			}
			for _, s := range gd.Specs {
				vs := s.(*ast.ValueSpec)
				for i, n := range vs.Names {
					if i < len(vs.Values) {
						if bl, ok := vs.Values[i].(*ast.BasicLit); ok && bl.Kind == token.STRING {
							v, _ := strconv.Unquote(bl.Value)
							consts[n.Name] = v
						}
					}
				}
			}
		}
	}
	str := func(e ast.Expr) string {
		switch e := e.(type) {
		case *ast.BasicLit:
			v, err := strconv.Unquote(e.Value)
			must(err)
			return v
		case *ast.Ident:
			v, ok := consts[e.Name]
			if !ok {
				must(fmt.Errorf("unknown constant %s", e.Name))
			}
			return v
		}
		must(fmt.Errorf("unsupported expression %T", e))
		return ""
	}
	strList := func(e ast.Expr) []string {
		cl, ok := e.(*ast.CompositeLit)
		if !ok {
			must(fmt.Errorf("expected composite literal"))
		}
		var out []string
		for _, el := range cl.Elts {
			out = append(out, str(el))
		}
		return out
	}
	var allowed []string
	type builtin struct {
		name, ctx, ret, docs string
		params              []string
	}
	var builtins []builtin
	severities := map[string]int{}
	sevName := map[string]int{"ErrorSeverity": 1, "WarningSeverity": 2, "Information": 3, "Hint": 4}
	for _, f := range files {
		for _, d := range f.Decls {
			switch d := d.(type) {
			case *ast.GenDecl:
				if d.Tok != token.VAR {
					continue
				}
				for _, s := range d.Specs {
					vs := s.(*ast.ValueSpec)
					for i, n := range vs.Names {
						if n.Name == "AllowedTypes" {
							allowed = strList(vs.Values[i])
						}
						if n.Name == "Builtins" {
							cl := vs.Values[i].(*ast.CompositeLit)
							for _, el := range cl.Elts {
								kv := el.(*ast.KeyValueExpr)
								b := builtin{name: str(kv.Key)}
								v := kv.Value.(*ast.CompositeLit)
								switch v.Type.(*ast.Ident).Name {
								case "StatementFnCallResolution":
									b.ctx = "statement"
								case "VarOriginFnCallResolution":
									b.ctx = "origin"
								default:
									must(fmt.Errorf("unknown resolution type"))
								}
								for _, fe := range v.Elts {
									fkv := fe.(*ast.KeyValueExpr)
									switch fkv.Key.(*ast.Ident).Name {
									case "Params":
										b.params = strList(fkv.Value)
									case "Return":
										b.ret = str(fkv.Value)
									case "Docs":
										b.docs = str(fkv.Value)
									}
								}
								builtins = append(builtins, b)
							}
						}
					}
				}
			case *ast.FuncDecl:
				if d.Name.Name != "Severity" || d.Recv == nil || len(d.Recv.List) != 1 {
					continue
				}
				var recv string
				switch t := d.Recv.List[0].Type.(type) {
				case *ast.StarExpr:
					recv = t.X.(*ast.Ident).Name
				case *ast.Ident:
					recv = t.Name
				}
				if len(d.Body.List) != 1 {
					must(fmt.Errorf("Severity() of %s is not a single return", recv))
				}
				ret, ok := d.Body.List[0].(*ast.ReturnStmt)
				if !ok || len(ret.Results) != 1 {
					must(fmt.Errorf("Severity() of %s is not a single return", recv))
				}
				id, ok := ret.Results[0].(*ast.Ident)
				if !ok {
					must(fmt.Errorf("Severity() of %s does not return a constant", recv))
				}
				sv, ok := sevName[id.Name]
				if !ok {
					must(fmt.Errorf("unknown severity %s", id.Name))
				}
				severities[recv] = sv
			}
		}
	}
	// CLI exit sites: every os.Exit call of internal/cmd with its function, nearest enclosing `if` condition
	// and argument, as source text
	type exitSite struct{ fn, guard, arg string }
	var exits []exitSite
	for _, name := range []string{"check.go", "run.go", "root.go"} {
		f, err := parser.ParseFile(fset, filepath.Join(repo, "internal", "cmd", name), nil, 0)
		must(err)
		for _, d := range f.Decls {
			fd, ok := d.(*ast.FuncDecl)
			if !ok || fd.Body == nil {
				continue
			}
			var stack []ast.Node
			ast.Inspect(fd.Body, func(n ast.Node) bool {
				if n == nil {
					stack = stack[:len(stack)-1]
					return true
				}
				stack = append(stack, n)
				call, ok := n.(*ast.CallExpr)
				if !ok {
					return true
				}
				sel, ok := call.Fun.(*ast.SelectorExpr)
				if !ok || sel.Sel.Name != "Exit" {
					return true
				}
				if id, ok := sel.X.(*ast.Ident); !ok || id.Name != "os" {
					return true
				}
				guard := ""
				for i := len(stack) - 1; i >= 0; i-- {
					if ifs, ok := stack[i].(*ast.IfStmt); ok {
						guard = types.ExprString(ifs.Cond)
						break
					}
				}
				arg := ""
				if len(call.Args) == 1 {
					arg = types.ExprString(call.Args[0])
				}
				exits = append(exits, exitSite{fd.Name.Name, guard, arg})
				return true
			})
		}
	}
	q := func(s string) string { return strconv.Quote(s) }
	ql := func(l []string) string {
		var parts []string
		for _, s := range l {
			parts = append(parts, q(s))
		}
		return "[" + strings.Join(parts, ", ") + "]"
	}
	// stable order: the order of the map literal in the source for builtins; alphabetical for severities
	var sevKeys []string
	for k := range severities {
		sevKeys = append(sevKeys, k)
	}
	sort.Strings(sevKeys)
	var b strings.Builder
	b.WriteString("/-\n  Model/Tables.lean — REGENERATED from /repo/internal/analysis/{check.go,diagnostic_kind.go} and /repo/internal/cmd by\n  /verif/extract on every run of bin/check (do not edit): builtin signatures, allowed types,\n  diagnostic severities, CLI exit sites.\n-/\nnamespace NS\n\n")
	fmt.Fprintf(&b, "def allowedTypes : List String := %s\n\n", ql(allowed))
	b.WriteString("/-- (name, context, parameter types, return type) ; context: \"statement\" | \"origin\" -/\ndef builtinsTable : List (String × String × List String × String) := [\n")
	for i, bi := range builtins {
		sep := ","
		if i == len(builtins)-1 {
			sep = ""
		}
		fmt.Fprintf(&b, "  (%s, %s, %s, %s)%s\n", q(bi.name), q(bi.ctx), ql(bi.params), q(bi.ret), sep)
	}
	b.WriteString("]\n\ndef builtinDocsTable : List (String × String) := [\n")
	for i, bi := range builtins {
		sep := ","
		if i == len(builtins)-1 {
			sep = ""
		}
		fmt.Fprintf(&b, "  (%s, %s)%s\n", q(bi.name), q(bi.docs), sep)
	}
	b.WriteString("]\n\n/-- (diagnostic kind, severity) ; 1 = error, 2 = warning -/\ndef severityTable : List (String × Nat) := [\n")
	for i, k := range sevKeys {
		sep := ","
		if i == len(sevKeys)-1 {
			sep = ""
		}
		fmt.Fprintf(&b, "  (%s, %d)%s\n", q(k), severities[k], sep)
	}
	b.WriteString("]\n\n/-- os.Exit sites of internal/cmd: (function, nearest enclosing if-condition, argument), as source text -/\ndef cliExitTable : List (String × String × String) := [\n")
	for i, e := range exits {
		sep := ","
		if i == len(exits)-1 {
			sep = ""
		}
		fmt.Fprintf(&b, "  (%s, %s, %s)%s\n", q(e.fn), q(e.guard), q(e.arg), sep)
	}
	b.WriteString("]\n\n")
	b.WriteString(`def builtinDocs (name : String) : String :=
  match builtinDocsTable.find? (fun p => p.1 == name) with
  | some p => p.2
  | none => ""

def builtinEntry (name : String) : Option (String × String × List String × String) :=
  builtinsTable.find? (fun p => p.1 == name)

def isStatementBuiltin (name : String) : Bool :=
  match builtinEntry name with
  | some (_, ctx, _, _) => ctx == "statement"
  | none => false

def isOriginBuiltin (name : String) : Bool :=
  match builtinEntry name with
  | some (_, ctx, _, _) => ctx == "origin"
  | none => false

def builtinParams (name : String) : List String :=
  match builtinEntry name with
  | some (_, _, ps, _) => ps
  | none => []

def builtinReturn (name : String) : String :=
  match builtinEntry name with
  | some (_, _, _, r) => r
  | none => ""

end NS
`)
	fmt.Print(b.String())
}
